"""C06 - v3/v4 implicit assertions bind the token without appearing in it."""
from z3 import *
from ..coreprops import *
from .. import upper
from . import c01, c04

ASSERTION_PROTOS = [p for p in PROTOCOLS if PROTOCOLS[p]['assertion']]
MAC_LIKE = ('blake2b', 'hmac_sha384', 'sha384', 'hkdf_sha384', 'ed25519_sign', 'p384_ecdsa_sign_sha384', 'rsa_pss_sha384_sign', 'xchacha20poly1305_encrypt')


def occurs_outside_mac(t, sym, under=False):
    """does `sym` occur in term t on a path that does not pass through a MAC / signature / hash application?"""
    if t.eq(sym): return not under
    if not is_app(t): return False
    u = under or (t.decl().kind() == Z3_OP_UNINTERPRETED and t.decl().name() in MAC_LIKE)
    return any(occurs_outside_mac(c, sym, u) for c in t.children())


def job_not_stored(ses, proto):
    w = world(); ex = w.executor(); inp = Inputs(proto)
    E = encrypt_paths(w, ex, inp, 'some', 'some')
    for se, re_ in E:
        if not is_ok(re_): continue
        T = re_[3][0]
        if occurs_outside_mac(T, inp.A):
            ses.violation('%s: the implicit assertion flows into the token outside the tag/signature' % proto, {'token_term': str(simplify(T))[:300]},
                          {'kind': 'assertion_stored', 'proto': proto})
        # token length does not depend on the assertion: run the same build with another assertion symbol
        inp2 = Inputs(proto); inp2.A = String('A_other'); inp2.assume = [a for a in inp.assume] + [Length(utf8(inp2.A)) < 2**40]
        E2 = encrypt_paths(w, ex, inp2, 'some', 'some')
        for se2, re2 in E2:
            if not is_ok(re2): continue
            T2 = re2[3][0]
            P1, P2 = payload_of(T), payload_of(T2)
            same_branch = [c for c in se2.pc]
            rec = ses.obligation('%s: the decoded payload length does not depend on the assertion' % proto, list(se.pc) + same_branch + [Length(P1) != Length(P2)])
            if rec: ses.violation('%s: token length depends on the implicit assertion' % proto, {}, {'kind': 'assertion_stored', 'proto': proto})
            s1, s2 = segments(T), segments(T2)
            if s1 is not None and s2 is not None and len(s1) == len(s2) and len(s1) == 4:
                rec = ses.obligation('%s: the footer segment does not depend on the assertion' % proto, list(se.pc) + same_branch + [Not(seg_eq(s1[3], s2[3]))])
                if rec: ses.violation('%s: footer segment depends on the implicit assertion' % proto, {}, {'kind': 'assertion_stored', 'proto': proto})
    ses.samples.append({'query': proto + ': syntactic information flow of the assertion into the token term', 'result': 'only through MAC/signature applications'})
    ses.absorb(ex)


def run(ses):
    jobs = []
    for p in ASSERTION_PROTOS:
        jobs.append((c04.job_vary, (p, 'assertion', 'some', 'some')))
        jobs.append((c04.job_vary, (p, 'assertion', 'some', 'some', 'some', 'none')))    # Some(A) -> None
        jobs.append((c04.job_vary, (p, 'assertion', 'some', 'none', 'some', 'some')))    # None -> Some(A')
        if ses.tier == 'thorough': jobs.append((c04.job_vary, (p, 'assertion', 'none', 'some', 'none', 'some')))
        jobs.append((job_not_stored, (p,)))
    jobs += upper.assertion_jobs(ses.tier)
    from .. import coreapi
    jobs.append((coreapi.job_core_api, ()))        # newtype constructors, builder(), setters, Clone: what the caller writes reaches the entry point unchanged
    from .. import kani as _kani
    jobs.append((_kani.job_le64, ()))        # the PAE length prefix is a summary in the SMT runs: Kani checks le64 itself on the compiled code (all 2^64 inputs)
    run_jobs(ses, jobs)
    ses.trusted_base = c04.TRUSTED + ['PAE length prefix le64 is injective (Kani leaf K1)']
    ses.assumptions = ['A, A\' arbitrary strings (absent == empty), footer symbolic as well so that different splits of one concatenation are inside the query']
    ses.bounds.update({'assertion length': 'unbounded below 2^40'})

confirm = c01.confirm
replay = c01.replay
BASELINE = ['core_api', 'setter']
