"""C19 - mixing versions or purposes is a compile-time error.

Engine E3: the impl headers, bounds and method signatures of the real crate (rustdoc JSON of the working tree, private items
included) become constraints over the finite sorts Version x Purpose x key size; "is there an instantiation for which a mixing
call type-checks" is one SMT query per operation family.  A sat answer instantiates a program, which is compiled against the
working tree - VIOLATION only if rustc accepts it.  The matching programs are compiled as a positive control."""
import json, os, re, subprocess, tempfile, shutil, time, itertools
from z3 import *
from .. import build, solve
from ..session import Session

OWNERS = ('Paseto', 'GenericBuilder', 'GenericParser', 'PasetoBuilder', 'PasetoParser')
KEYS = ('PasetoSymmetricKey', 'PasetoAsymmetricPrivateKey', 'PasetoAsymmetricPublicKey')
METHODS = {'try_encrypt': 'Local', 'try_decrypt': 'Local', 'try_sign': 'Public', 'try_verify': 'Public', 'parse': None, 'build': None}
KEYSIZE_OK = {('PasetoAsymmetricPrivateKey', 'V2'): {64}, ('PasetoAsymmetricPrivateKey', 'V4'): {64}, ('PasetoAsymmetricPrivateKey', 'V3'): {48},
              ('PasetoAsymmetricPublicKey', 'V2'): {32}, ('PasetoAsymmetricPublicKey', 'V4'): {32}, ('PasetoAsymmetricPublicKey', 'V3'): {49},
              ('PasetoSymmetricKey', 'V1'): {32}, ('PasetoSymmetricKey', 'V2'): {32}, ('PasetoSymmetricKey', 'V3'): {32}, ('PasetoSymmetricKey', 'V4'): {32}}
Version, VS = EnumSort('Version', ['V1', 'V2', 'V3', 'V4']); Purpose, PS = EnumSort('Purpose', ['Local', 'Public'])
VC = dict(zip(['V1', 'V2', 'V3', 'V4'], VS)); PC = dict(zip(['Local', 'Public'], PS))
TRUSTED = ['rustdoc JSON (nightly, --document-private-items) describes the impl headers, bounds and signatures the compiler uses',
           'the encoding covers inherent impls of Paseto / GenericBuilder / GenericParser / PasetoBuilder / PasetoParser and From/TryFrom impls of the key types; auto-deref, coercions and foreign blanket impls are not modelled (no enumerated shape relies on them)',
           'rustc is the judge of every program the solver proposes (a sat answer is reported only if the program compiles) and of the positive controls']


def tname(t):
    if not isinstance(t, dict): return None
    if 'resolved_path' in t: return (t['resolved_path'].get('path') or t['resolved_path'].get('name')).split('::')[-1]
    if 'generic' in t: return '$' + t['generic']
    if 'borrowed_ref' in t: return tname(t['borrowed_ref']['type'])
    return None


def targs(t):
    if 'borrowed_ref' in t: return targs(t['borrowed_ref']['type'])
    if 'resolved_path' not in t: return []
    a = t['resolved_path'].get('args') or {}
    out = []
    for x in a.get('angle_bracketed', {}).get('args', []):
        if 'type' in x: out.append(x['type'])
        elif 'const' in x: out.append({'const': x['const'].get('expr') or x['const'].get('value')})
    return out


class Model:
    def __init__(self, doc):
        self.idx = doc['index']
        self.impls = [v['inner']['impl'] for v in self.idx.values() if 'impl' in v['inner']]
        self.impls = [i for i in self.impls if not i.get('blanket_impl') and not i.get('is_synthetic')]
        self.markers = {}
        for i in self.impls:
            tr = i['trait']
            if tr:
                n = (tr.get('path') or tr.get('name')).split('::')[-1]
                if n in ('V1orV3', 'V2orV4', 'ImplicitAssertionCapable', 'VersionTrait', 'PurposeTrait', 'Default', 'Clone', 'Copy'): self.markers.setdefault(n, set()).add(tname(i['for']))

    def bounds_of(self, i, extra_generics=None):
        b = {}
        for gen in [i['generics']] + ([extra_generics] if extra_generics else []):
            for g in gen['params']:
                if 'type' in g['kind']:
                    b.setdefault(g['name'], []).extend((x['trait_bound']['trait'].get('path') or x['trait_bound']['trait'].get('name')).split('::')[-1] for x in g['kind']['type'].get('bounds', []) if 'trait_bound' in x)
            for w in gen['where_predicates']:
                bp = w.get('bound_predicate')
                if bp and 'generic' in bp['type']:
                    b.setdefault(bp['type']['generic'], []).extend((x['trait_bound']['trait'].get('path') or x['trait_bound']['trait'].get('name')).split('::')[-1] for x in bp['bounds'] if 'trait_bound' in x)
        return b

    def constrain(self, arg, var, env, bnds, enum):
        n = tname(arg)
        if n in enum: return var == enum[n]
        if n and n.startswith('$'):
            g = n[1:]; cons = []
            if g in env: cons.append(var == env[g])
            else: env[g] = var
            for tr in bnds.get(g, []):
                if tr in self.markers:
                    names = [m for m in self.markers[tr] if m in enum]
                    if tr in ('V1orV3', 'V2orV4', 'ImplicitAssertionCapable', 'VersionTrait', 'Default', 'Clone', 'Copy') and enum is VC: cons.append(Or(*[var == VC[m] for m in names] or [BoolVal(False)]))
                    if tr in ('PurposeTrait', 'Default', 'Clone', 'Copy') and enum is PC: cons.append(Or(*[var == PC[m] for m in names] or [BoolVal(False)]))
            return And(*cons) if cons else BoolVal(True)
        return BoolVal(False)


def vp_args(fa, owner):
    """the (Version, Purpose) type arguments of an owner / key type (lifetimes are not listed among type args)"""
    ts = [a for a in fa if 'const' not in a]
    return (ts[0], ts[1]) if len(ts) >= 2 else (None, None)


def compile_programs(progs, label):
    """progs: list of (name, rust source of one function).  Returns {name: (compiles, first error line)}; compiled against /repo's working tree"""
    res = {}
    scratch = tempfile.mkdtemp(prefix='vf-c19-')
    try:
        os.makedirs(scratch + '/src')
        open(scratch + '/Cargo.toml', 'w').write('[package]\nname = "c19probe"\nversion = "0.1.0"\nedition = "2021"\n[workspace]\n[dependencies]\nrusty_paseto = { path = "%s", default-features = false, features = [%s] }\n'
                                                 % (build.REPO, ', '.join('"%s"' % f for f in build.ALL_FEATURES.split(','))))
        shutil.copy(build.REPO + '/Cargo.lock', scratch + '/Cargo.lock')
        env = dict(build.ENV, CARGO_TARGET_DIR=os.path.join(build.CACHE, 'tgt-c19'))
        for name, src in progs:
            open(scratch + '/src/lib.rs', 'w').write('#![allow(unused)]\nuse rusty_paseto::prelude::*;\nuse std::convert::TryFrom;\n' + src + '\n')
            with build.Lock('c19'):
                p = subprocess.run(['cargo', 'check', '--offline', '--quiet'], cwd=scratch, env=env, capture_output=True, text=True)
            errs = [l for l in p.stderr.split('\n') if l.startswith('error')]
            res[name] = (p.returncode == 0, errs[0] if errs else '')
    finally:
        shutil.rmtree(scratch, ignore_errors=True)
    return res


def key_decl(kt, v, p): return '%s<%s%s, %s>' % (kt, "'static, " if kt != 'PasetoSymmetricKey' else '', v, p)


def call_program(owner, method, ov, op, kt, kv, kp, name):
    """a function that type-checks iff `owner<ov,op>::method` accepts a `&kt<kv,kp>`"""
    ia = ov in ('V3', 'V4')
    k = 'k: &\'static %s' % key_decl(kt, kv, kp)
    if owner == 'Paseto':
        if method == 'try_encrypt': body = 'let n = Key::<32>::from([0u8; 32]); let nn = PasetoNonce::<%s, %s>::from(&n); let _ = Paseto::<%s, %s>::builder().try_encrypt(k, &nn);' % (ov, op, ov, op)
        elif method == 'try_sign': body = 'let _ = Paseto::<%s, %s>::builder().try_sign(k);' % (ov, op)
        else: body = 'let _ = Paseto::<%s, %s>::%s("t", k, None%s);' % (ov, op, method, ', None' if ia else '')
    elif owner in ('GenericBuilder', 'PasetoBuilder'):
        body = 'let _ = %s::<%s, %s>::default().%s(k);' % (owner, ov, op, method)
    else:
        body = 'let _ = %s::<%s, %s>::default().parse("t", k);' % (owner, ov, op)
    return 'pub fn %s(%s) { %s }' % (name, k, body)


def run(ses):
    t0 = time.time()
    path, info = build.rustdoc_json()
    doc = json.load(open(path)); M = Model(doc); idx = M.idx
    ses.notes.append('rustdoc JSON: %s (format %s), %d impls, markers %s' % (info, doc.get('format_version'), len(M.impls), {k: sorted(v) for k, v in M.markers.items()}))
    v, p, v2, p2 = Const('v', Version), Const('p', Purpose), Const('v2', Version), Const('p2', Purpose)
    facts = []; untyped = []
    for i in M.impls:
        if i['trait'] is not None or tname(i['for']) not in OWNERS: continue
        fa = targs(i['for']); a0, a1 = vp_args(fa, tname(i['for']))
        if a0 is None: continue
        for it in i['items']:
            item = idx.get(str(it))
            if not item or item['name'] not in METHODS or 'function' not in item['inner']: continue
            fn = item['inner']['function']; bnds = M.bounds_of(i, fn.get('generics'))
            keyed = False
            for pname, pty in fn['sig']['inputs']:
                if tname(pty) in KEYS:
                    keyed = True; env = {}
                    f = And(M.constrain(a0, v, env, bnds, VC), M.constrain(a1, p, env, bnds, PC))
                    k0, k1 = vp_args(targs(pty), tname(pty))
                    f = And(f, M.constrain(k0, v2, env, bnds, VC), M.constrain(k1, p2, env, bnds, PC))
                    facts.append((tname(i['for']), item['name'], tname(pty), f))
            if not keyed and item['name'] != 'parse' or (item['name'] in ('parse', 'build') and not keyed):
                env = {}
                untyped.append((tname(i['for']), item['name'], And(M.constrain(a0, v, env, bnds, VC), M.constrain(a1, p, env, bnds, PC))))
    ses.functions |= set('%s::%s(&%s)' % (o, m, k) for o, m, k, _ in facts)
    ses.samples.append({'signatures_extracted': len(facts), 'example': '%s::%s takes &%s' % facts[0][:3] if facts else None})
    if len(facts) < 40: ses.undecided.append('only %d (owner, method, key) signatures found in the rustdoc JSON - encoding or tree broken' % len(facts))
    violations = []          # (description, program)
    class MC:
        def __init__(self, m): self.m = m
        def __getitem__(self, var):
            x = self.m.eval(var, model_completion=True); return x
    def ask(name, cons, expect='unsat', vals=None):
        s = Solver(); s.add(*cons); t1 = time.time(); r = str(s.check()); dt = time.time() - t1
        rec2 = solve.check(cons, timeout=30, name=name, solvers=['cvc5-1.0.3', 'z3-4.8.12'])
        verdict = r if rec2['verdict'] == r else ('disagree' if rec2['verdict'] in ('sat', 'unsat') else r)
        ses.queries.append({'name': name, 'verdict': verdict, 'expected': expect, 'solver': 'z3-5.1.0-api+' + str(rec2['solver']), 'agree': rec2['agree'], 'time_s': round(dt + rec2['time_s'], 3), 'lemma_instances': 0, 'per_solver': rec2['per_solver']})
        if verdict not in ('sat', 'unsat'): ses.undecided.append('%s: %s' % (name, verdict))
        return verdict, (MC(s.model()) if r == 'sat' else None)

    # 1. a key of another version/purpose is accepted by some entry point
    for (owner, meth, kt), grp in itertools.groupby(sorted(facts, key=lambda x: x[:3]), key=lambda x: x[:3]):
        fs = [f for _, _, _, f in grp]
        r, m = ask('%s::%s accepts a %s of another version or purpose' % (owner, meth, kt), [Or(*fs), Or(v != v2, p != p2)])
        if r == 'sat':
            violations.append(('%s::<%s,%s>::%s type-checks with a %s<%s,%s>' % (owner, m[v], m[p], meth, kt, m[v2], m[p2]),
                               call_program(owner, meth, str(m[v]), str(m[p]), kt, str(m[v2]), str(m[p2]), 'mix')))
        ask('%s::%s with the matching %s exists (positive side of the encoding)' % (owner, meth, kt), [Or(*fs), v == v2, p == p2], 'sat')
    # 2. operation on the wrong purpose
    for meth, pur in METHODS.items():
        if pur is None: continue
        fs = [f for o, m_, k, f in facts if m_ == meth]
        wrong = PC['Public'] if pur == 'Local' else PC['Local']
        r, m = ask('%s exists on a %s type' % (meth, wrong), [Or(*fs) if fs else BoolVal(False), p == wrong])
        if r == 'sat':
            kt = 'PasetoSymmetricKey' if pur == 'Local' else ('PasetoAsymmetricPrivateKey' if meth == 'try_sign' else 'PasetoAsymmetricPublicKey')
            violations.append(('%s is available on purpose %s' % (meth, wrong), call_program('Paseto', meth, str(m[v]), str(wrong), kt, str(m[v]), str(wrong), 'wrongpurpose')))
    # 3. an entry point without a typed key parameter
    for owner, meth, f in untyped:
        if meth in ('parse', 'build', 'try_encrypt', 'try_decrypt', 'try_sign', 'try_verify'):
            ses.queries.append({'name': '%s::%s has a key parameter typed with version and purpose' % (owner, meth), 'verdict': 'sat', 'expected': 'unsat', 'solver': 'structural', 'agree': [], 'time_s': 0, 'lemma_instances': 0, 'per_solver': {}})
            s_ = Solver(); s_.add(f)
            if str(s_.check()) == 'sat':       # the protocol instance this untyped entry point belongs to comes from the impl header's own constraint
                mv, mp = str(s_.model().eval(v, model_completion=True)), str(s_.model().eval(p, model_completion=True))
            else: mv, mp = 'V4', ('Local' if 'sign' not in meth and 'verify' not in meth else 'Public')
            other = 'V2' if mv != 'V2' else 'V4'
            violations.append(('%s::<%s,%s>::%s takes no key typed with (Version, Purpose)' % (owner, mv, mp, meth), call_program(owner, meth, mv, mp, 'PasetoSymmetricKey', other, 'Local', 'untyped')))
    # 4. set_implicit_assertion on V1 / V2
    for owner in OWNERS:
        cons = []
        for i in M.impls:
            if i['trait'] is None and tname(i['for']) == owner and any((idx.get(str(it)) or {}).get('name') == 'set_implicit_assertion' for it in i['items']):
                env = {}; a0, a1 = vp_args(targs(i['for']), owner); cons.append(M.constrain(a0, v, env, M.bounds_of(i), VC))
        r, m = ask('%s::set_implicit_assertion is available for V1 or V2' % owner, [Or(*cons) if cons else BoolVal(False), Or(v == VC['V1'], v == VC['V2'])])
        if r == 'sat':
            ctor = 'builder()' if owner == 'Paseto' else 'default()'
            violations.append(('%s::<%s,_>::set_implicit_assertion type-checks' % (owner, m[v]), 'pub fn ia() { let mut x = %s::<%s, Local>::%s; x.set_implicit_assertion(ImplicitAssertion::from("a")); }' % (owner, m[v], ctor)))
        ask('%s::set_implicit_assertion exists for V3/V4' % owner, [Or(*cons) if cons else BoolVal(False), Or(v == VC['V3'], v == VC['V4'])], 'sat')
    # 5. key construction
    n = Int('n')
    for kt in KEYS:
        cons = []
        for i in M.impls:
            tr = i['trait']
            if tr and (tr.get('path') or tr.get('name')).split('::')[-1] in ('From', 'TryFrom', 'Default') and tname(i['for']) == kt:
                env = {}; a0, a1 = vp_args(targs(i['for']), kt); bnds = M.bounds_of(i)
                src = (tr.get('args') or {}).get('angle_bracketed', {}).get('args', [])
                srct = src[0].get('type') if src else None
                size = None
                if srct is not None and tname(srct) == 'Key':
                    cs = [a for a in targs(srct) if 'const' in a]
                    if cs and str(cs[0]['const']).isdigit(): size = int(cs[0]['const'])
                    elif cs: size = 'any'          # a const generic parameter: the impl exists for every N
                elif srct is not None and (tname(srct) or '').startswith('$'):
                    size = 'any'                   # the source type is a type parameter (`From<&T> where T: AsRef<[u8]>`): fixed-size material of every length, and other protocols' keys, qualify
                elif (tr.get('path') or tr.get('name')).split('::')[-1] == 'Default':
                    size = 'default'               # constructible from nothing
                f = And(M.constrain(a0, v, env, bnds, VC), M.constrain(a1, p, env, bnds, PC))
                cons.append((f, size, tname(srct) if srct else None))
        if kt == 'PasetoSymmetricKey':
            r, m = ask('a symmetric key with purpose Public is constructible', [Or(*[f for f, _, _ in cons]) if cons else BoolVal(False), p == PC['Public']])
            if r == 'sat':
                violations.append(('PasetoSymmetricKey<%s, Public> is constructible' % m[v], 'pub fn sk() { let _ = PasetoSymmetricKey::<%s, Public>::from(Key::<32>::from([0u8; 32])); }' % m[v]))
                if any(sz == 'default' for _, sz, _ in cons): violations.append(('PasetoSymmetricKey<%s, Public>::default() type-checks' % m[v], 'pub fn skd() { let _ = PasetoSymmetricKey::<%s, Public>::default(); }' % m[v]))
        else:
            r, m = ask('%s with purpose Local is constructible' % kt, [Or(*[f for f, _, _ in cons]) if cons else BoolVal(False), p == PC['Local']])
            if r == 'sat': violations.append(('%s<%s, Local> is constructible' % (kt, m[v]), 'pub fn ak(b: &\'static [u8]) { let k = Key::<64>::from([0u8; 64]); let _ = %s::<%s, Local>::from(&k); }' % (kt, m[v])))
        if kt != 'PasetoSymmetricKey':
            dflt = [f for f, sz, _ in cons if sz == 'default']
            if dflt:
                r, m = ask('%s is constructible without key material (Default)' % kt, [Or(*dflt)])
                if r == 'sat': violations.append(('%s<%s,%s>::default() type-checks' % (kt, m[v], m[p]), 'pub fn dk() { let _ = %s::<%s, %s>::default(); }' % (kt, m[v], m[p])))
        sized = [(f, sz) for f, sz, src in cons if sz is not None and sz != 'default']
        bad = []
        for f, sz in sized:
            right = Or(*[And(v == VC[ver], Or(*[n == x for x in sizes])) for (k_, ver), sizes in KEYSIZE_OK.items() if k_ == kt] or [BoolVal(False)])
            bad.append(And(f, Not(right), n >= 0, n <= 128, *([n == sz] if sz != 'any' else [n != 0])))
        r, m = ask('%s is constructible from a Key<N> whose N is not the protocol\'s key size' % kt, [Or(*bad) if bad else BoolVal(False)])
        if r == 'sat':
            N = m[n].as_long(); ver = str(m[v]); pur = str(m[p])
            conv = 'try_from' if (kt == 'PasetoAsymmetricPublicKey' and ver == 'V3') else 'from'
            arg = 'k' if kt == 'PasetoSymmetricKey' else '&k'
            violations.append(('%s<%s,%s> is constructible from Key<%d>' % (kt, ver, pur, N), 'pub fn ks() { let k = Key::<%d>::from([0u8; %d]); let _ = %s::<%s, %s>::%s(%s); }' % (N, N, kt, ver, pur, conv, arg)))
    # positive controls + proposed violations go to rustc
    controls = []
    for ver in ('V1', 'V2', 'V3', 'V4'):
        for pur, meths, kts in (('Local', ('try_encrypt', 'try_decrypt'), ('PasetoSymmetricKey',) * 2), ('Public', ('try_sign', 'try_verify'), ('PasetoAsymmetricPrivateKey', 'PasetoAsymmetricPublicKey'))):
            for meth, kt in zip(meths, kts):
                controls.append(('ctl_%s_%s_%s' % (ver, pur, meth), call_program('Paseto', meth, ver, pur, kt, ver, pur, 'ctl_%s_%s_%s' % (ver.lower(), pur.lower(), meth))))
            bk = 'PasetoSymmetricKey' if pur == 'Local' else 'PasetoAsymmetricPrivateKey'; pk = 'PasetoSymmetricKey' if pur == 'Local' else 'PasetoAsymmetricPublicKey'
            bm = 'try_encrypt' if pur == 'Local' else 'try_sign'
            controls.append(('ctl_gb_%s_%s' % (ver, pur), call_program('GenericBuilder', bm, ver, pur, bk, ver, pur, 'ctl_gb_%s_%s' % (ver.lower(), pur.lower()))))
            controls.append(('ctl_pb_%s_%s' % (ver, pur), call_program('PasetoBuilder', 'build', ver, pur, bk, ver, pur, 'ctl_pb_%s_%s' % (ver.lower(), pur.lower()))))
            controls.append(('ctl_gp_%s_%s' % (ver, pur), call_program('GenericParser', 'parse', ver, pur, pk, ver, pur, 'ctl_gp_%s_%s' % (ver.lower(), pur.lower()))))
            controls.append(('ctl_pp_%s_%s' % (ver, pur), call_program('PasetoParser', 'parse', ver, pur, pk, ver, pur, 'ctl_pp_%s_%s' % (ver.lower(), pur.lower()))))
    control_src = '\n'.join(src for _, src in controls) + '\npub fn ctl_ia() { let mut x = PasetoBuilder::<V4, Local>::default(); x.set_implicit_assertion(ImplicitAssertion::from("a")); let mut y = GenericParser::<V3, Public>::default(); y.set_implicit_assertion(ImplicitAssertion::from("a")); }\npub fn ctl_keys() { let _ = PasetoSymmetricKey::<V4, Local>::from(Key::<32>::from([0u8; 32])); let k = Key::<64>::from([0u8; 64]); let _ = PasetoAsymmetricPrivateKey::<V4, Public>::from(&k); let k3 = Key::<48>::from([0u8; 48]); let _ = PasetoAsymmetricPrivateKey::<V3, Public>::from(&k3); }'
    progs = [('positive_controls', control_src)] + [('violation_%d' % i, src) for i, (_, src) in enumerate(violations)]
    res = compile_programs(progs, 'c19')
    ses.native_runs += len(progs)
    if not res['positive_controls'][0]:
        ses.undecided.append('the matching programs (%d calls, X == Y) do not compile against the working tree: %s' % (len(controls), res['positive_controls'][1]))
    ses.samples.append({'positive_control_program': control_src[:400], 'compiles': res['positive_controls'][0]})
    for i, (desc, src) in enumerate(violations):
        okc, errl = res['violation_%d' % i]
        if okc: ses.violations.append({'what': 'a program mixing protocols compiles: ' + desc, 'detail': {'program': src}, 'replay': {'kind': 'c19_program', 'program': src, 'confirmed_by_rustc': True}, 'key': None})
        else: ses.undecided.append('the type-level model admits "%s" but rustc rejects the program (%s): the encoding is too coarse here' % (desc, errl[:120]))
    ses.trusted_base = TRUSTED
    ses.assumptions = ['program shapes: one call of each entry point with a key parameter of type KeyType<V\', P\'>; set_implicit_assertion on each owner; From/TryFrom construction of each key type']
    ses.bounds.update({'type instantiations': 'all of Version x Purpose x Version x Purpose per entry point (finite sorts, one query each)', 'programs compiled': len(progs)})
    ses.paths = len(facts); ses.blocks = len(ses.queries)


def confirm(ses, v):
    return True if v['replay'].get('confirmed_by_rustc') else None


def replay(path):
    d = json.load(open(path)); src = d['replay']['program']
    r = compile_programs([('p', src)], 'replay'); print(src); print('compiles:', r['p'])
    if r['p'][0]: print('VIOLATION property=C19 replay=%s' % path); return 1
    return 0
