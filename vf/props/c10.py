"""C10 - high-level builders never reuse a nonce (decidable core: every local build draws fresh randomness and the wire nonce is an
injective function of that draw; the statistical clause about the OS RNG is not claimed)."""
from z3 import *
from ..upperprops import *
from ..coreprops import Inputs, encrypt_paths, payload_of, new_state as _ns
from . import c01, c13

TRUSTED = ['rustc MIR dump is the semantics of the source', 'ring::rand::SystemRandom::fill returns fresh, unpredictable bytes on every call (the statistical quality of the OS RNG is NOT checked)',
           'HMAC-SHA384 truncated to 32 bytes and keyed BLAKE2b-24 are collision free (v1/v2 wire-nonce derivation)', 'core entry points summarised for the builder runs; the core runs use the ideal primitives of C01']


def job_builder_nonce(ses, proto, prelude):
    """GenericBuilder::<V,Local>::try_encrypt / PasetoBuilder::build: the nonce handed to the core is the rng draw of this very call, all of it, exactly one draw; nothing of it is kept in the builder"""
    w = world(); ex = upper_executor(w); sb = SymBuilder(w); p = PROTOCOLS[proto]
    vt = w.type_text(proto); akind = 'some' if p['assertion'] else 'none'
    if prelude: fs = [g for g in w.fns if g.file == PB and g.method == 'build' and g.impl and vt[0].split('::')[-1] in g.impl[1] and vt[1].split('::')[-1] in g.impl[1]]
    else: fs = [g for g in w.fns if g.file == GB and g.method == 'try_encrypt' and g.impl and vt[0].split('::')[-1] in g.impl[1] and vt[1].split('::')[-1] in g.impl[1]]
    if len(fs) != 1: raise Unsupported('%s builder entry for %s: %d bodies' % ('prelude' if prelude else 'generic', proto, len(fs)))
    st = new_state([Not(sb.DUP)] if prelude else []); cell = st.new_cell(sb.value('some', akind) if prelude else sb.generic_value('some', akind))
    Kb = Const('K', Bytes); key = sym_key_value(w, proto, Kb)
    tag = '%s %s' % (proto, 'PasetoBuilder::build' if prelude else 'GenericBuilder::try_encrypt'); n_ok = 0
    for s2, r in ex.run(fs[0], [('ref', cell, ()), ('ref', st.new_cell(key), ())], st):
        if isinstance(r, Panic): continue
        core = [e for e in s2.log if e[0] == 'core_build']; rng = [e for e in s2.log if e[0] == 'rng']
        if not is_ok(r): continue
        n_ok += 1
        if len(core) != 1 or len(rng) != 1:
            ses.violation('%s: %d core calls, %d RNG draws on a successful build (a build must draw fresh randomness exactly once)' % (tag, len(core), len(rng)), {}, {'kind': 'c10', 'proto': proto}); continue
        nonce, draw = core[0][3], rng[0][1]
        rec = upper_obligation(ses, '%s: the nonce handed to the core is exactly the bytes drawn from the RNG in this call (%d bytes)' % (tag, p['nonce_len'] if proto != 'v2.local' else 24),
                               list(s2.pc) + [Not(And(nonce == draw, Length(draw) == (24 if proto == 'v2.local' else 32)))])
        if rec: ses.violation('%s: the nonce is not the fresh RNG output of this build (constant, cached or partially fixed nonce)' % tag, {}, {'kind': 'c10', 'proto': proto})
        # nothing of the builder changes (so no nonce can be remembered for the next build): all fields, including ones unknown to the harness
        v0 = sb.value('some', akind) if prelude else sb.generic_value('some', akind)
        extra = w.extra_fields.get('GenericBuilder', []) + w.extra_fields.get('PasetoBuilder', [])
        if extra:
            after = s2.store[cell]; names = w.fields('PasetoBuilder' if prelude else 'GenericBuilder')
            before = dict(zip(names, v0[3])); aft = dict(zip(names, after[3]))
            g_after = dict(zip(w.fields('GenericBuilder'), aft['builder'][3])) if prelude else aft
            g_before = dict(zip(w.fields('GenericBuilder'), before['builder'][3])) if prelude else before
            for fld in w.extra_fields.get('GenericBuilder', []):
                if str(g_after.get(fld)) != str(g_before.get(fld)):
                    ses.violation('%s: the build stores state in the builder field `%s` (%s -> %s): later builds can depend on this one' % (tag, fld, str(g_before.get(fld))[:40], str(g_after.get(fld))[:60]), {}, {'kind': 'c10', 'proto': proto})
    if n_ok == 0: ses.undecided.append(tag + ': no Ok path')
    ses.absorb(ex)


def job_core_nonce(ses, proto):
    """core try_encrypt: two encryptions under one key whose wire nonce fields coincide used the same nonce seed (and, for v1/v2, the same message)"""
    w = world(); ex = w.executor(); p = PROTOCOLS[proto]
    a, b = Inputs(proto, '_1'), Inputs(proto, '_2')
    b.K = a.K; b.assume = [x for x in b.assume if 'K_2' not in str(x)] + [Length(a.K) == 32]
    nl = 24 if proto == 'v2.local' else 32
    ak = 'some' if p['assertion'] else 'none'
    Ea = [(s, r) for s, r in encrypt_paths(w, ex, a, 'some', ak) if is_ok(r)]; Eb = [(s, r) for s, r in encrypt_paths(w, ex, b, 'some', ak) if is_ok(r)]
    for sa, ra in Ea[:1]:
        for sb_, rb in Eb[:1]:
            Pa, Pb = payload_of(ra[3][0]), payload_of(rb[3][0])
            na, nb = Extract(Pa, 0, nl), Extract(Pb, 0, nl)
            extra = []
            if proto == 'v1.local':
                ha, hb = cm.hmac384(a.N, cm.utf8(a.M)), cm.hmac384(b.N, cm.utf8(b.M))
                extra = [Implies(Extract(ha, 0, 32) == Extract(hb, 0, 32), ha == hb)]
            same_inputs = And(a.N == b.N, a.M == b.M) if proto in ('v1.local', 'v2.local') else a.N == b.N
            rec = ses.obligation('%s core: equal wire nonces imply equal nonce seeds%s' % (proto, ' and messages' if proto in ('v1.local', 'v2.local') else ''),
                                 list(sa.pc) + list(sb_.pc) + extra + [na == nb, Not(same_inputs)])
            if rec: ses.violation('%s: two different nonce seeds can produce the same wire nonce (the nonce field is not an injective function of the random draw)' % proto, {}, {'kind': 'c10', 'proto': proto})
            ok_, _ = ses.witness('%s core: two encryptions with different seeds are possible' % proto, list(sa.pc) + list(sb_.pc) + [a.N != b.N])
    ses.absorb(ex)


def run(ses):
    jobs = [(job_builder_nonce, (p, pre)) for p in LOCAL for pre in (False, True)] + [(job_core_nonce, (p,)) for p in LOCAL]
    jobs += [(c13.job_build, (p,)) for p in LOCAL]           # frame condition: build() leaves every builder field as it was
    from .. import coreapi
    jobs.append((coreapi.job_key_ctors, ()))        # PasetoNonce::from(&Key<N>) keeps every byte of the draw (and the key wrappers keep theirs)
    run_jobs(ses, jobs)
    ses.trusted_base = TRUSTED
    ses.assumptions = ['histories of any length follow from the per-build statement (fresh draw per build, nothing retained) and the RNG contract',
                       'NOT claimed: per-bit frequency bounds over 10^5 builds (a property of the operating system RNG, outside solver-based checking of this code)']
    ses.bounds.update({'builds per obligation': 1, 'protocols': LOCAL})

confirm = c01.confirm
replay = c01.replay
BASELINE = ['c10']
