"""C07 - tokens are bound to their version and purpose (no algorithm confusion)."""
from z3 import *
from ..coreprops import *
from .. import upper
from ..replay import _txt, _fix, key_steps, build_step
from . import c01, c03

TRUSTED = ['rustc MIR dump is the semantics of the source', 'contracts of vf/coremodel.py',
           'every primitive is its own ideal functionality (BLAKE2b-MAC, HMAC-SHA384, HKDF-SHA384, XChaCha20-Poly1305, Ed25519, ECDSA-P384, RSA-PSS are pairwise unrelated functions); F_MAC / F_SIG / INT-CTXT as in C03']


def job_verbatim(ses, y):
    """a token whose text starts with another protocol's header is rejected by every entry point of Y with WrongHeader (or an earlier format error)"""
    w = world(); ex = w.executor(); p = PROTOCOLS[y]
    K = Const('K', Bytes); F = String('F'); A = String('A'); tok = String('tok')
    assume = [Length(tok) < 2**40, Length(utf8(F)) < 2**40, Length(utf8(A)) < 2**40]
    if p['keykind'] == 'sym': assume.append(Length(K) == 32)
    D = decrypt_paths(w, ex, y, tok, K, F, A, 'some', 'some', assume=assume)
    others = [x for x in PROTOCOLS if x != y]
    n = 0
    for sd, rd in D:
        passed_header = is_ok(rd) or any(e[0] in ('b64dec', 'mac', 'verify', 'aead_dec', 'kdf') for e in sd.log if not (e[0] == 'compare'))
        if not passed_header: continue
        n += 1
        rec = ses.obligation('%s: a token that gets past the header check does not start with the header of another protocol' % y,
                             list(sd.pc) + [Or(*[PrefixOf(StringVal(x + '.'), tok) for x in others])], values=[tok])
        if rec:
            m = fmt_model(['token'], rec)
            ses.violation('%s accepts (or processes) a token carrying another protocol\'s header: %r' % (y, (m.get('token') or '')[:60]), m,
                          {'kind': 'verbatim', 'y': y, 'token': m.get('token')})
    if n == 0: ses.undecided.append('%s: no path passes the header check' % y)
    ses.samples.append({'query': 'verbatim tokens of the 7 other protocols presented to ' + y, 'paths_past_header_check': n})
    ses.absorb(ex)


def job_relabel(ses, x, y):
    """authentic token of X, header text replaced by Y's, presented to Y under the same key bytes"""
    w = world(); ex = w.executor(); px, py = PROTOCOLS[x], PROTOCOLS[y]
    inp = Inputs(x)
    ax = 'some' if px['assertion'] else 'none'; ay = 'some' if py['assertion'] else 'none'
    E = encrypt_paths(w, ex, inp, 'some', ax)
    tag = 'token of %s relabelled as %s' % (x, y)
    # key bytes handed to Y: the same bytes where the key types coincide
    if px['p'] == 'Local' and py['p'] == 'Local': keyy = inp.K; kassume = []
    elif px['p'] == 'Public' and py['p'] == 'Public' and px['keykind'] == py['keykind']: keyy = inp.PK; kassume = []
    else:
        keyy = Const('Ky', Bytes); kassume = [Length(keyy) < 2**20]    # unrelated key types: Y's key is arbitrary
        if py['keykind'] == 'sym': kassume.append(Length(keyy) == 32)
        if py['keykind'] == 'p384': kassume += [Length(keyy) == 49, cm.p384_compress(keyy) == keyy]      # Y's key object holds a compressed point
        if py['keykind'] == 'ed25519': kassume.append(Length(keyy) == 32)
    Ay = String('Ay')
    for se, re_ in E:
        if not is_ok(re_): continue
        T = re_[3][0]; sg = segments(T); P = payload_of(T)
        Ty = Concat(StringVal(y + '.'), b64(P)) if len(sg) == 3 else Concat(StringVal(y + '.'), b64(P), StringVal('.'), seg_term(sg[3]))
        D = decrypt_paths(w, ex, y, Ty, keyy, inp.F, Ay, 'some', ay, assume=list(se.pc) + kassume + [Length(utf8(Ay)) < 2**40])
        for sd, rd in D:
            if not is_ok(rd): continue
            h = honest_for([se.log], inp); mark_secret_mac_keys(h, list(sd.pc), inp.K); with_compares(h, sd.log)
            if px['p'] == 'Public': h['honest_pks'] = [inp.PK]
            if kassume:      # unrelated key types: Y's key is an honest, independent key of Y under which nothing was ever produced
                if py['p'] == 'Public': h['honest_pks'] = h.get('honest_pks', []) + [keyy]
                else:
                    h2 = {}; mark_secret_mac_keys(h2, list(sd.pc), keyy); h['mac_keys'] = h.get('mac_keys', []) + h2['mac_keys']; h['aead_keys'] = h.get('aead_keys', []) + [keyy]
            vals = [getattr(inp, 'seed', inp.K), inp.N, utf8(inp.M), utf8(inp.F), utf8(inp.A), utf8(Ay)]
            rec = ses.obligation('%s: never accepted' % tag, list(sd.pc), honest=h, values=vals)
            if rec:
                m = fmt_model(['key', 'nonce', 'message', 'footer', 'assertion', 'assertion_y'], rec)
                steps = key_steps(x, m) + [build_step(x, m, 'some', ax), {'op': 'mutate', 'in': '$T', 'out': 'T2', 'ops': [{'set_header': y + '.'}]},
                         # the authentic token is verified by its own protocol first: state kept between calls (a memo shared by two versions, say) is then warm
                         {'op': 'parse_core', 'proto': x, 'token': '$T', 'key': '$k_pk', 'footer': _txt(m.get('footer')), 'assertion': None if ax == 'none' else _txt(m.get('assertion')), 'out': 'R_warm'},
                         {'op': 'parse_core', 'proto': y, 'token': '$T2', 'key': '$k_pk', 'footer': _txt(m.get('footer')),
                          'assertion': None if ay == 'none' else _txt(m.get('assertion_y')), 'out': 'R'}]
                alts = [[{'var': 'R', 'is': 'ok'}]]
                if ay != 'none':      # the solver's assertion for Y first, then the two spellings of "no assertion" (what X's token was built with when X has none)
                    for ai, av in enumerate((None, '', _txt(m.get('assertion')))):
                        steps.append({'op': 'parse_core', 'proto': y, 'token': '$T2', 'key': '$k_pk', 'footer': _txt(m.get('footer')), 'assertion': av, 'out': 'RA%d' % ai}); alts.append([{'var': 'RA%d' % ai, 'is': 'ok'}])
                ses.violation('%s is accepted' % tag, m, {'steps': steps, 'violated_if': alts})
        ses.samples.append({'query': tag, 'paths': [describe(r) for _, r in D]})
    ses.absorb(ex)


def pairs(tier):
    ps = []
    for x in PROTOCOLS:
        for y in PROTOCOLS:
            if x == y: continue
            same_purpose = PROTOCOLS[x]['p'] == PROTOCOLS[y]['p']
            if tier == 'thorough' or same_purpose: ps.append((x, y))
    return ps


def run(ses):
    jobs = [(job_verbatim, (y,)) for y in PROTOCOLS] + [(job_relabel, xy) for xy in pairs(ses.tier)]
    jobs += upper.confusion_jobs(ses.tier)
    from .. import kani as _kani
    jobs.append((_kani.job_le64, ()))        # the PAE length prefix is a summary in the SMT runs: Kani checks le64 itself on the compiled code (all 2^64 inputs)
    run_jobs(ses, jobs)
    ses.trusted_base = TRUSTED
    ses.assumptions = ['same key bytes on both sides where the key types coincide (32-byte symmetric keys; Ed25519 keys of v2/v4); otherwise Y\'s key is arbitrary']
    ses.bounds.update({'ordered protocol pairs': len(pairs(ses.tier)), 'quick tier': 'the 24 same-purpose pairs (relabelled) + all 56 verbatim', 'thorough tier': 'all 56 pairs relabelled'})

confirm = c01.confirm
replay = c01.replay
BASELINE = ['verbatim']
