"""C05 - the footer is authenticated and must match the caller's expected footer."""
from z3 import *
from ..coreprops import *
from .. import upper
from . import c01, c04, c03

def job_segment(ses, proto, fkind):
    """the footer segment of every produced token is exactly b64url(F); present iff F is non-empty"""
    w = world(); ex = w.executor(); inp = Inputs(proto)
    a = 'some' if PROTOCOLS[proto]['assertion'] else 'none'
    E = encrypt_paths(w, ex, inp, fkind, a)
    for se, re_ in E:
        if not is_ok(re_): continue
        T = re_[3][0]; sg = segments(T)
        Fb = inp.F if fkind == 'some' else StringVal('')
        if sg is None:
            # the token text is not of the form the segment view needs (an encoder the model does not know): the claim is stated on the text itself
            H = StringVal(proto + '.')
            goal = Or(Not(PrefixOf(H, T)), And(Fb != StringVal(''), Not(SuffixOf(Concat(StringVal('.'), b64(utf8(Fb))), T))))
            rec = ses.obligation('%s footer=%s: the produced text starts with the header and ends with "." || b64url(F) for a non-empty F' % (proto, fkind), list(se.pc) + [goal], values=[utf8(Fb)])
            if rec: ses.violation('%s: the produced token does not end with "." || base64url(footer)' % proto, fmt_model(['footer'], rec), {'kind': 'footer_segment', 'proto': proto, 'model': fmt_model(['footer'], rec)})
            continue
        if len(sg) == 4:
            want = [b64(utf8(Fb))] if fkind == 'some' else []
            rec = ses.obligation('%s footer=%s: the 4th segment is b64url(F) and F is non-empty' % (proto, fkind), list(se.pc) + [Or(Not(seg_eq(sg[3], want)), Fb == StringVal(''))])
            if rec: ses.violation('%s: footer segment is not base64url(footer) / present for an empty footer' % proto, {}, {'kind': 'footer_segment', 'proto': proto})
        elif len(sg) == 3:
            rec = ses.obligation('%s footer=%s: a token without footer segment is produced only for an empty footer' % (proto, fkind), list(se.pc) + [Fb != StringVal('')], values=[utf8(Fb)])
            if rec: ses.violation('%s: a non-empty footer produces no footer segment' % proto, {}, {'kind': 'footer_segment', 'proto': proto})
        else: ses.violation('%s: produced token has %d segments' % (proto, len(sg)), {'token': str(T)[:200]}, {'kind': 'footer_segment', 'proto': proto})
    ses.absorb(ex)


def run(ses):
    jobs = []
    for p in PROTOCOLS:
        a = 'some' if PROTOCOLS[p]['assertion'] else 'none'
        jobs.append((c04.job_vary, (p, 'footer', 'some', a)))               # Some(F) -> Some(F')
        jobs.append((c04.job_vary, (p, 'footer', 'some', a, 'none', a)))    # Some(F) -> None   (accept iff F == "")
        jobs.append((c04.job_vary, (p, 'footer', 'none', a, 'some', a)))    # None    -> Some(F') (accept iff F' == "")
        jobs.append((job_segment, (p, 'some'))); jobs.append((job_segment, (p, 'none')))
        jobs.append((c04.job_footer_swap, (p,)))
        # edits of the footer segment itself: the S4 tamper query of C03 with an arbitrary segment text
        jobs.append((c03.job_tamper, (p, 'some', a, 'S4'))); jobs.append((c03.job_tamper, (p, 'some', a, 'S3')))
    from .. import kani
    jobs.append((kani.job_footer_compare, ()))
    jobs += upper.footer_jobs(ses.tier)
    from .. import coreapi
    jobs.append((coreapi.job_core_api, ()))        # newtype constructors, builder(), setters, Clone: what the caller writes reaches the entry point unchanged
    from .. import kani as _kani
    jobs.append((_kani.job_le64, ()))        # the PAE length prefix is a summary in the SMT runs: Kani checks le64 itself on the compiled code (all 2^64 inputs)
    run_jobs(ses, jobs)
    ses.trusted_base = c04.TRUSTED + ['base64url encoding is injective and strict decoding is canonical']
    ses.assumptions = ['F, F\' arbitrary strings (absent == empty); key and assertion as at build time']
    ses.bounds.update({'footer length': 'unbounded below 2^40'})

confirm = c01.confirm
replay = c01.replay
BASELINE = ['core_api', 'footer_compare', 'setter', 'footer_segment']
