"""C18 - custom claims cannot shadow registered claims; time claims validate input."""
from z3 import *
from ..upperprops import *
from .. import kani
from . import c01

RESERVED = ['iss', 'sub', 'aud', 'exp', 'nbf', 'iat', 'jti']
CC = 'src/generic/claims/custom_claim.rs'
TIME_CLAIMS = {'exp': 'src/generic/claims/expiration_claim.rs', 'nbf': 'src/generic/claims/not_before_claim.rs', 'iat': 'src/generic/claims/issued_at_claim.rs'}
TRUSTED = ['rustc MIR dump is the semantics of the source', 'SMT strings for keys (all of Unicode, any length)', 'iso8601::datetime is an uninterpreted predicate: the constructors must accept exactly when it does and keep the text verbatim',
           'which strings iso8601 accepts (every RFC 3339 date-time with upper-case T/Z; nothing that does not start with an ISO 8601 date) is the iso8601 crate\'s contract, outside this claim',
           'Kani leaf: the three CustomClaim constructors on the compiled code for every UTF-8 key of at most 4 bytes']


def job_custom(ses, form):
    w = world(); ex = upper_executor(w)
    fs = [g for g in w.fns if g.file == CC and g.method == 'try_from' and '{closure' not in g.name]
    pick = {'key_only': lambda g: '(_1: &str)' in g.sig, 'tuple_str': lambda g: '(_1: (&str, T))' in g.sig, 'tuple_string': lambda g: '(_1: (std::string::String, T))' in g.sig}[form]
    f = [g for g in fs if pick(g)]
    if len(f) != 1: raise Unsupported('CustomClaim::try_from (%s): %d bodies' % (form, len(f)))
    k = String('key'); val = Const('value', JV)
    st = new_state([Length(k) < 2**30])
    arg = k if form == 'key_only' else tup(k, ('opaque_value', val))
    res = ex.run(f[0], [arg], st, subst={'T': 'SymValue'})
    reserved = Or(*[k == StringVal(r) for r in RESERVED]); n = {'ok': 0, 'err': 0}
    for s2, r in res:
        if isinstance(r, Panic):
            if upper_obligation(ses, 'CustomClaim::try_from (%s): no panic' % form, list(s2.pc)): ses.violation('CustomClaim::try_from panics', {}, {'kind': 'c18'})
        elif is_ok(r):
            n['ok'] += 1
            rec = upper_obligation(ses, 'CustomClaim::try_from (%s) succeeds only for keys outside {iss,sub,aud,exp,nbf,iat,jti}' % form, list(s2.pc) + [reserved], values=[k])
            if rec: ses.violation('a custom claim with a reserved key can be constructed (%s form)' % form, fmt_model(['key'], rec), {'kind': 'c18', 'form': form, 'model': fmt_model(['key'], rec)})
            stored = as_str_field_deep(s2, r[3][0])
            if stored is not None and upper_obligation(ses, 'CustomClaim::try_from (%s) stores the key verbatim' % form, list(s2.pc) + [stored != k]):
                ses.violation('custom claim constructor alters the key', {}, {'kind': 'c18', 'form': form})
        else:
            n['err'] += 1
            rec = upper_obligation(ses, 'CustomClaim::try_from (%s) fails only for the seven reserved keys (exact, case-sensitive, untrimmed)' % form, list(s2.pc) + [Not(reserved)], values=[k])
            if rec: ses.violation('a custom claim with a non-reserved key is refused (%s form)' % form, fmt_model(['key'], rec), {'kind': 'c18', 'form': form, 'model': fmt_model(['key'], rec)})
            e = r[3][0]
            if not (e[0] == 'adt' and 'Reserved' in (e[1], e[2])): ses.violation('reserved-key refusal is not PasetoClaimError::Reserved (%s)' % describe(r), {}, {'kind': 'c18', 'form': form})
    if not n['ok'] or not n['err']: ses.undecided.append('CustomClaim::try_from (%s): ok/err paths %s' % (form, n))
    ses.absorb(ex)


def as_str_field_deep(st, v):
    try:
        x = v
        while isinstance(x, tuple) and x[0] in ('adt', 'tup'):
            x = (x[3] if x[0] == 'adt' else x[1])[0]
        return x if is_expr(x) and is_string(x) else None
    except Exception: return None


def job_time_claim(ses, which, form):
    w = world(); ex = upper_executor(w)
    fs = [g for g in w.fns if g.file == TIME_CLAIMS[which] and g.method == 'try_from' and '{closure' not in g.name]
    f = [g for g in fs if ('(_1: &str)' in g.sig) == (form == 'str')]
    if len(f) != 1: raise Unsupported('%s claim try_from(%s): %d bodies' % (which, form, len(f)))
    s_ = String('value'); st = new_state([Length(s_) < 2**30])
    res = ex.run(f[0], [s_], st); n = {'ok': 0, 'err': 0}
    for s2, r in res:
        if isinstance(r, Panic):
            if upper_obligation(ses, '%s::try_from(%s): no panic' % (which, form), list(s2.pc)): ses.violation('%s claim constructor panics' % which, {}, {'kind': 'c18_time', 'which': which})
        elif is_ok(r):
            n['ok'] += 1
            c = r[3][0]; pair = c[3][0]; key, val = cm.as_str(s2, pair[1][0]), cm.as_str(s2, pair[1][1])
            rec = upper_obligation(ses, '%s::try_from(%s): Ok only when iso8601::datetime accepts the text; key is "%s"; the text is kept verbatim' % (which, form, which),
                                   list(s2.pc) + [Not(And(um.iso8601_ok(s_), key == StringVal(which), val == s_))], values=[s_])
            if rec: ses.violation('%s claim constructor accepts text iso8601 rejects / stores another key or value' % which, fmt_model(['value'], rec), {'kind': 'c18_time', 'which': which, 'form': form})
        else:
            n['err'] += 1
            rec = upper_obligation(ses, '%s::try_from(%s): Err only when iso8601::datetime rejects the text' % (which, form), list(s2.pc) + [um.iso8601_ok(s_)], values=[s_])
            if rec: ses.violation('%s claim constructor refuses text iso8601 accepts' % which, fmt_model(['value'], rec), {'kind': 'c18_time', 'which': which, 'form': form})
        parsed = [e for e in s2.log if e[0] == 'iso8601']
        if len(parsed) != 1 or not parsed[0][1].eq(s_):
            if upper_obligation(ses, '%s::try_from(%s): iso8601::datetime is asked about the caller\'s text itself' % (which, form), list(s2.pc) + [parsed[0][1] != s_] if parsed else list(s2.pc)):
                ses.violation('%s claim constructor validates a different string than the one supplied (e.g. trimmed)' % which, {}, {'kind': 'c18_time', 'which': which, 'form': form})
    if not n['ok'] or not n['err']: ses.undecided.append('%s::try_from(%s): ok/err paths %s' % (which, form, n))
    ses.absorb(ex)


def run(ses):
    jobs = [(job_custom, (f,)) for f in ('key_only', 'tuple_str', 'tuple_string')]
    jobs += [(job_time_claim, (wch, f)) for wch in TIME_CLAIMS for f in ('str', 'string')]
    jobs.append((kani.job_custom_claim_keys, ()))
    run_jobs(ses, jobs)
    ses.trusted_base = TRUSTED
    ses.assumptions = ['value type T of the custom claim is arbitrary (uninterpreted)']
    ses.bounds.update({'key / text length (SMT)': 'unbounded', 'key length (Kani leaf)': '<= 4 bytes, every byte value'})

confirm = c01.confirm
replay = c01.replay
BASELINE = ['c18']
