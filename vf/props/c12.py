"""C12 - the default parser rejects tokens that are not yet valid (same machinery as C11 with nbf)."""
from . import c11, c01

def run(ses): c11.run(ses, 'nbf')

confirm = c01.confirm
replay = c01.replay
BASELINE = ['c12']
