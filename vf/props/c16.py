"""C16 - custom validators see only authenticated values and their verdict is honoured."""
from . import c15, c01
from ..upperprops import run_jobs

def run(ses):
    run_jobs(ses, c15.jobs_for(('c16',), ses.tier))
    ses.trusted_base = c15.TRUSTED
    ses.assumptions = ['validators registered under pairwise distinct keys, some coinciding with expected-claim keys and some not (keys are symbolic)']
    ses.bounds.update({'(expected claims, validators)': '(0,0) (1,0) (2,0) (1,1) (2,2) quick; up to (3,3), (0,2) thorough'})

confirm = c01.confirm
replay = c01.replay
BASELINE = ['c16']
