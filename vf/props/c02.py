"""C02 - public tokens verify back to exactly the message that was signed."""
from z3 import *
from ..coreprops import *
from .. import upper
from . import c01

TRUSTED = ['rustc MIR dump is the semantics of the source', 'contracts of vf/coremodel.py',
           'ideal signature functionality: verify(pk_of(sk), m, sign(sk, m)) holds (Ed25519, ECDSA P-384/SHA-384, RSA-PSS-SHA384 with fresh salt)',
           'Ed25519 keypair bytes are seed || public_of(seed); P-384 public key is the 49-byte compressed point of the scalar (tag 0x02 or 0x03); RSA key is a PKCS#8 blob ring accepts with a 2048-bit modulus']


def job_v3_public_key_ctor(ses):
    """PasetoAsymmetricPublicKey::<V3,Public>::try_from(&Key<49>) accepts every compressed point (tag 2 or 3) and keeps the bytes"""
    w = world(); ex = w.executor()
    f = w.fn_impl('src/core/key/paseto_asymmetric_public_key.rs', 'try_from', r'PasetoAsymmetricPublicKey')
    kb = Const('pk49', Bytes)
    st = new_state([Length(kb) == 49])
    cell = st.new_cell(adt('Key', None, kb))
    res = ex.run(f, [('ref', cell, ())], st)
    tag = BV2Int(kb[0])
    for s2, r in res:
        if isinstance(r, Panic):
            if ses.obligation('v3.public key constructor: no panic (%s)' % r.msg, s2.pc): ses.violation('v3.public public-key constructor panics: ' + r.msg, {}, None)
        elif is_err(r):
            rec = ses.obligation('v3.public key constructor: a key with SEC1 tag 0x02/0x03 is never refused', list(s2.pc) + [Or(tag == 2, tag == 3)], values=[kb])
            if rec:
                m = fmt_model(['public_key'], rec)
                ses.violation('PasetoAsymmetricPublicKey::<V3,Public>::try_from refuses a compressed P-384 key (tag 0x02/0x03)', m,
                              {'kind': 'v3_public_key_ctor', 'model': m})
        else:
            out = cm.as_bytes(s2, r[3][0])
            if ses.obligation('v3.public key constructor: accepted key bytes are kept verbatim', list(s2.pc) + [out != kb]):
                ses.violation('v3.public public-key constructor alters the key bytes', {}, None)
            if ses.obligation('v3.public key constructor: only tags 0x02/0x03 are accepted', list(s2.pc) + [Not(Or(tag == 2, tag == 3))]) :
                ses.notes.append('constructor accepts a key whose first byte is not 2/3 (not a C02 violation)')
            ses.witness('v3.public key constructor: acceptance reachable', list(s2.pc))
    ses.absorb(ex)


def run(ses):
    jobs = [(c01.job_roundtrip, (p, f, a)) for p in PUBLIC for f, a in c01.variants(p, ses.tier)]
    jobs.append((job_v3_public_key_ctor, ()))
    jobs += upper.roundtrip_jobs(PUBLIC, ses.tier)
    from .. import coreapi
    jobs.append((coreapi.job_core_api, ())); jobs.append((coreapi.job_key_ctors, ()))        # newtype constructors, builder(), setters, Clone: what the caller writes reaches the entry point unchanged
    from .. import kani as _kani
    jobs.append((_kani.job_le64, ()))        # the PAE length prefix is a summary in the SMT runs: Kani checks le64 itself on the compiled code (all 2^64 inputs)
    run_jobs(ses, jobs)
    ses.trusted_base = TRUSTED
    ses.assumptions = ['private key bytes are valid for the scheme (see trusted_base); public key is the one derived from it',
                       'message, footer, assertion arbitrary strings of fewer than 2^40 bytes']
    ses.bounds.update({'message/footer/assertion length': 'unbounded below 2^40 bytes', 'RSA modulus': '2048 bit (the only size whose signature fits the 256-byte buffer of try_sign)'})

confirm = c01.confirm
replay = c01.replay
BASELINE = ['core_api', 'key_ctor', 'rsa_pool', 'core_builder_reuse']
