"""C04 (wrong key), C05 (footer), C06 (implicit assertion): the authentic token presented with ONE parse-side input changed.

One job shape serves the three properties: run encrypt/sign, then decrypt/verify of the produced token where the key, the
expected footer or the expected assertion is a fresh symbol; every accepting path must force the fresh symbol to equal the
build-side value (absent == empty)."""
from z3 import *
from ..coreprops import *
from .. import upper
from ..replay import _txt, _fix, key_steps, build_step
from . import c01

TRUSTED = ['rustc MIR dump is the semantics of the source', 'contracts of vf/coremodel.py',
           'MAC / KDF / hash are collision free as functions of (key, data); AEAD decrypts only ciphertexts produced under the same (key, nonce, aad); '
           'a signature verifies under pk only if the holder of the matching private key signed that message (two different public keys never verify the same signature: idealisation)']


def job_vary(ses, proto, what, fkind, akind, fkind2=None, akind2=None):
    """what in {'key', 'footer', 'assertion'}; fkind2/akind2: Option shape on the parse side (default: same as build side)"""
    w = world(); ex = w.executor(); p = PROTOCOLS[proto]; public = p['p'] == 'Public'
    inp = Inputs(proto)
    fkind2 = fkind2 or fkind; akind2 = akind2 or akind
    E = encrypt_paths(w, ex, inp, fkind, akind)
    K2 = Const('K2', Bytes); F2 = String('F2'); A2 = String('A2')
    tag = '%s vary=%s build(footer=%s,assertion=%s) parse(footer=%s,assertion=%s)' % (proto, what, fkind, akind, fkind2, akind2)
    Fb = inp.F if fkind == 'some' else StringVal(''); Ab = inp.A if akind == 'some' else StringVal('')
    any_accept = False; wit_ok = False
    builder_frame_check(ses, w, E, tag, proto, fkind, akind)
    for se, re_ in E:
        if not is_ok(re_): continue
        T = re_[3][0]
        key = inp.dec_key(); Fp, Ap = inp.F, inp.A; assume = list(se.pc); differs = None; hon_pk = []
        if what == 'key':
            key = K2
            if p['keykind'] == 'sym': assume.append(Length(K2) == 32)
            elif p['keykind'] == 'ed25519': assume.append(Length(K2) == 32)
            elif p['keykind'] == 'p384': assume += [Length(K2) == 49]
            else: assume.append(Length(K2) < 2**20)
            differs = K2 != inp.dec_key()
            if p['keykind'] == 'p384': differs = And(differs, cm.p384_compress(K2) != inp.PK)     # an uncompressed encoding of the same point is the same key
        elif what == 'footer':
            Fp = F2; assume.append(Length(utf8(F2)) < 2**40)
            differs = (F2 if fkind2 == 'some' else StringVal('')) != Fb
        else:
            Ap = A2; assume.append(Length(utf8(A2)) < 2**40)
            differs = (A2 if akind2 == 'some' else StringVal('')) != Ab
        # the parse side uses fkind2/akind2; when the build side was 'none' the build-side symbol is unconstrained, so tie it to ""
        D = decrypt_paths(w, ex, proto, T, key, Fp, Ap, fkind2, akind2, assume=assume)
        vals = [getattr(inp, 'seed', inp.K), inp.N, utf8(inp.M), utf8(Fb), utf8(Ab), K2, utf8(F2), utf8(A2)]
        names = ['key', 'nonce', 'message', 'footer', 'assertion', 'key2', 'footer2', 'assertion2']
        for sd, rd in D:
            if not is_ok(rd): continue
            any_accept = True
            h = honest_for([se.log], inp); mark_secret_mac_keys(h, list(sd.pc), inp.K); with_compares(h, sd.log)
            if public: h['honest_pks'] = [inp.PK]
            q = list(sd.pc) + [differs]
            if what == 'key' and public:
                # ideal signature scheme: a signature made under sk does not verify under any other public key
                for e in sd.log:
                    if e[0] == 'verify':
                        vname = {'ed25519': cm.ed_ver, 'p384': cm.p384_ver, 'rsa': cm.rsa_ver}[e[1]]
                        q.append(Implies(vname(e[2], e[3], e[4]), Or(e[2] == inp.PK, *[False])))
            rec = ses.obligation('%s: acceptance forces the parse-side %s to equal the build-side one' % (tag, what), q, honest=h, values=vals)
            if rec:
                m = fmt_model(names, rec)
                steps = key_steps(proto, m) + [build_step(proto, m, fkind, akind)]
                pkey = '$k_pk'
                if what == 'key':
                    m2 = dict(m); m2['key'] = m.get('key2'); m2['seed'] = m.get('key2')
                    steps += key_steps(proto, m2, 'k2'); pkey = '$k2_pk'
                f2 = _txt(m.get('footer2')) if what == 'footer' else _txt(m.get('footer'))
                a2 = _txt(m.get('assertion2')) if what == 'assertion' else _txt(m.get('assertion'))
                # the authentic parse first (state kept between calls - a cache, a memo - is then warm), then the solver's key, then single-bit neighbours of the right key
                steps.append({'op': 'parse_core', 'proto': proto, 'token': '$T', 'key': '$k_pk', 'footer': None if fkind == 'none' else _txt(m.get('footer')),
                              'assertion': None if akind == 'none' else _txt(m.get('assertion')), 'out': 'R_warm'})
                steps.append({'op': 'parse_core', 'proto': proto, 'token': '$T', 'key': pkey, 'footer': None if fkind2 == 'none' else f2,
                              'assertion': None if akind2 == 'none' else a2, 'out': 'R'})
                alts = [[{'var': 'R', 'is': 'ok'}, {'var': 'T', 'is': 'ok'}]]
                if what == 'key':
                    for ni, (idx, mask) in enumerate(((0, 1), (0, 0x80), (-1, 1), (-1, 0x80), (16, 0x10), (1, 1))):
                        steps += [{'op': 'bytes_xor', 'in': '$k_pk', 'index': idx, 'mask': mask, 'out': 'kn%d' % ni},
                                  {'op': 'parse_core', 'proto': proto, 'token': '$T', 'key': '$kn%d' % ni, 'footer': None if fkind2 == 'none' else f2, 'assertion': None if akind2 == 'none' else a2, 'out': 'RN%d' % ni}]
                        alts.append([{'var': 'RN%d' % ni, 'is': 'ok'}, {'var': 'T', 'is': 'ok'}])
                if what == 'key':
                    # a comparison that folds the difference into a few bits passes for a small fraction of wrong keys: the empty message (whose "plaintext" under a wrong
                    # key is still valid text) against every one-byte neighbour of the right key in the first and the last position
                    m0 = dict(m, message=''); steps.append(build_step(proto, m0, fkind, akind, out='T0'))
                    for idx in (0, -1):
                        for mask in range(1, 256):
                            nm = 'ks%d_%d' % (idx + 1, mask)
                            steps += [{'op': 'bytes_xor', 'in': '$k_pk', 'index': idx, 'mask': mask, 'out': nm},
                                      {'op': 'parse_core', 'proto': proto, 'token': '$T0', 'key': '$' + nm, 'footer': None if fkind2 == 'none' else f2, 'assertion': None if akind2 == 'none' else a2, 'out': 'R' + nm}]
                            alts.append([{'var': 'R' + nm, 'is': 'ok'}, {'var': 'T0', 'is': 'ok'}])
                if what == 'assertion' and akind2 != 'none':
                    # a comparison that folds the difference into a few bits passes for a small fraction of wrong assertions: one token, 1200 other assertions
                    ma = dict(m, assertion='tenant-0000'.encode().hex(), message=''); steps.append(build_step(proto, ma, fkind, 'some', out='TA'))
                    for i in range(1, 1201):
                        steps.append({'op': 'parse_core', 'proto': proto, 'token': '$TA', 'key': '$k_pk', 'footer': None if fkind == 'none' else _txt(m.get('footer')), 'assertion': 'tenant-%04d' % i, 'out': 'RA%d' % i})
                        alts.append([{'var': 'RA%d' % i, 'is': 'ok'}, {'var': 'TA', 'is': 'ok'}])
                ses.violation('%s: the token is accepted although the %s differs' % (tag, what), m, {'steps': steps, 'violated_if': alts})
            v_, _ = ses.ask('%s: acceptance with the matching %s is reachable' % (tag, what), list(sd.pc) + [Not(differs)], 'sat')
            wit_ok = wit_ok or v_ == 'sat'
        ses.samples.append({'query': tag, 'decrypt_paths': [describe(r) for _, r in D]})
    if not any_accept: ses.undecided.append('%s: no accepting path' % tag)
    ses.witnesses.append((tag + ': acceptance with the matching value is reachable on some path', 'sat' if wit_ok else 'unsat'))
    if not wit_ok: ses.undecided.append('%s: vacuous - no accepting path is satisfiable even with matching inputs' % tag)
    ses.absorb(ex)


def job_footer_swap(ses, proto):
    """the footer segment of the authentic token is replaced by b64url(F2) (or removed) and the verifier expects exactly F2: acceptance forces F2 == F.
    (job_vary changes only the verifier's expectation; this one changes the token to match it - what an attacker who wants another footer read does)"""
    w = world(); ex = w.executor(); p = PROTOCOLS[proto]; public = p['p'] == 'Public'
    inp = Inputs(proto); akind = 'some' if p['assertion'] else 'none'
    E = encrypt_paths(w, ex, inp, 'some', akind); F2 = String('F2')
    tag = '%s footer swap' % proto; n = 0
    for se, re_ in E:
        if not is_ok(re_): continue
        T = re_[3][0]; sg = segments(T)
        if sg is None or len(sg) not in (3, 4): continue
        try: P = payload_of(T)
        except Unsupported: continue
        for with_seg in (True, False):
            T2 = Concat(StringVal(proto + '.'), b64(P), StringVal('.'), b64(utf8(F2))) if with_seg else Concat(StringVal(proto + '.'), b64(P))
            side = [Length(utf8(F2)) < 2**40] + ([F2 != StringVal('')] if with_seg else [F2 == StringVal('')])
            D = decrypt_paths(w, ex, proto, T2, inp.dec_key(), F2, inp.A, 'some', akind, assume=list(se.pc) + side)
            for sd, rd in D:
                if not is_ok(rd): continue
                n += 1
                h = honest_for([se.log], inp); mark_secret_mac_keys(h, list(sd.pc), inp.K); with_compares(h, sd.log)
                if public: h['honest_pks'] = [inp.PK]
                vals = [getattr(inp, 'seed', inp.K), inp.N, utf8(inp.M), utf8(inp.F), utf8(inp.A), utf8(F2)]
                rec = ses.obligation('%s (segment %s): a token whose footer segment was rewritten to the verifier\'s expectation is accepted only if that is the footer it was built with' % (tag, 'replaced' if with_seg else 'removed'),
                                     list(sd.pc) + [F2 != inp.F], honest=h, values=vals)
                if rec:
                    m = fmt_model(['key', 'nonce', 'message', 'footer', 'assertion', 'footer2'], rec)
                    steps = key_steps(proto, m) + [build_step(proto, m, 'some', akind)]; alts = []
                    for ci, f2 in enumerate(dict.fromkeys([_txt(m.get('footer2')), 'other', 'f', '', _txt(m.get('footer')) + 'x'])):
                        if f2 == _txt(m.get('footer')): continue
                        steps += [{'op': 'mutate', 'in': '$T', 'out': 'S%d' % ci, 'ops': [{'footer_seg_b64_of': f2}] if f2 != '' else [{'footer_seg': None}]},
                                  {'op': 'parse_core', 'proto': proto, 'token': '$S%d' % ci, 'key': '$k_pk', 'footer': f2 if f2 != '' else None, 'assertion': None if akind == 'none' else _txt(m.get('assertion')), 'out': 'RS%d' % ci}]
                        alts.append([{'var': 'RS%d' % ci, 'is': 'ok'}, {'var': 'T', 'is': 'ok'}])
                    ses.violation('%s: the footer of a token can be exchanged - the rewritten token is accepted by a verifier expecting the new footer' % proto, m, {'steps': steps, 'violated_if': alts})
    ses.witnesses.append((tag + ': %d accepting paths examined' % n, 'sat'))
    ses.absorb(ex)


def run(ses):
    jobs = []
    for p in PROTOCOLS:
        a = 'some' if PROTOCOLS[p]['assertion'] else 'none'
        jobs.append((job_vary, (p, 'key', 'some', a)))
        if ses.tier == 'thorough': jobs.append((job_vary, (p, 'key', 'none', 'none')))
    jobs += upper.key_jobs(ses.tier)
    from .. import coreapi
    jobs.append((coreapi.job_core_api, ())); jobs.append((coreapi.job_key_ctors, ()))        # newtype constructors, builder(), setters, Clone: what the caller writes reaches the entry point unchanged
    from .. import kani as _kani
    jobs.append((_kani.job_le64, ()))        # the PAE length prefix is a summary in the SMT runs: Kani checks le64 itself on the compiled code (all 2^64 inputs)
    run_jobs(ses, jobs)
    ses.trusted_base = TRUSTED
    ses.assumptions = ['K\' is any key object of the right type with K\' != K (for P-384: not another encoding of the same point); everything else as at build time']
    ses.bounds.update({'message/footer/assertion length': 'unbounded below 2^40'})

confirm = c01.confirm
replay = c01.replay
BASELINE = ['core_api', 'key_ctor']
