"""C17 - a repeated top-level claim makes the batteries-included build fail (inductive step over the PasetoBuilder state machine)."""
from z3 import *
from ..upperprops import *
from . import c01

TRUSTED = ['rustc MIR dump is the semantics of the source', 'HashSet<String> = Array String Bool, HashMap<String, Box<dyn Serialize>> = (present, value) arrays',
           'a claim value is any (key, JSON value) pair whose Serialize impl emits {key: value} (the PasetoClaim contract)',
           'representation invariant INV of PasetoBuilder with ghost history count[k] (how often key k was supplied), see vf/props/c17.py',
           'core entry points are summarised (logged uninterpreted calls); their behaviour is C01-C09']

COUNT = Const('count', ArraySort(StringSort(), IntSort()))       # ghost: number of times each key was supplied through set_claim
SOMEDUP = Bool('some_key_supplied_twice')                        # ghost: exists k. count[k] >= 2
EXP = StringVal('exp')


def inv_at(b, count, somedup, k):
    """pointwise part of the invariant at key k"""
    return And(Select(count, k) >= 0, Select(b['TL'], k) == Or(Select(count, k) >= 1, And(k == EXP, b['NE'])))


def inv_global(b, count, somedup):
    latitude = And(b['DUPK'] == EXP, b['NE'], Select(count, EXP) >= 1)
    return And(Implies(somedup, b['DUP']), Implies(b['DUP'], Or(Select(count, b['DUPK']) >= 2, latitude)),
               Implies(b['DUP'], Or(somedup, latitude)))


def pre_state(w, sb, keys):
    b = {'TL': sb.TL, 'DUP': sb.DUP, 'DUPK': sb.DUPK, 'NE': sb.NE}
    return And(inv_global(b, COUNT, SOMEDUP), *[inv_at(b, COUNT, SOMEDUP, k) for k in keys])


def job_set_claim(ses):
    w = world(); ex = upper_executor(w); sb = SymBuilder(w)
    if not sb.layout_ok(True): ses.notes.append(LAYOUT_NOTE); ses.bounds['builder layout'] = 'unknown to the harness: bounded histories only'; return
    f = w.fn(PB, 'set_claim')
    k = String('k_new'); val = Const('v_new', JV); kq = String('k_any')
    st = new_state([Length(k) < 2**30])
    cell = st.new_cell(sb.value())
    pre = pre_state(w, sb, [k, kq, EXP, StringVal('nbf'), sb.DUPK])
    res = ex.run(f, [('ref', cell, ()), ('opaque_claim', k, val)], st, subst={'T': 'SymClaim'})
    count2 = Store(COUNT, k, Select(COUNT, k) + 1); somedup2 = Or(SOMEDUP, Select(COUNT, k) >= 1)
    for s2, r in res:
        if isinstance(r, Panic):
            if upper_obligation(ses, 'set_claim: no panic (%s)' % r.msg[:50], list(s2.pc) + [pre]): ses.violation('PasetoBuilder::set_claim panics: ' + r.msg, {}, None)
            continue
        b2 = read_builder(w, s2, cell)
        post = And(inv_global(b2, count2, somedup2), inv_at(b2, count2, somedup2, kq), inv_at(b2, count2, somedup2, k), inv_at(b2, count2, somedup2, EXP))
        rec = upper_obligation(ses, 'set_claim(k, v) preserves the invariant (duplicate flag set iff a key was supplied twice; top_level_claims = supplied keys)',
                               list(s2.pc) + [pre, Not(post)], values=[k, sb.DUP, sb.DUPK, sb.NE, Select(COUNT, k), Select(sb.TL, k)])
        if rec:
            m = fmt_model(['key', 'dup_before', 'dup_key_before', 'acknowledged', 'times_key_supplied_before', 'key_in_top_level_before'], rec)
            ses.violation('PasetoBuilder::set_claim breaks the duplicate-tracking invariant', m, {'kind': 'c17_step', 'op': 'set_claim', 'model': m})
        rec = upper_obligation(ses, 'set_claim does not touch the acknowledgement', list(s2.pc) + [pre, b2['NE'] != sb.NE])
        if rec: ses.violation('PasetoBuilder::set_claim changes non_expiring_token', {}, {'kind': 'c17_step', 'op': 'set_claim', 'model': {}})
        upper_ask(ses, 'set_claim: path reachable from a state satisfying the invariant', list(s2.pc) + [pre], 'sat') and None
    ses.witnesses.append(('set_claim paths', 'sat')); ses.samples.append({'step': 'set_claim', 'paths': len(res)})
    ses.absorb(ex)


def job_ack(ses):
    w = world(); ex = upper_executor(w); sb = SymBuilder(w)
    if not sb.layout_ok(True): ses.notes.append(LAYOUT_NOTE); ses.bounds['builder layout'] = 'unknown to the harness: bounded histories only'; return
    f = w.fn(PB, 'set_no_expiration_danger_acknowledged'); kq = String('k_any')
    st = new_state([]); cell = st.new_cell(sb.value())
    pre = pre_state(w, sb, [kq, EXP, sb.DUPK])
    for s2, r in ex.run(f, [('ref', cell, ())], st):
        if isinstance(r, Panic): ses.undecided.append('ack panics?'); continue
        b2 = read_builder(w, s2, cell)
        post = And(inv_global(b2, COUNT, SOMEDUP), inv_at(b2, COUNT, SOMEDUP, kq), inv_at(b2, COUNT, SOMEDUP, EXP), b2['NE'])
        if upper_obligation(ses, 'set_no_expiration_danger_acknowledged preserves the invariant and sets the acknowledgement', list(s2.pc) + [pre, Not(post)]):
            ses.violation('set_no_expiration_danger_acknowledged breaks the invariant', {}, {'kind': 'c17_step', 'op': 'ack', 'model': {}})
    ses.absorb(ex)


def job_build(ses, proto):
    """build(): Err(DuplicateTopLevelPayloadClaim(k)) with k the flagged key iff the flag is set, then no core call; the flag, its key and the
    key set are unchanged afterwards (so every later build fails too); without a flag the core is reached"""
    w = world(); ex = upper_executor(w); sb = SymBuilder(w); p = PROTOCOLS[proto]
    if not sb.layout_ok(True): ses.notes.append(LAYOUT_NOTE); ses.bounds['builder layout'] = 'unknown to the harness: bounded histories only'; return
    vt = w.type_text(proto)
    fs = [g for g in w.fns if g.file == PB and g.method == 'build' and g.impl and vt[0].split('::')[-1] in g.impl[1] and vt[1].split('::')[-1] in g.impl[1]]
    if len(fs) != 1: raise Unsupported('PasetoBuilder::<%s>::build: %d bodies' % (proto, len(fs)))
    akind = 'some' if p['assertion'] else 'none'
    st = new_state([]); cell = st.new_cell(sb.value('some', akind))
    Kb = Const('K', Bytes)
    key = sym_key_value(w, proto, Kb) if p['p'] == 'Local' else w.mk('PasetoAsymmetricPrivateKey', version=PHANTOM, purpose=PHANTOM, key=Kb)
    res = ex.run(fs[0], [('ref', cell, ()), ('ref', st.new_cell(key), ())], st)
    kq = String('k_any')
    for s2, r in res:
        core = [e for e in s2.log if e[0] == 'core_build']
        if isinstance(r, Panic):
            if upper_obligation(ses, '%s build: no panic (%s)' % (proto, r.msg[:60]), list(s2.pc)): ses.violation('PasetoBuilder::build panics: ' + r.msg, {}, None)
            continue
        b2 = read_builder(w, s2, cell)
        frame = And(b2['DUP'] == sb.DUP, Implies(sb.DUP, b2['DUPK'] == sb.DUPK), Select(b2['TL'], kq) == Select(sb.TL, kq), b2['NE'] == sb.NE)
        if upper_obligation(ses, '%s build (%s): duplicate flag, its key, the key set and the acknowledgement are unchanged by build' % (proto, describe(r)), list(s2.pc) + [Not(frame)]):
            ses.violation('%s: build() changes the duplicate-tracking state (a later build would not fail)' % proto, {}, {'kind': 'c17_build_twice', 'proto': proto})
        is_dup_err = is_err(r) and r[3][0][2] == 'DuplicateTopLevelPayloadClaim'
        if is_dup_err:
            named = r[3][0][3][0]
            if upper_obligation(ses, '%s build: DuplicateTopLevelPayloadClaim only when the flag is set, naming the flagged key' % proto, list(s2.pc) + [Not(And(sb.DUP, named == sb.DUPK))]):
                ses.violation('%s: duplicate error without a duplicate / naming another key' % proto, {}, None)
            if core: ses.violation('%s: a token is produced although the build reports a duplicate' % proto, {}, {'kind': 'c17_build_twice', 'proto': proto})
        else:
            if upper_obligation(ses, '%s build (%s): every path that is not the duplicate error has the flag clear' % (proto, describe(r)), list(s2.pc) + [sb.DUP]):
                ses.violation('%s: build() succeeds / reaches the core although a top-level claim was supplied twice' % proto, {}, {'kind': 'c17_dup_build', 'proto': proto})
    if not any(is_ok(r) for _, r in res): ses.undecided.append('%s build: no Ok path' % proto)
    ses.samples.append({'step': 'build ' + proto, 'paths': [describe(r) for _, r in res]})
    ses.absorb(ex)


def run(ses):
    from . import c13
    jobs = [(job_set_claim, ()), (job_ack, ())] + [(job_build, (p,)) for p in PROTOCOLS]
    deep = ses.tier != 'quick' or not SymBuilder(world()).layout_ok(True)
    jobs += [(c13.job_histories, (3 if deep else 2, ('c17',), i, 8)) for i in range(8)]
    run_jobs(ses, jobs)
    ses.trusted_base = TRUSTED
    ses.assumptions = ['the state before each step is ANY state satisfying the invariant (covers call sequences of every length and interleaving, including repeated builds)',
                       'the initial state of PasetoBuilder::default() satisfies the invariant with count = 0 (checked in C13\'s run of default())']
    ses.bounds.update({'history length': 'unbounded (inductive step)', 'keys': 'arbitrary strings'})

confirm = c01.confirm
replay = c01.replay
BASELINE = ['c17_step']
