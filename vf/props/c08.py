"""C08 - tokens are exactly those defined by the PASETO specification (differential check against a transcription of
Version1-4.md / Common.md written directly as SMT terms over the same ideal primitives)."""
from z3 import *
from ..coreprops import *
from .. import upper, kani
from ..replay import _txt, _fix, key_steps, build_step
from . import c01, c03

TRUSTED = ['rustc MIR dump is the semantics of the source', 'contracts of vf/coremodel.py',
           'the transcription of the specification in this file (spec_* functions), reviewed against docs/01-Protocol-Versions/Version{1,2,3,4}.md and Common.md of paseto-standard',
           'with collision-free ideal primitives, equal tokens force equal arguments at every primitive call (domain separation strings, salt/info placement, nonce derivation, PAE piece order, layout)',
           'PreAuthenticationEncoding::le64 is the 8-byte little-endian encoding (checked on the compiled code by the Kani leaf K1 in this check)']


def pae(*ps):
    out = cm.le64(IntVal(len(ps)))
    for p in ps: out = cat(out, cm.le64(Length(p)), p)
    return out


def spec_local(proto, k, n_seed, m, f, i):
    """returns (payload bytes, lemmas)"""
    h = lit((proto + '.').encode())
    if proto == 'v1.local':
        n = Extract(cm.hmac384(n_seed, m), 0, 32)
        salt = Extract(n, 0, 16)
        ek = cm.hkdf384(salt, k, lit(b'paseto-encryption-key'), IntVal(32)); ak = cm.hkdf384(salt, k, lit(b'paseto-auth-key-for-aead'), IntVal(32))
        c = cm.xor(m, cm.ks_aesctr(ek, Extract(n, 16, 16), Length(m)))
        t = cm.hmac384(ak, pae(h, n, c, f))
        return cat(n, c, t)
    if proto == 'v2.local':
        n = cm.blake2b(IntVal(24), n_seed, m)
        c = cm.aead_enc(k, n, pae(h, n, f), m)
        return cat(n, c)
    if proto == 'v3.local':
        n = n_seed
        tmp = cm.hkdf384(Empty(Bytes), k, cat(lit(b'paseto-encryption-key'), n), IntVal(48))
        ek, n2 = Extract(tmp, 0, 32), Extract(tmp, 32, 16)
        ak = cm.hkdf384(Empty(Bytes), k, cat(lit(b'paseto-auth-key-for-aead'), n), IntVal(48))
        c = cm.xor(m, cm.ks_aesctr(ek, n2, Length(m)))
        t = cm.hmac384(ak, pae(h, n, c, f, i))
        return cat(n, c, t)
    if proto == 'v4.local':
        n = n_seed
        tmp = cm.blake2b(IntVal(56), k, cat(lit(b'paseto-encryption-key'), n))
        ek, n2 = Extract(tmp, 0, 32), Extract(tmp, 32, 24)
        ak = cm.blake2b(IntVal(32), k, cat(lit(b'paseto-auth-key-for-aead'), n))
        c = cm.xor(m, cm.ks_xchacha(ek, n2, Length(m)))
        t = cm.blake2b(IntVal(32), ak, pae(h, n, c, f, i))
        return cat(n, c, t)
    raise ValueError(proto)


def spec_public_m2(proto, pk, m, f, i):
    h = lit((proto + '.').encode())
    if proto in ('v1.public', 'v2.public'): return pae(h, m, f)
    if proto == 'v3.public': return pae(pk, h, m, f, i)
    return pae(h, m, f, i)


def spec_verify(proto, pk, m2, sig):
    return {'v1.public': cm.rsa_ver, 'v2.public': cm.ed_ver, 'v4.public': cm.ed_ver, 'v3.public': cm.p384_ver}[proto](pk, m2, sig)


def spec_sign(proto, inp, m2):
    if proto in ('v2.public', 'v4.public'): return cm.ed_sig(inp.seed, m2)
    if proto == 'v3.public': return cm.p384_sig(inp.K, m2)
    return cm.rsa_sig(inp.K, m2, Const('spec_salt', Bytes))


def spec_token(proto, payload, f_bytes, with_footer):
    t = Concat(StringVal(proto + '.'), b64(payload))
    return Concat(t, StringVal('.'), b64(f_bytes)) if with_footer else t


def job_local(ses, proto, fkind, akind):
    w = world(); ex = w.executor(); inp = Inputs(proto); p = PROTOCOLS[proto]
    E = encrypt_paths(w, ex, inp, fkind, akind)
    Fb = utf8(inp.F) if fkind == 'some' else Empty(Bytes); Ab = utf8(inp.A) if (akind == 'some' and p['assertion']) else Empty(Bytes)
    Fs = inp.F if fkind == 'some' else StringVal('')
    Ps = spec_local(proto, inp.K, inp.N, utf8(inp.M), Fb, Ab)
    tag = '%s footer=%s assertion=%s' % (proto, fkind, akind)
    vals = [inp.K, inp.N, utf8(inp.M), Fb, Ab]
    names = ['key', 'nonce', 'message', 'footer', 'assertion']
    builder_frame_check(ses, w, E, tag, proto, fkind, akind)      # the n-th token of one builder is the specification's token as well
    for se, re_ in E:
        if not is_ok(re_): continue
        T = re_[3][0]
        goal = Or(And(Fs == StringVal(''), Not(tok_eq(T, spec_token(proto, Ps, Fb, False)))), And(Fs != StringVal(''), Not(tok_eq(T, spec_token(proto, Ps, Fb, True)))))
        try: P_lib = payload_of(T)
        except Unsupported: P_lib = Ps         # a token text the segment view cannot split (an encoder the model does not know): the comparison above is on the whole text
        rec = ses.obligation('%s: the produced token is byte-identical to the specification token' % tag, list(se.pc) + [goal], values=vals + [P_lib, Ps])
        if rec:
            m = fmt_model(names + ['P_lib', 'P_spec'], rec)
            ses.violation('%s: produced token differs from the specification\'s token' % tag, m,
                          {'kind': 'spec_local', 'proto': proto, 'fkind': fkind, 'akind': akind, 'model': m})
        ses.witness('%s: the encrypt path is reachable' % tag, list(se.pc))
    # every token the specification produces is decrypted by the library
    for wf in ((False, True) if fkind == 'some' else (False,)):
        Tspec = spec_token(proto, Ps, Fb, wf)
        side = [Fs != StringVal('')] if wf else [Fs == StringVal('')]
        D = decrypt_paths(w, ex, proto, Tspec, inp.K, inp.F, inp.A, fkind, akind, assume=list(inp.assume) + side)
        for sd, rd in D:
            goal = BoolVal(True) if not is_ok(rd) else (rd[3][0] != inp.M)
            rec = ses.obligation('%s: the specification\'s token (footer segment: %s) is decrypted to the message (path %s)' % (tag, wf, describe(rd)), list(sd.pc) + [goal], values=vals)
            if rec:
                m = fmt_model(names, rec)
                ses.violation('%s: the library does not decrypt the specification\'s token (%s)' % (tag, describe(rd)), m,
                              {'kind': 'spec_local', 'proto': proto, 'fkind': fkind, 'akind': akind, 'model': m})
    ses.samples.append({'query': tag, 'spec_payload_term': str(simplify(Ps))[:300]})
    ses.absorb(ex)


def job_public(ses, proto, fkind, akind):
    w = world(); ex = w.executor(); inp = Inputs(proto); p = PROTOCOLS[proto]; sl = SIGLEN[proto]
    E = encrypt_paths(w, ex, inp, fkind, akind)
    Fb = utf8(inp.F) if fkind == 'some' else Empty(Bytes); Ab = utf8(inp.A) if (akind == 'some' and p['assertion']) else Empty(Bytes)
    Fs = inp.F if fkind == 'some' else StringVal('')
    mb = utf8(inp.M); m2 = spec_public_m2(proto, inp.PK, mb, Fb, Ab)
    tag = '%s footer=%s assertion=%s' % (proto, fkind, akind)
    vals = [getattr(inp, 'seed', inp.K), utf8(inp.M), Fb, Ab]; names = ['key', 'message', 'footer', 'assertion']
    builder_frame_check(ses, w, E, tag, proto, fkind, akind)
    for se, re_ in E:
        if not is_ok(re_): continue
        T = re_[3][0]
        try: P = payload_of(T)
        except Unsupported:
            H_ = StringVal(proto + '.')
            goal = Or(Not(PrefixOf(H_, T)), And(Fs != StringVal(''), Not(SuffixOf(Concat(StringVal('.'), b64(Fb)), T))), Contains(SubString(T, Length(H_), Length(T)), StringVal('+')), Contains(T, StringVal('/')), Contains(T, StringVal('=')))
            rec = ses.obligation('%s: the produced text is header || unpadded-base64url text [|| "." || b64url(F)]' % tag, list(se.pc) + [goal], values=[Fb])
            if rec: ses.violation('%s: the produced token is not base64url text in the specification\'s layout' % tag, fmt_model(['footer'], rec), {'kind': 'footer_segment', 'proto': proto, 'model': fmt_model(['footer'], rec)})
            continue
        sg = segments(T)
        sig = Extract(P, Length(mb), sl)
        good = And(Length(P) == Length(mb) + sl, Extract(P, 0, Length(mb)) == mb, spec_verify(proto, inp.PK, m2, sig))
        segok = If(Fs == StringVal(''), BoolVal(len(sg) == 3), And(BoolVal(len(sg) == 4), seg_eq(sg[3], [b64(Fb)]) if len(sg) == 4 else BoolVal(False)))
        hdr_ok = BoolVal(is_string_value(pieces(T)[0]) and pieces(T)[0].as_string() == proto + '.')
        rec = ses.obligation('%s: a library-signed token is header || b64(m || sig) with sig valid over the specification\'s PAE' % tag,
                             list(se.pc) + [Not(And(good, segok, hdr_ok))], values=vals + [P])
        if rec:
            m = fmt_model(names + ['P_lib'], rec)
            ses.violation('%s: library-signed token does not verify under the specification (or has the wrong layout)' % tag, m,
                          {'kind': 'spec_public', 'proto': proto, 'fkind': fkind, 'akind': akind, 'model': m})
    s_spec = spec_sign(proto, inp, m2)
    for wf in ((False, True) if fkind == 'some' else (False,)):
        Tspec = spec_token(proto, cat(mb, s_spec), Fb, wf)
        side = [Fs != StringVal('')] if wf else [Fs == StringVal('')]
        D = decrypt_paths(w, ex, proto, Tspec, inp.PK, inp.F, inp.A, fkind, akind, assume=list(inp.assume) + side)
        for sd, rd in D:
            goal = BoolVal(True) if not is_ok(rd) else (rd[3][0] != inp.M)
            rec = ses.obligation('%s: a specification-signed token (footer segment: %s) verifies and returns the message (path %s)' % (tag, wf, describe(rd)), list(sd.pc) + [goal], values=vals)
            if rec:
                m = fmt_model(names, rec)
                ses.violation('%s: the library rejects / mis-reads a specification-signed token (%s)' % (tag, describe(rd)), m,
                              {'kind': 'spec_public', 'proto': proto, 'fkind': fkind, 'akind': akind, 'model': m})
    ses.absorb(ex)


def run(ses):
    jobs = []
    for p in PROTOCOLS:
        a = 'some' if PROTOCOLS[p]['assertion'] else 'none'
        vs = [('some', a), ('none', 'none')]
        for f, ak in vs: jobs.append(((job_local if p in LOCAL else job_public), (p, f, ak)))
    jobs.append((kani.job_le64, ()))
    if ses.tier == 'thorough': jobs.append((kani.job_pae, ()))
    jobs += upper.spec_jobs(ses.tier)
    run_jobs(ses, jobs)
    ses.trusted_base = TRUSTED
    ses.assumptions = ['inputs as in C01/C02', 'the official test vectors pin the real primitives, not this transcription (the repo\'s own vector tests exercise the real code against them)']
    ses.bounds.update({'message/footer/assertion length': 'unbounded below 2^40', 'le64 (Kani)': 'all 2^64 inputs'})

confirm = c01.confirm
replay = c01.replay
