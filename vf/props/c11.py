"""C11 / C12 - the default parser rejects expired / not-yet-valid tokens (and exp / nbf values that are present but not RFC 3339 strings)."""
from z3 import *
from ..upperprops import *
from . import c01

TRUSTED = ['rustc MIR dump is the semantics of the source', 'serde_json::Value as an algebraic datatype (Null, Bool, Number, String, Array, Object)',
           'time: OffsetDateTime::parse(s, &Rfc3339) is an uninterpreted partial function s -> (instant, offset); instants compare as integers; now_utc() is an arbitrary instant per call',
           'which strings the time crate accepts, and which instant it maps them to, is outside the claim (offsets / fractional seconds are inside time::parse)']


def default_parser_state(w, ex):
    f = [g for g in w.fns if g.file == PP and g.method == 'default']
    if len(f) != 1: raise Unsupported('PasetoParser::default: %d bodies' % len(f))
    st = new_state([])
    res = ex.run(f[0], [], st, subst={'Version': 'v4::V4', 'Purpose': 'local::Local'})
    ok = [(s2, r) for s2, r in res if not isinstance(r, Panic)]
    if len(ok) != 1 or len(res) != 1: raise Unsupported('PasetoParser::default(): %d paths; %s' % (len(res), ex.stats.get('unsupported')))
    return ok[0]


def spec_ok(which, v, now):
    s_ = JV.s(v)
    if which == 'exp': return Or(v == JV.Null, And(JV.is_Str(v), um.rfc3339_ok(s_), um.rfc3339(s_) > now))
    return Or(v == JV.Null, And(JV.is_Str(v), um.rfc3339_ok(s_), um.rfc3339(s_) < now))


def job_default_validators(ses, which):
    w = world(); ex = upper_executor(w)
    st, parser = default_parser_state(w, ex)
    pf = dict(zip(w.fields('PasetoParser'), parser[3])); g = dict(zip(w.fields('GenericParser'), pf['parser'][3]))
    vm = g['claim_validators']; registered = [k.as_string() for k, _ in vm[2] if is_string_value(k)]
    if which not in registered: ses.violation('the default parser registers no %s validator (registered: %s)' % (which, registered), {}, {'kind': 'c11'}); ses.absorb(ex); return
    cell = st.new_cell(pf['parser'])
    f = w.fn(GP, 'verify_claims'); tok = String('payload_text'); J = um.jparse(tok)
    res = ex.run(f, [('ref', cell, ()), tok], st)
    key = StringVal(which); v = um.jindex(J, key); n_ok = 0; okpcs = []
    for s2, r in res:
        if isinstance(r, Panic):
            if upper_obligation(ses, 'default parser: no panic (%s)' % r.msg[:50], list(s2.pc)): ses.violation('default parser panics: ' + r.msg, {}, {'kind': 'c09'})
            continue
        # the clock reading made while validating `which` on this path
        now = None; cur = None
        for e in s2.log:
            if e[0] == 'validator_call': cur = e[2]
            if e[0] == 'now' and cur is not None and is_string_value(cur) and cur.as_string() == which: now = e[1]
        calls = [e for e in s2.log if e[0] == 'validator_call' and is_string_value(e[2]) and e[2].as_string() == which]
        vals = [tok]
        if is_ok(r):
            n_ok += 1; okpcs.append(And(*s2.pc))
            nw = now if now is not None else Int('unused_now')
            rec = upper_obligation(ses, 'default parser accepts only if %s is absent/null or an RFC 3339 string whose instant is %s the clock reading' % (which, 'after' if which == 'exp' else 'before'),
                                   list(s2.pc) + [Not(spec_ok(which, v, nw))], values=vals)
            if rec: ses.violation('the default parser accepts a token whose %s is %s' % (which, 'expired / not a timestamp' if which == 'exp' else 'in the future / not a timestamp'), fmt_model(['payload'], rec), {'kind': 'c11'})
            if len(calls) != 1: ses.violation('default parser: %s validator ran %d times on an accepted token' % (which, len(calls)), {}, {'kind': 'c11'})
            elif upper_obligation(ses, 'the %s validator is handed payload["%s"]' % (which, which), list(s2.pc) + [calls[0][3] != v]): ses.violation('the %s validator is not given the payload\'s %s' % (which, which), {}, {'kind': 'c11'})
        elif calls and s2.log and [e for e in s2.log if e[0] == 'validator_call'][-1][2].eq(key):
            # the path failed in this validator: justified only if the value violates the specification
            nw = now if now is not None else Int('unused_now')
            rec = upper_obligation(ses, 'default parser rejects in the %s validator (%s) only when the value is not acceptable' % (which, describe(r)), list(s2.pc) + [spec_ok(which, v, nw)], values=vals)
            if rec: ses.violation('the default parser rejects a token whose %s is fine (%s)' % (which, describe(r)), fmt_model(['payload'], rec), {'kind': 'c11'})
    if n_ok == 0: ses.undecided.append('default parser (%s): no accepting path' % which)
    else:
        upper_ask(ses, 'default parser (%s): acceptance reachable' % which, [Or(*okpcs)], 'sat'); ses.witnesses.append(('default parser accepts something', 'sat'))
    ses.samples.append({'default_validators_registered_for': registered, 'paths': [describe(r) for _, r in res]})
    ses.absorb(ex)


def run(ses, which='exp'):
    from . import c15
    jobs = [(job_default_validators, (which,))]
    # the path from PasetoParser::parse to those validators: every protocol's prelude parse hands the core's plaintext to verify_claims of the same, unchanged parser
    jobs += [(c15.job_parse, (p, True, ('c15', 'c16'))) for p in PROTOCOLS] + [(c15.job_verify_claims, (1, 1, ('c15', 'c16'))), (c15.job_registration, (('c15', 'c16'),))]
    run_jobs(ses, jobs)
    ses.trusted_base = TRUSTED
    ses.assumptions = ['payload is any string / any JSON value; the clock is any instant']
    ses.bounds.update({'payload': 'unbounded', 'instants': 'any integer nanosecond count'})

confirm = c01.confirm
replay = c01.replay
BASELINE = ['c11']
