"""C13 - tokens expire by default; only an explicit acknowledgement removes exp."""
from z3 import *
from ..upperprops import *
from . import c01, c17

TRUSTED = c17.TRUSTED + ['time: OffsetDateTime = integer nanoseconds, now_utc() = a fresh instant per call, format(&Rfc3339) = uninterpreted injective render with parse(render(t)) = t; iso8601::datetime accepts every render(t)',
                         'wrap_value(v) = v (its inductive step is an obligation of C14)']
EXP = StringVal('exp'); IAT = StringVal('iat'); NBF = StringVal('nbf')


def payload_obj(term):
    """payload string handed to the core -> (present array, value array) when it is json_text(Obj(obj_of_map(p, v)))"""
    t = simplify(term)
    if is_app(t) and t.decl().name() == 'json_text':
        o = t.arg(0)
        if is_app(o) and o.decl().name() == 'Obj' and is_app(o.arg(0)) and o.arg(0).decl().name() == 'json_obj_of_map': return o.arg(0).arg(0), o.arg(0).arg(1)
    return None


def mapdefs_lemmas(st, keys):
    """definitional instances of mapped arrays at the given keys"""
    lem = []
    for A2, kg, v2 in st.mapdefs:
        for k in keys: lem.append(Select(A2, k) == substitute(v2, (kg, k)))
    return lem


def job_default(ses):
    w = world(); ex = upper_executor(w)
    f = [g for g in w.fns if g.file == PB and g.method == 'default']
    if len(f) != 1: raise Unsupported('PasetoBuilder::default: %d bodies' % len(f))
    st = new_state([])
    res = ex.run(f[0], [], st, subst={'Version': 'v4::V4', 'Purpose': 'local::Local'})
    kq = String('k_any'); n_ok = 0
    for s2, r in res:
        if isinstance(r, Panic):
            rec = upper_obligation(ses, 'PasetoBuilder::default(): no panic (%s)' % r.msg[:60], list(s2.pc))
            if rec: ses.violation('PasetoBuilder::default() can panic: ' + r.msg, {}, None)
            continue
        n_ok += 1
        f_ = dict(zip(w.fields('PasetoBuilder'), r[3])); g = dict(zip(w.fields('GenericBuilder'), f_['builder'][3]))
        P, V = g['claims'][1], g['claims'][2]
        nows = [e[1] for e in s2.log if e[0] == 'now']
        if len(nows) != 1: ses.violation('PasetoBuilder::default() reads the clock %d times (iat/nbf/exp would not be mutually consistent)' % len(nows), {}, {'kind': 'c13'}); continue
        now = nows[0]
        want = And(Select(P, EXP), Select(P, IAT), Select(P, NBF), Implies(And(kq != EXP, kq != IAT, kq != NBF), Not(Select(P, kq))),
                   Select(V, EXP) == JV.Str(um.render3339(now + 3600 * 10**9)), Select(V, IAT) == JV.Str(um.render3339(now)), Select(V, NBF) == JV.Str(um.render3339(now)),
                   Not(f_['non_expiring_token']), Not(f_['dup_top_level_found'][1][0]), Not(Select(f_['top_level_claims'][1], kq)))
        rec = upper_obligation(ses, 'default(): claims are exactly exp = now+1h, iat = nbf = now (RFC 3339 of one clock reading); no acknowledgement, no duplicate flag, empty key set',
                               list(s2.pc) + mapdefs_lemmas(s2, [EXP, IAT, NBF, kq]) + [Not(want)], values=[kq])
        if rec: ses.violation('PasetoBuilder::default() does not set exp=now+1h / iat=nbf=now (or starts with stale duplicate-tracking state)', fmt_model(['key'], rec), {'kind': 'c13'})
        ses.samples.append({'step': 'default()', 'exp': str(simplify(Select(V, EXP)))[:120]})
    if n_ok == 0: ses.undecided.append('default(): no normal path')
    ses.absorb(ex)


def job_set_claim(ses):
    """set_claim(k, v): exp stays present if it was; claims[k] = v afterwards (k non-empty); no other key changes except nbf being re-set"""
    w = world(); ex = upper_executor(w); sb = SymBuilder(w)
    f = w.fn(PB, 'set_claim'); k = String('k_new'); val = Const('v_new', JV); kq = String('k_any')
    st = new_state([Length(k) < 2**30]); cell = st.new_cell(sb.value())
    for s2, r in ex.run(f, [('ref', cell, ()), ('opaque_claim', k, val)], st, subst={'T': 'SymClaim'}):
        if isinstance(r, Panic): continue      # panic freedom of set_claim is an obligation of C17
        b2 = read_builder(w, s2, cell)
        post = And(Implies(Select(sb.P, EXP), Select(b2['P'], EXP)), Implies(k != StringVal(''), And(Select(b2['P'], k), Select(b2['V'], k) == val)),
                   Implies(And(kq != k, kq != NBF), And(Select(b2['P'], kq) == Select(sb.P, kq), Select(b2['V'], kq) == Select(sb.V, kq))))
        rec = upper_obligation(ses, 'set_claim(k, v): stores v under k, keeps exp, touches no other claim', list(s2.pc) + mapdefs_lemmas(s2, [k, kq, EXP, NBF]) + [Not(post)], values=[k, kq])
        if rec: ses.violation('PasetoBuilder::set_claim loses exp / stores the wrong value / disturbs another claim', fmt_model(['key', 'other_key'], rec), {'kind': 'c13'})
    ses.absorb(ex)


def job_build(ses, proto):
    w = world(); ex = upper_executor(w); sb = SymBuilder(w); p = PROTOCOLS[proto]
    vt = w.type_text(proto)
    fs = [g for g in w.fns if g.file == PB and g.method == 'build' and g.impl and vt[0].split('::')[-1] in g.impl[1] and vt[1].split('::')[-1] in g.impl[1]]
    if len(fs) != 1: raise Unsupported('PasetoBuilder::<%s>::build: %d bodies' % (proto, len(fs)))
    akind = 'some' if p['assertion'] else 'none'
    st = new_state([]); cell = st.new_cell(sb.value('some', akind))
    Kb = Const('K', Bytes)
    key = sym_key_value(w, proto, Kb) if p['p'] == 'Local' else w.mk('PasetoAsymmetricPrivateKey', version=PHANTOM, purpose=PHANTOM, key=Kb)
    inv = Or(sb.NE, Select(sb.P, EXP))            # representation invariant: without the acknowledgement exp is among the claims
    kq = String('k_any'); n_ok = 0
    for s2, r in ex.run(fs[0], [('ref', cell, ()), ('ref', st.new_cell(key), ())], st):
        if isinstance(r, Panic): continue
        b2 = read_builder(w, s2, cell)
        md = mapdefs_lemmas(s2, [EXP, kq])
        frame = And(Implies(kq != EXP, And(Select(b2['P'], kq) == Select(sb.P, kq), Implies(Select(sb.P, kq), Select(b2['V'], kq) == Select(sb.V, kq)))),
                    Select(b2['P'], EXP) == And(Select(sb.P, EXP), Not(sb.NE)), Implies(Select(b2['P'], EXP), Select(b2['V'], EXP) == Select(sb.V, EXP)),
                    opt_eq(b2['footer'], footer_opt(sb.F)), opt_eq(b2['assertion'], assertion_opt(sb.A)) if akind == 'some' else BoolVal(True))
        if upper_obligation(ses, '%s build (%s): the builder keeps its claims (exp removed only under the acknowledgement), footer and assertion - a second build sees the same state' % (proto, describe(r)),
                            list(s2.pc) + md + [Not(sb.DUP), Not(frame)], values=[kq]):
            ses.violation('%s: build() alters the builder\'s claims / footer / assertion (a later build produces a different token, e.g. without exp)' % proto, {}, {'kind': 'c13', 'proto': proto})
        core = [e for e in s2.log if e[0] == 'core_build']
        if is_ok(r):
            n_ok += 1
            if len(core) != 1: ses.violation('%s: build() returns Ok after %d core calls' % (proto, len(core)), {}, {'kind': 'c13', 'proto': proto}); continue
            po = payload_obj(core[0][4])
            if po is None: ses.undecided.append('%s build: payload handed to the core is not json_text(object): %s' % (proto, str(core[0][4])[:120])); continue
            Pp, Vp = po
            want = And(Select(Pp, EXP) == Not(sb.NE), Implies(Not(sb.NE), Select(Vp, EXP) == Select(sb.V, EXP)),
                       Implies(kq != EXP, And(Select(Pp, kq) == Select(sb.P, kq), Implies(Select(sb.P, kq), Select(Vp, kq) == Select(sb.V, kq)))))
            rec = upper_obligation(ses, '%s build: the payload carries exp iff no-expiration was not acknowledged, and every other claim as stored' % proto,
                                   list(s2.pc) + mapdefs_lemmas(s2, [EXP, kq]) + [inv, Not(want)], values=[sb.NE, Select(sb.P, EXP), kq])
            if rec:
                m = fmt_model(['acknowledged', 'exp_present_before', 'key'], rec)
                ses.violation('%s: built token has the wrong exp presence / loses a claim' % proto, m, {'kind': 'c13', 'proto': proto})
            if not (r[3][0].eq(core[0][7]) if is_expr(r[3][0]) else False): ses.violation('%s: build() does not return the token produced by the core' % proto, {}, {'kind': 'c13', 'proto': proto})
    if n_ok == 0: ses.undecided.append('%s build: no Ok path' % proto)
    ses.absorb(ex)


def run(ses):
    jobs = [(job_default, ()), (job_set_claim, ()), (c17.job_ack, ())] + [(job_build, (p,)) for p in PROTOCOLS]
    run_jobs(ses, jobs)
    ses.trusted_base = TRUSTED
    ses.assumptions = ['invariant: not acknowledged => exp is among the builder\'s claims; established by default(), preserved by set_claim / acknowledgement / build (each an obligation here), so it holds after every call sequence including repeated builds',
                       'claims are only changed through the PasetoBuilder API']
    ses.bounds.update({'history length': 'unbounded (inductive)', 'protocol instances of build': 8})

confirm = c01.confirm
replay = c01.replay
