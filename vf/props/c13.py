"""C13 - tokens expire by default; only an explicit acknowledgement removes exp."""
from z3 import *
from ..upperprops import *
from . import c01, c17

TRUSTED = c17.TRUSTED + ['time: OffsetDateTime = integer nanoseconds, now_utc() = a fresh instant per call, format(&Rfc3339) = uninterpreted injective render with parse(render(t)) = t; iso8601::datetime accepts every render(t)',
                         'wrap_value(v) = v (its inductive step is an obligation of C14)']
EXP = StringVal('exp'); IAT = StringVal('iat'); NBF = StringVal('nbf')


def payload_obj(term):
    """payload string handed to the core -> (present array, value array) when it is json_text(Obj(obj_of_map(p, v)))"""
    t = simplify(term)
    if is_app(t) and t.decl().name() == 'json_text':
        o = t.arg(0)
        if is_app(o) and o.decl().name() == 'Obj' and is_app(o.arg(0)) and o.arg(0).decl().name() == 'json_obj_of_map': return o.arg(0).arg(0), o.arg(0).arg(1)
    return None


def mapdefs_lemmas(st, keys):
    """definitional instances of mapped arrays at the given keys"""
    lem = []
    for A2, kg, v2 in st.mapdefs:
        for k in keys: lem.append(Select(A2, k) == substitute(v2, (kg, k)))
    return lem


def job_default(ses):
    w = world(); ex = upper_executor(w)
    f = [g for g in w.fns if g.file == PB and g.method == 'default']
    if len(f) != 1: raise Unsupported('PasetoBuilder::default: %d bodies' % len(f))
    st = new_state([])
    res = ex.run(f[0], [], st, subst={'Version': 'v4::V4', 'Purpose': 'local::Local'})
    kq = String('k_any'); n_ok = 0
    for s2, r in res:
        if isinstance(r, Panic):
            rec = upper_obligation(ses, 'PasetoBuilder::default(): no panic (%s)' % r.msg[:60], list(s2.pc))
            if rec: ses.violation('PasetoBuilder::default() can panic: ' + r.msg, {}, None)
            continue
        n_ok += 1
        f_ = dict(zip(w.fields('PasetoBuilder'), r[3])); g = dict(zip(w.fields('GenericBuilder'), f_['builder'][3]))
        P, V = g['claims'][1], g['claims'][2]
        nows = [e[1] for e in s2.log if e[0] == 'now']
        if len(nows) != 1: ses.violation('PasetoBuilder::default() reads the clock %d times (iat/nbf/exp would not be mutually consistent)' % len(nows), {}, {'kind': 'c13'}); continue
        now = nows[0]
        want = And(Select(P, EXP), Select(P, IAT), Select(P, NBF), Implies(And(kq != EXP, kq != IAT, kq != NBF), Not(Select(P, kq))),
                   Select(V, EXP) == JV.Str(um.render3339(now + 3600 * 10**9)), Select(V, IAT) == JV.Str(um.render3339(now)), Select(V, NBF) == JV.Str(um.render3339(now)),
                   *([Not(f_['non_expiring_token']), Not(f_['dup_top_level_found'][1][0]), Not(Select(f_['top_level_claims'][1], kq))] if all(k_ in f_ for k_ in ('non_expiring_token', 'dup_top_level_found', 'top_level_claims')) else []))
        rec = upper_obligation(ses, 'default(): claims are exactly exp = now+1h, iat = nbf = now (RFC 3339 of one clock reading); no acknowledgement, no duplicate flag, empty key set',
                               list(s2.pc) + mapdefs_lemmas(s2, [EXP, IAT, NBF, kq]) + [Not(want)], values=[kq])
        if rec: ses.violation('PasetoBuilder::default() does not set exp=now+1h / iat=nbf=now (or starts with stale duplicate-tracking state)', fmt_model(['key'], rec), {'kind': 'c13'})
        ses.samples.append({'step': 'default()', 'exp': str(simplify(Select(V, EXP)))[:120]})
    if n_ok == 0: ses.undecided.append('default(): no normal path')
    ses.absorb(ex)


def job_set_claim(ses):
    """set_claim(k, v): exp stays present if it was; claims[k] = v afterwards (k non-empty); no other key changes except nbf being re-set"""
    w = world(); ex = upper_executor(w); sb = SymBuilder(w)
    if not sb.layout_ok(True): ses.notes.append(LAYOUT_NOTE); ses.bounds['builder layout'] = 'unknown to the harness: bounded histories only'; return
    f = w.fn(PB, 'set_claim'); k = String('k_new'); val = Const('v_new', JV); kq = String('k_any')
    st = new_state([Length(k) < 2**30]); cell = st.new_cell(sb.value())
    for s2, r in ex.run(f, [('ref', cell, ()), ('opaque_claim', k, val)], st, subst={'T': 'SymClaim'}):
        if isinstance(r, Panic): continue      # panic freedom of set_claim is an obligation of C17
        b2 = read_builder(w, s2, cell)
        post = And(Implies(Select(sb.P, EXP), Select(b2['P'], EXP)), Implies(k != StringVal(''), And(Select(b2['P'], k), Select(b2['V'], k) == val)),
                   Implies(And(kq != k, kq != NBF), And(Select(b2['P'], kq) == Select(sb.P, kq), Select(b2['V'], kq) == Select(sb.V, kq))))
        rec = upper_obligation(ses, 'set_claim(k, v): stores v under k, keeps exp, touches no other claim', list(s2.pc) + mapdefs_lemmas(s2, [k, kq, EXP, NBF]) + [Not(post)], values=[k, kq])
        if rec: ses.violation('PasetoBuilder::set_claim loses exp / stores the wrong value / disturbs another claim', fmt_model(['key', 'other_key'], rec), {'kind': 'c13'})
    ses.absorb(ex)


def job_build(ses, proto):
    w = world(); ex = upper_executor(w); sb = SymBuilder(w); p = PROTOCOLS[proto]
    if not sb.layout_ok(True): ses.notes.append(LAYOUT_NOTE); ses.bounds['builder layout'] = 'unknown to the harness: bounded histories only'; return
    vt = w.type_text(proto)
    fs = [g for g in w.fns if g.file == PB and g.method == 'build' and g.impl and vt[0].split('::')[-1] in g.impl[1] and vt[1].split('::')[-1] in g.impl[1]]
    if len(fs) != 1: raise Unsupported('PasetoBuilder::<%s>::build: %d bodies' % (proto, len(fs)))
    akind = 'some' if p['assertion'] else 'none'
    st = new_state([]); cell = st.new_cell(sb.value('some', akind))
    Kb = Const('K', Bytes)
    key = sym_key_value(w, proto, Kb) if p['p'] == 'Local' else w.mk('PasetoAsymmetricPrivateKey', version=PHANTOM, purpose=PHANTOM, key=Kb)
    inv = Or(sb.NE, Select(sb.P, EXP))            # representation invariant: without the acknowledgement exp is among the claims
    kq = String('k_any'); n_ok = 0
    for s2, r in ex.run(fs[0], [('ref', cell, ()), ('ref', st.new_cell(key), ())], st):
        if isinstance(r, Panic): continue
        b2 = read_builder(w, s2, cell)
        md = mapdefs_lemmas(s2, [EXP, kq])
        frame = And(Implies(kq != EXP, And(Select(b2['P'], kq) == Select(sb.P, kq), Implies(Select(sb.P, kq), Select(b2['V'], kq) == Select(sb.V, kq)))),
                    Select(b2['P'], EXP) == And(Select(sb.P, EXP), Not(sb.NE)), Implies(Select(b2['P'], EXP), Select(b2['V'], EXP) == Select(sb.V, EXP)),
                    opt_eq(b2['footer'], footer_opt(sb.F)), opt_eq(b2['assertion'], assertion_opt(sb.A)) if akind == 'some' else BoolVal(True))
        if upper_obligation(ses, '%s build (%s): the builder keeps its claims (exp removed only under the acknowledgement), footer and assertion - a second build sees the same state' % (proto, describe(r)),
                            list(s2.pc) + md + [Not(frame)], values=[kq]):
            ses.violation('%s: build() alters the builder\'s claims / footer / assertion (a later build produces a different token, e.g. without exp)' % proto, {}, {'kind': 'c13', 'proto': proto})
        core = [e for e in s2.log if e[0] == 'core_build']
        if is_ok(r):
            n_ok += 1
            if len(core) != 1: ses.violation('%s: build() returns Ok after %d core calls' % (proto, len(core)), {}, {'kind': 'c13', 'proto': proto}); continue
            po = payload_obj(core[0][4])
            if po is None: ses.undecided.append('%s build: payload handed to the core is not json_text(object): %s' % (proto, str(core[0][4])[:120])); continue
            Pp, Vp = po
            want = And(Select(Pp, EXP) == Not(sb.NE), Implies(Not(sb.NE), Select(Vp, EXP) == Select(sb.V, EXP)),
                       Implies(kq != EXP, And(Select(Pp, kq) == Select(sb.P, kq), Implies(Select(sb.P, kq), Select(Vp, kq) == Select(sb.V, kq)))))
            rec = upper_obligation(ses, '%s build: the payload carries exp iff no-expiration was not acknowledged, and every other claim as stored' % proto,
                                   list(s2.pc) + mapdefs_lemmas(s2, [EXP, kq]) + [inv, Not(want)], values=[sb.NE, Select(sb.P, EXP), kq])
            if rec:
                m = fmt_model(['acknowledged', 'exp_present_before', 'key'], rec)
                ses.violation('%s: built token has the wrong exp presence / loses a claim' % proto, m, {'kind': 'c13', 'proto': proto})
            if not (r[3][0].eq(core[0][7]) if is_expr(r[3][0]) else False): ses.violation('%s: build() does not return the token produced by the core' % proto, {}, {'kind': 'c13', 'proto': proto})
    if n_ok == 0: ses.undecided.append('%s build: no Ok path' % proto)
    ses.absorb(ex)


def run(ses):
    jobs = [(job_default, ()), (job_set_claim, ()), (c17.job_ack, ())] + [(job_build, (p,)) for p in PROTOCOLS]
    deep = ses.tier != 'quick' or not SymBuilder(world()).layout_ok(True)       # an unknown builder layout leaves only the histories: they go one call deeper
    jobs += [(job_histories, (3 if deep else 2, ('c13',), i, 8)) for i in range(8)]
    run_jobs(ses, jobs)
    ses.trusted_base = TRUSTED
    ses.assumptions = ['invariant: not acknowledged => exp is among the builder\'s claims; established by default(), preserved by set_claim / acknowledgement / build (each an obligation here), so it holds after every call sequence including repeated builds',
                       'claims are only changed through the PasetoBuilder API']
    ses.bounds.update({'history length': 'unbounded (inductive)', 'protocol instances of build': 8})

confirm = c01.confirm
replay = c01.replay


# ----------------------------------------------------------------------------- bounded histories from the real constructor (layout independent)
def job_histories(ses, maxlen, which=('c13', 'c17'), shard=0, nshards=1):
    """every call sequence over {set_claim(k_i, v_i) with SYMBOLIC keys, acknowledge, build} of at most `maxlen` calls followed by a build, started
    from the real PasetoBuilder::default(): expectations are stated on the observable results only (build outcome, payload handed to the core),
    so the check does not depend on how the builder represents its state"""
    import itertools
    w = world(); ex = upper_executor(w); proto = 'v4.local'
    fdef = [g for g in w.fns if g.file == PB and g.method == 'default'][0]
    fset = w.fn(PB, 'set_claim'); fack = w.fn(PB, 'set_no_expiration_danger_acknowledged')
    vt = w.type_text(proto)
    fbuild = [g for g in w.fns if g.file == PB and g.method == 'build' and g.impl and vt[0].split('::')[-1] in g.impl[1] and vt[1].split('::')[-1] in g.impl[1]][0]
    Kb = Const('K', Bytes); sub = {'Version': vt[0], 'Purpose': vt[1]}
    seqs = []
    for n in range(0, maxlen + 1):
        for s_ in itertools.product(('set', 'ack', 'build'), repeat=n): seqs.append(list(s_) + ['build'])
    ex.stats['bounds']['builder histories'] = '%d sequences of at most %d calls + build, keys symbolic' % (len(seqs), maxlen)
    seqs = [q for i, q in enumerate(seqs) if i % nshards == shard]
    START = [None]
    for seq in seqs:
        if START[0] is not None:
            s0 = START[0][0].fork(); b0 = START[0][1]; cell = s0.new_cell(b0); keycell = s0.new_cell(sym_key_value(w, proto, Kb))
            starts = None
        st0 = new_state([])
        starts = None if START[0] is not None else [(s, r) for s, r in ex.run(fdef, [], st0, subst=sub) if not isinstance(r, Panic)]
        if starts is not None and len(starts) > 1:      # paths the in-process pruning could not refute: decide them with the lemma instances
            keep = []
            for s, r in starts:
                base = list(s.pc); lem = um.core_lemmas(base) + um.json_lemmas(base); lem += um.json_lemmas(base + lem)
                if solve.check(base + lem, timeout=30, name='feasibility of a default() path')['verdict'] != 'unsat': keep.append((s, r))
            starts = keep
        if starts is not None:
            if len(starts) != 1: ses.undecided.append('history: default() has %d paths' % len(starts)); return
            START[0] = starts[0]
            s0 = START[0][0].fork(); b0 = START[0][1]; cell = s0.new_cell(b0); keycell = s0.new_cell(sym_key_value(w, proto, Kb))
        # frontier: (state, list of observations); observation = ('build', result, core events)
        frontier = [(s0, [])]; keys = []; vals = []
        for i, op in enumerate(seq):
            nxt = []
            if op == 'set': k = String('hk%d' % i); v = Const('hv%d' % i, JV); keys.append((i, k, v))
            for s1, obs in frontier:
                if op == 'set': outs = ex.run(fset, [('ref', cell, ()), ('opaque_claim', k, v)], s1, subst={'T': 'SymClaim'})
                elif op == 'ack': outs = ex.run(fack, [('ref', cell, ())], s1, subst=sub)
                else:
                    ncore = len([e for e in s1.log if e[0] == 'core_build'])
                    outs = ex.run(fbuild, [('ref', cell, ()), ('ref', keycell, ())], s1)
                for s2, r in outs:
                    if isinstance(r, Panic):
                        if upper_obligation(ses, 'history %s: no panic at call %d (%s)' % (seq, i, r.msg[:40]), list(s2.pc)): ses.violation('builder call sequence %s panics' % seq, {}, {'kind': 'c13'})
                        continue
                    if op == 'build':
                        core = [e for e in s2.log if e[0] == 'core_build'][ncore:]
                        nxt.append((s2, obs + [(i, r, core)]))
                    else: nxt.append((s2, obs))
            frontier = nxt
        for s2, obs in frontier:
            for (bi, r, core) in obs:
                sets = [(i, k, v) for i, k, v in keys if i < bi]; acks = [i for i, o in enumerate(seq) if o == 'ack' and i < bi]
                acked = bool(acks)
                dup = Or(*[a[1] == b[1] for a, b in itertools.combinations(sets, 2)]) if len(sets) > 1 else BoolVal(False)
                latitude = Or(*[k == StringVal('exp') for i, k, v in sets if any(a < i for a in acks)]) if (acks and sets) else BoolVal(False)
                is_dup_err = is_err(r) and 'DuplicateTopLevelPayloadClaim' in (r[3][0][1], r[3][0][2])
                if 'c17' in which:
                    if is_dup_err:
                        named = r[3][0][3][0]
                        goal = Not(And(Or(dup, latitude), Or(*[named == k for _, k, _ in sets]) if sets else BoolVal(False)))
                        if upper_obligation(ses, 'history %s: a duplicate error at call %d only if a key was supplied twice (or exp after the acknowledgement), naming a supplied key' % (seq, bi), list(s2.pc) + [goal]):
                            ses.violation('builder sequence %s: duplicate-claim error without a repeated key' % seq, {}, {'kind': 'c17_step'})
                        if core: ses.violation('builder sequence %s: a token is produced although the build reports a duplicate' % seq, {}, {'kind': 'c17_step'})
                    else:
                        if upper_obligation(ses, 'history %s: build at call %d does not succeed when a key was supplied twice' % (seq, bi), list(s2.pc) + [dup], values=[k for _, k, _ in sets]):
                            ses.violation('builder sequence %s: build succeeds although a top-level claim was supplied twice' % seq, {}, {'kind': 'c17_dup_build'})
                if 'c13' in which and is_ok(r):
                    if len(core) != 1: ses.violation('builder sequence %s: Ok build with %d core calls' % (seq, len(core)), {}, {'kind': 'c13'}); continue
                    po = payload_obj(core[0][4])
                    if po is None: ses.undecided.append('history %s: payload not an object term' % seq); continue
                    user_exp = Or(*[k == EXP for _, k, _ in sets]) if sets else BoolVal(False)
                    want = Select(po[0], EXP) == BoolVal(not acked)
                    rec = upper_obligation(ses, 'history %s: the token of the build at call %d carries exp %s' % (seq, bi, 'never (acknowledged)' if acked else 'always (not acknowledged)'),
                                           list(s2.pc) + mapdefs_lemmas(s2, [EXP]) + [Not(want)], values=[k for _, k, _ in sets])
                    if rec: ses.violation('builder sequence %s: exp presence wrong in the built token (acknowledged=%s)' % (seq, acked), fmt_model(['k%d' % i for i, _, _ in sets], rec), {'kind': 'c13'})
                    # the default time claims of every token of this builder are the ones default() computed (one clock reading at creation): nothing re-derives them at build time
                    g0 = dict(zip(w.fields('GenericBuilder'), dict(zip(w.fields('PasetoBuilder'), b0[3]))['builder'][3])); V0 = g0['claims'][2]
                    for K_ in (EXP, StringVal('iat'), StringVal('nbf')):
                        if K_ is EXP and acked: continue
                        user_k = Or(*[k == K_ for _, k, _ in sets]) if sets else BoolVal(False)
                        rec = upper_obligation(ses, 'history %s: the %s of the token of the build at call %d is the one computed by default() unless the caller set it' % (seq, K_.as_string(), bi),
                                               list(s2.pc) + mapdefs_lemmas(s2, [K_]) + [Not(user_k), Select(po[1], K_) != Select(V0, K_)], values=[k for _, k, _ in sets])
                        if rec: ses.violation('builder sequence %s: the default %s of build #%d is not the value computed when the builder was created' % (seq, K_.as_string(), bi), {}, {'kind': 'c13'})
    ses.samples.append({'histories': len(seqs), 'example': seqs[min(5, len(seqs) - 1)]})
    ses.absorb(ex)
BASELINE = ['c13']
