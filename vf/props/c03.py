"""C03 - any alteration of an authentic token is detected before its content is used."""
from z3 import *
from ..coreprops import *
from .. import upper
from ..replay import _txt, _fix, key_steps, build_step
from . import c01

TRUSTED = ['rustc MIR dump is the semantics of the source', 'contracts of vf/coremodel.py',
           'F_MAC: a full-length window of attacker bytes equals MAC_k(m) under a key derived from the secret key only if (k, m) is one of the honest party\'s MAC queries',
           'INT-CTXT for XChaCha20-Poly1305 (v2.local); F_SIG for Ed25519 / ECDSA-P384 / RSA-PSS (signature malleability is NOT granted to the attacker by the axiom and is tolerated by the property)',
           'collision freedom of MACs/KDFs/hashes as functions of (key, data); base64url decoding is strict and canonical (decode(s)=x implies s=b64(x))']


def header_literal(T):
    ps = pieces(T)
    if not ps or not is_string_value(ps[0]): raise Unsupported('token does not start with a literal header: ' + str(T)[:100])
    return ps[0].as_string()


def rel_tokens(Tq, T, payload_rel, dotfree=()):
    """token relation: same segment structure, every segment equal except the payload segment which must satisfy payload_rel(P', P)"""
    s1, s2 = segments(Tq, dotfree), segments(T, dotfree)
    if s1 is None or s2 is None or len(s1) != len(s2) or len(s1) < 3: return BoolVal(False)
    cs = []
    for i, (a, b) in enumerate(zip(s1, s2)):
        if i == 2 and len(a) == 1 and len(b) == 1 and all(is_app(x) and x.decl().name() == 'b64' for x in (a[0], b[0])):
            cs.append(payload_rel(a[0].arg(0), b[0].arg(0)))
        else: cs.append(seg_eq(a, b))
    return And(*cs)


def event_order_ok(log, purpose):
    """encrypt-then-MAC discipline on one path: nothing touches plaintext before the authentication event"""
    auth = None
    for i, e in enumerate(log):
        if e[0] in ('compare',) and purpose == 'Local': auth = i
        if e[0] in ('aead_dec', 'verify'): auth = i if auth is None else auth
    # the footer comparison in parse_raw_token is also a 'compare' event: take the last compare/verify before any plaintext event
    first_plain = next((i for i, e in enumerate(log) if e[0] in ('keystream', 'from_utf8')), None)
    if first_plain is None: return True
    auths = [i for i, e in enumerate(log) if e[0] in ('compare', 'aead_dec', 'verify') and i < first_plain]
    macs = [i for i, e in enumerate(log) if e[0] in ('mac', 'aead_dec', 'verify') and i < first_plain]
    return bool(auths) and bool(macs)


def job_tamper(ses, proto, fkind, akind, mode):
    w = world(); ex = w.executor(); p = PROTOCOLS[proto]; public = p['p'] == 'Public'
    inp = Inputs(proto)
    E = encrypt_paths(w, ex, inp, fkind, akind)
    tag = '%s %s footer=%s assertion=%s' % (proto, mode, fkind, akind)
    any_accept = False
    for se, re_ in E:
        if not is_ok(re_): continue
        T = re_[3][0]; P = payload_of(T); H = header_literal(T)
        Pa = Const('Pa', Bytes); seg = String('seg')
        assume = list(se.pc) + [Length(Pa) < 2**40]
        if mode == 'S3': Tq = Concat(StringVal(H), b64(Pa)); dotfree = []
        else:
            Tq = Concat(StringVal(H), b64(Pa), StringVal('.'), seg); dotfree = [seg]
            assume += [Not(Contains(seg, StringVal('.'))), Length(seg) < 2**40]
        D = decrypt_paths(w, ex, proto, Tq, inp.dec_key(), inp.F, inp.A, fkind, akind, assume=assume, dotfree=dotfree)
        eqT = tok_eq(Tq, T, dotfree)
        tol = Or(tok_eq(Tq, Concat(T, StringVal('.')), dotfree), tok_eq(Concat(Tq, StringVal('.')), T, dotfree))
        okset = Or(eqT, tol)
        if public:
            sl = SIGLEN[proto]
            sigonly = lambda a, b: And(Length(a) == Length(b), Extract(a, 0, Length(a) - sl) == Extract(b, 0, Length(b) - sl))
            okset = Or(okset, rel_tokens(Tq, T, sigonly, dotfree), rel_tokens(Tq, Concat(T, StringVal('.')), sigonly, dotfree), rel_tokens(Concat(Tq, StringVal('.')), T, sigonly, dotfree))
        vals = [inp.K, inp.N, utf8(inp.M), utf8(inp.F), utf8(inp.A), P, Pa] + ([seg, b64(utf8(inp.F))] if mode == 'S4' else [])
        names = ['key', 'nonce', 'message', 'footer', 'assertion', 'P', 'Pa'] + (['seg', 'b64F'] if mode == 'S4' else [])
        if not public: vals[0] = inp.K
        else:
            vals[0] = getattr(inp, 'seed', inp.K)
        accepted = False
        for sd, rd in D:
            h = honest_for([se.log], inp); allq = list(sd.pc)
            mark_secret_mac_keys(h, allq, inp.K); with_compares(h, sd.log)
            if is_ok(rd):
                accepted = True
                goal = Or(Not(okset), rd[3][0] != inp.M)
                rec = ses.obligation('%s: an accepted token is the authentic one (or differs only by an empty footer segment%s) and returns the original message'
                                     % (tag, ' / the signature encoding' if public else ''), allq + [goal], honest=h, attacker=[Pa], values=vals)
                if rec: _report(ses, rec, names, proto, fkind, akind, mode, 'an altered token is accepted', public)
                ses.witness('%s: the accepting path is reachable' % tag, allq)
            elif is_err(rd) and ('Utf8' in describe(rd) or 'Json' in describe(rd)):
                rec = ses.obligation('%s: rejection is never a content error (%s)' % (tag, describe(rd)), allq, honest=h, attacker=[Pa], values=vals)
                if rec: _report(ses, rec, names, proto, fkind, akind, mode, 'an altered token is rejected with a content error (%s): plaintext was handled before authentication' % describe(rd), public, want='utf8')
            if not isinstance(rd, Panic) and not event_order_ok(sd.log, p['p']):
                ses.violation('%s: plaintext is handled before the authentication event on path %s' % (tag, describe(rd)), {'events': [e[0] for e in sd.log]}, None)
        any_accept = any_accept or accepted
        ses.samples.append({'query': tag, 'attacker_token': str(Tq)[:120], 'decrypt_paths': [describe(r) for _, r in D]})
    if not any_accept: ses.undecided.append('%s: no accepting decrypt path at all' % tag)
    ses.absorb(ex)


def _report(ses, rec, names, proto, fkind, akind, mode, what, public, want='ok'):
    m = fmt_model(names, rec)
    ops = [{'payload_like_model': {'authentic': m.get('P') or '', 'attack': m.get('Pa') or ''}}]
    if mode == 'S3': ops.append({'footer_seg': None})
    else:
        sg = m.get('seg')
        if sg is not None and sg == m.get('b64F'): ops.append({'footer_seg_b64_of': _txt(m.get('footer'))})
        else: ops.append({'footer_seg': sg if isinstance(sg, str) else ''})
    _pf = None if fkind == 'none' else _txt(m.get('footer')); _pa = None if akind == 'none' else _txt(m.get('assertion'))
    # the authentic token is parsed first (anything the verifier remembers between calls is then warm), then the solver's altered token
    steps = key_steps(proto, m) + [build_step(proto, m, fkind, akind), {'op': 'mutate', 'in': '$T', 'out': 'T2', 'ops': ops},
             {'op': 'parse_core', 'proto': proto, 'token': '$T', 'key': '$k_pk', 'footer': _pf, 'assertion': _pa, 'out': 'R0'},
             {'op': 'parse_core', 'proto': proto, 'token': '$T2', 'key': '$k_pk', 'footer': _pf, 'assertion': _pa, 'out': 'R'}]
    extra_alts = []
    if want != 'utf8' and mode != 'S3':
        # single-byte edits of the real payload that keep everything else (for public tokens the signature stays, the message changes)
        for xi, (idx, mask) in enumerate(((0, 1), (0, 0x20), (1, 1), (33, 1), (40, 0x80))):
            steps += [{'op': 'mutate', 'in': '$T', 'out': 'TX%d' % xi, 'ops': [{'payload_xor': [idx, mask]}]},
                      {'op': 'parse_core', 'proto': proto, 'token': '$TX%d' % xi, 'key': '$k_pk', 'footer': _pf, 'assertion': _pa, 'out': 'RX%d' % xi}]
            # an index beyond the payload leaves the token as it is, and an edit inside a signature is another spelling question: only an edit that `differs` accepts counts
            steps.append({'op': 'differs', 'a': '$T', 'b': '$TX%d' % xi, 'sig_len': SIGLEN.get(proto, 0) if public else 0, 'out': 'DX%d' % xi})
            extra_alts.append([{'var': 'RX%d' % xi, 'is': 'ok'}, {'var': 'T', 'is': 'ok'}, {'var': 'DX%d' % xi, 'is': 'ok'}])
    msg = _txt(m.get('message'))
    if mode == 'S4' and want == 'ok' and m.get('seg') != m.get('b64F') and (m.get('P') == m.get('Pa')):
        # the payload is untouched and only the footer segment text differs from b64url(F): the model cannot name a concrete non-canonical
        # spelling, so the confirmation tries the usual ones (padding, trailing bits, truncation, extension) on real tokens
        import base64
        alpha = 'ABCDEFGHIJKLMNOPQRSTUVWXYZabcdefghijklmnopqrstuvwxyz0123456789-_'
        steps = key_steps(proto, m); alts = []
        for fi, ftxt in enumerate([_txt(m.get('footer')) or 'f', 'f', 'fo', 'foo', 'some footer']):
            mm = dict(m); mm['footer'] = ftxt.encode().hex()
            steps.append(build_step(proto, mm, 'some', akind, out='T%d' % fi))
            real = base64.urlsafe_b64encode(ftxt.encode()).decode().rstrip('=')
            cands = [real + '=', real + '==', real[:-1], real + 'A'] + [real[:-1] + c for c in alpha if c != real[-1]]
            for ci, c in enumerate(cands):
                steps += [{'op': 'mutate', 'in': '$T%d' % fi, 'out': 'M%d_%d' % (fi, ci), 'ops': [{'footer_seg': c}]},
                          {'op': 'parse_core', 'proto': proto, 'token': '$M%d_%d' % (fi, ci), 'key': '$k_pk', 'footer': ftxt, 'assertion': None if akind == 'none' else _txt(m.get('assertion')), 'out': 'R%d_%d' % (fi, ci)}]
                alts.append([{'var': 'R%d_%d' % (fi, ci), 'is': 'ok'}])
        # expected footer absent / empty: the authentic token has three segments; a fourth one of any content must be refused
        mm = dict(m); steps.append(build_step(proto, mm, 'none', akind, out='TN'))
        for ci, c in enumerate(['', 'AA', 'Zg', 'eyJraWQiOiJ4In0', '=']):
            for ei, expf in enumerate([None, '']):
                steps += [{'op': 'mutate', 'in': '$TN', 'out': 'MN%d' % ci, 'ops': [{'footer_seg': c}]},
                          {'op': 'parse_core', 'proto': proto, 'token': '$MN%d' % ci, 'key': '$k_pk', 'footer': expf, 'assertion': None if akind == 'none' else _txt(m.get('assertion')), 'out': 'RN%d_%d' % (ci, ei)}]
                if c != '': alts.append([{'var': 'RN%d_%d' % (ci, ei), 'is': 'ok'}])
        ses.violation('%s %s footer=%s assertion=%s: %s (a footer segment other than b64url(F) is accepted with expected footer F)' % (proto, mode, fkind, akind, what), m, {'steps': steps, 'violated_if': alts})
        return
    D_ = {'var': 'DIFF', 'is': 'ok'}
    if want == 'utf8': vi = [[{'var': 'R', 'is': 'err_contains', 'value': 'Utf8'}, D_]]
    elif public: vi = [[{'var': 'R', 'is': 'ok_ne', 'value': msg}], [{'var': 'R', 'is': 'ok'}, D_]]
    else: vi = [[{'var': 'R', 'is': 'ok'}, D_]]
    script = {'steps': steps + [{'op': 'differs', 'a': '$T', 'b': '$T2', 'sig_len': SIGLEN.get(proto, 0) if public else 0, 'out': 'DIFF'}], 'violated_if': vi + extra_alts}
    ses.violation('%s %s footer=%s assertion=%s: %s' % (proto, mode, fkind, akind, what), m, script)


def job_shape(ses, proto):
    """text level: every accepted token string has 3 or 4 segments and is header || b64(payload) [|| '.' || segment]"""
    w = world(); ex = w.executor(); p = PROTOCOLS[proto]
    K = Const('K', Bytes); F = String('F'); A = String('A'); tok = String('tok')
    assume = [Length(tok) < 2**40, Length(utf8(F)) < 2**40, Length(utf8(A)) < 2**40]
    if p['keykind'] == 'sym': assume.append(Length(K) == 32)
    D = decrypt_paths(w, ex, proto, tok, K, F, A, 'some', 'some', assume=assume)
    H = StringVal(proto + '.')
    n = 0
    for sd, rd in D:
        if not is_ok(rd): continue
        n += 1
        decs = [e for e in sd.log if e[0] == 'b64dec']
        if not decs: ses.undecided.append('%s: accepting path without a base64 decode' % proto); continue
        p2, Pd = decs[-1][1], decs[-1][2]
        shape = Or(tok == Concat(H, b64(Pd)), And(PrefixOf(Concat(H, b64(Pd), StringVal('.')), tok), Not(Contains(SubString(tok, Length(Concat(H, b64(Pd))) + 1, Length(tok)), StringVal('.')))))
        rec = ses.obligation('%s: an accepted token text is header || b64(payload) [|| "." || dot-free segment]' % proto, list(sd.pc) + [Not(shape)], values=[tok])
        if rec:
            m = fmt_model(['token'], rec)
            inp_m = {'key': '00' * 32, 'nonce': '11' * 32, 'message': '7b7d'.encode().hex() if False else '6d', 'footer': '66', 'assertion': ''}
            alts = []
            steps = key_steps(proto, inp_m)
            WS = [' ', '\n', '\t', '\r\n', '\u00a0', '\u3000']
            for j, (fk, suffixes) in enumerate((('none', ['..', '..x', '.x.y', '...', '.'] + WS + ['<' + x for x in WS]), ('some', ['.', '.x', '..', '.x.y'] + WS + ['<' + x for x in WS]))):
                steps.append(build_step(proto, inp_m, fk, 'none', out='T%d' % j))
                for i, sfx in enumerate(suffixes):
                    steps += [{'op': 'mutate', 'in': '$T%d' % j, 'out': 'M%d_%d' % (j, i), 'ops': [{'prepend_text': sfx[1:]} if sfx.startswith('<') else {'append_text': sfx}]},
                              {'op': 'parse_core', 'proto': proto, 'token': '$M%d_%d' % (j, i), 'key': '$k_pk', 'footer': None if fk == 'none' else _txt(inp_m['footer']), 'assertion': None, 'out': 'R%d_%d' % (j, i)}]
                    if not (fk == 'none' and sfx == '.'): alts.append([{'var': 'R%d_%d' % (j, i), 'is': 'ok'}])
            ses.violation('%s: a token text that is not header.payload[.footer] is accepted (e.g. extra segments), model token %r' % (proto, (m.get('token') or '')[:80]), m,
                          {'steps': steps, 'violated_if': alts})
    if n == 0: ses.undecided.append('%s: no accepting path in text mode' % proto)
    ses.absorb(ex)


def run(ses):
    jobs = []
    for p in PROTOCOLS:
        a = 'some' if PROTOCOLS[p]['assertion'] else 'none'
        vs = [('some', a)] if ses.tier == 'quick' else [('some', a), ('none', 'none')]
        for f, ak in vs:
            jobs += [(job_tamper, (p, f, ak, 'S3')), (job_tamper, (p, f, ak, 'S4'))]
        jobs.append((job_shape, (p,)))
        from . import c04 as _c04
        jobs.append((_c04.job_footer_swap, (p,)))          # the footer segment rewritten AND the verifier expecting the rewritten footer
        if ses.tier == 'thorough': jobs += [(job_splice, (p, 'S3')), (job_splice, (p, 'S4'))]
    jobs += upper.tamper_jobs(ses.tier)
    from .. import kani
    jobs.append((kani.job_footer_compare, ()))        # the expected-footer comparison on the compiled code: an edited footer segment is never taken for the right one
    from .. import kani as _kani
    jobs.append((_kani.job_le64, ()))        # the PAE length prefix is a summary in the SMT runs: Kani checks le64 itself on the compiled code (all 2^64 inputs)
    run_jobs(ses, jobs)
    ses.trusted_base = TRUSTED
    ses.assumptions = ['the attacker knows the authentic token and may present ANY byte string as decoded payload and any dot-free text as footer segment; expected footer/assertion/key are those of the authentic token',
                       'lengths below 2^40']
    ses.bounds.update({'attacker payload length': 'unbounded', 'authentic tokens known to the attacker': 1, 'splices': 'two authentic tokens under one key in the thorough tier'})

confirm = c01.confirm
replay = c01.replay
BASELINE = ['footer_compare']


def job_splice(ses, proto, mode):
    """thorough: the attacker knows TWO authentic tokens under one key (different nonces / messages / footers) and presents any payload that is neither of theirs"""
    w = world(); ex = w.executor(); p = PROTOCOLS[proto]; public = p['p'] == 'Public'
    a, b = Inputs(proto, '_1'), Inputs(proto, '_2')
    b.K = a.K
    if hasattr(a, 'seed'): b.seed = a.seed; b.PK = a.PK
    b.assume = [c for c in Inputs(proto, '_2').assume if 'K_2' not in str(c) and 'seed_2' not in str(c)] + list(a.assume)
    ak = 'some' if p['assertion'] else 'none'
    Ea = [(s, r) for s, r in encrypt_paths(w, ex, a, 'some', ak) if is_ok(r)]; Eb = [(s, r) for s, r in encrypt_paths(w, ex, b, 'some', ak) if is_ok(r)]
    tag = '%s splice %s' % (proto, mode)
    for sa, ra in Ea:
        for sb_, rb in Eb:
            Ta, Tb = ra[3][0], rb[3][0]; H = header_literal(Ta)
            Pa = Const('Pa', Bytes); seg = String('seg'); assume = list(sa.pc) + list(sb_.pc) + [Length(Pa) < 2**40]
            if mode == 'S3': Tq = Concat(StringVal(H), b64(Pa)); dotfree = []
            else:
                Tq = Concat(StringVal(H), b64(Pa), StringVal('.'), seg); dotfree = [seg]; assume += [Not(Contains(seg, StringVal('.'))), Length(seg) < 2**40]
            # parse side uses the first token's footer / assertion
            D = decrypt_paths(w, ex, proto, Tq, a.dec_key(), a.F, a.A, 'some', ak, assume=assume, dotfree=dotfree)
            def okset(T):
                o = Or(tok_eq(Tq, T, dotfree), tok_eq(Tq, Concat(T, StringVal('.')), dotfree), tok_eq(Concat(Tq, StringVal('.')), T, dotfree))
                if public:
                    sl = SIGLEN[proto]; so = lambda x, y: And(Length(x) == Length(y), Extract(x, 0, Length(x) - sl) == Extract(y, 0, Length(y) - sl))
                    o = Or(o, rel_tokens(Tq, T, so, dotfree), rel_tokens(Tq, Concat(T, StringVal('.')), so, dotfree), rel_tokens(Concat(Tq, StringVal('.')), T, so, dotfree))
                return o
            for sd, rd in D:
                if not is_ok(rd): continue
                h = honest_for([sa.log, sb_.log], a); mark_secret_mac_keys(h, list(sd.pc), a.K); with_compares(h, sd.log)
                if public: h['honest_pks'] = [a.PK]
                goal = Not(Or(And(okset(Ta), rd[3][0] == a.M), And(okset(Tb), rd[3][0] == b.M)))
                rec = ses.obligation('%s: with two authentic tokens known, an accepted token is one of them (modulo empty footer segment / signature encoding) and returns that token\'s message' % tag,
                                     list(sd.pc) + [goal], honest=h, attacker=[Pa])
                if rec: ses.violation('%s: a splice of two authentic tokens is accepted' % tag, {}, None)
    ses.absorb(ex)
