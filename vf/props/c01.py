"""C01 - local tokens decrypt back to exactly the message that was encrypted (core layer from MIR; upper layers: dataflow)."""
from z3 import *
from ..coreprops import *
from .. import upper

PROTOS = LOCAL
TRUSTED = ['rustc MIR dump (-Zunpretty=mir) is the semantics of the source', 'contracts of vf/coremodel.py for std / base64 / RustCrypto / ring calls',
           'ideal stream cipher: c = m XOR ks(key, nonce, |m|) with XOR an involution', 'ideal AEAD (v2): decrypt(k,n,aad,encrypt(k,n,aad,m)) = m',
           'UTF-8: from_utf8(utf8(s)) = s', 'base64: decode(encode(x)) = x, output has no "."']


def job_roundtrip(ses, proto, fkind, akind):
    w = world(); ex = w.executor()
    inp = Inputs(proto)
    E = encrypt_paths(w, ex, inp, fkind, akind)
    tag = '%s footer=%s assertion=%s' % (proto, fkind, akind)
    n_ok = 0
    builder_frame_check(ses, w, E, tag, proto, fkind, akind)
    for se, re_ in E:
        if not is_ok(re_):
            rec = ses.obligation('%s: encrypt/sign path %s is infeasible for valid inputs' % (tag, describe(re_)), se.pc,
                                 values=[inp.K, inp.N, utf8(inp.M), utf8(inp.F), utf8(inp.A)])
            if rec: ses.violation('%s: building a token fails (%s) for valid inputs' % (tag, describe(re_)), fmt_model(['key', 'nonce', 'message', 'footer', 'assertion'], rec),
                                  {'kind': 'roundtrip', 'proto': proto, 'fkind': fkind, 'akind': akind, 'model': fmt_model(['key', 'nonce', 'message', 'footer', 'assertion'], rec)})
            continue
        n_ok += 1
        T = re_[3][0]
        D = decrypt_paths(w, ex, proto, T, inp.dec_key(), inp.F, inp.A, fkind, akind, assume=se.pc)
        reached_ok = False
        for sd, rd in D:
            goal = BoolVal(True) if not is_ok(rd) else (rd[3][0] != inp.M)
            what = 'returns a different message' if is_ok(rd) else 'ends in ' + describe(rd)
            vals = [inp.K, inp.N, utf8(inp.M), utf8(inp.F), utf8(inp.A)]
            rec = ses.obligation('%s: decrypt/verify of the produced token never %s' % (tag, what), list(sd.pc) + [goal], values=vals)
            if rec:
                m = fmt_model(['key', 'nonce', 'message', 'footer', 'assertion'], rec)
                ses.violation('%s: round trip fails - decrypt/verify of the authentic token %s' % (tag, what), m,
                              {'kind': 'roundtrip', 'proto': proto, 'fkind': fkind, 'akind': akind, 'model': m})
            if is_ok(rd):
                vals = [getattr(inp, 'seed', inp.K), inp.N, utf8(inp.M), utf8(inp.F), utf8(inp.A)]
                okw, wrec = ses.witness('%s: the accepting path is reachable' % tag, list(sd.pc), values=vals)
                reached_ok = reached_ok or okw
                if okw and not ses.__dict__.get('_native_done_' + tag):
                    # the witness model is run through the real implementation: the model's prediction (accept, same message) must be what the library does
                    from .. import replay as rp
                    m = fmt_model(['key', 'nonce', 'message', 'footer', 'assertion'], wrec)
                    import vf.coreprops as _cp
                    if _cp.FEATURES: out = rp.run_native_features(_cp.FEATURES, proto)      # single-configuration run (C20): the natively built crate has exactly these features
                    else: out = rp.run_native(rp.script_roundtrip({'proto': proto, 'fkind': fkind, 'akind': akind, 'model': m}))
                    ses.native_runs = getattr(ses, 'native_runs', 0) + 1; ses.__dict__['_native_done_' + tag] = True
                    if out.get('violated') is not False:
                        ses.undecided.append('%s: the implementation disagrees with the model on the witness input: %s' % (tag, str(out)[:300]))
                    else: ses.samples.append({'native_witness': tag, 'inputs': m, 'library_result': 'round trip ok'})
        if not D: ses.undecided.append('%s: no decrypt path at all' % tag)
        ses.samples.append({'protocol': proto, 'footer': fkind, 'assertion': akind, 'token_term': str(simplify(T))[:400],
                            'decrypt_paths': [describe(r) for _, r in D]})
    if n_ok == 0: ses.undecided.append('%s: no Ok path of encrypt/sign' % tag)
    ses.absorb(ex)


def variants(proto, tier):
    v = [('some', 'some'), ('none', 'none')]
    if tier == 'thorough': v += [('some', 'none'), ('none', 'some')]
    if not PROTOCOLS[proto]['assertion']: v = sorted(set((f, 'none') for f, _ in v))
    return v


def run(ses, protos=None):
    protos = protos or PROTOS
    jobs = [(job_roundtrip, (p, f, a)) for p in protos for f, a in variants(p, ses.tier)]
    jobs += upper.roundtrip_jobs(protos, ses.tier)
    from .. import coreapi
    jobs.append((coreapi.job_core_api, ())); jobs.append((coreapi.job_key_ctors, ()))        # newtype constructors, builder(), setters, Clone: what the caller writes reaches the entry point unchanged
    from .. import kani as _kani
    jobs.append((_kani.job_le64, ()))        # the PAE length prefix is a summary in the SMT runs: Kani checks le64 itself on the compiled code (all 2^64 inputs)
    run_jobs(ses, jobs)
    ses.trusted_base = TRUSTED
    ses.assumptions = ['key is 32 bytes, nonce seed has the length the PasetoNonce constructors produce (32; 24 or 32 for v2)',
                       'message, footer, assertion are arbitrary strings of fewer than 2^40 bytes (keeps usize arithmetic away from 2^64; real limit isize::MAX)',
                       'primitives are ideal functionalities (see trusted_base)']
    ses.bounds.update({'message/footer/assertion length': 'unbounded below 2^40 bytes', 'PAE pieces': 'as in the source (3-5)', 'loop unrolling': 'none needed except the PAE fold over its fixed piece array'})


def confirm(ses, v):
    from .. import replay
    return replay.confirm(ses, v)


def replay(path):
    from .. import replay as rp
    return rp.replay_file(path)
BASELINE = ['core_api', 'core_builder_reuse']
