"""C09 - untrusted token text can never crash the caller (panic freedom of every decrypt/verify/parse entry point and of Key::try_from(&str))."""
import base64
from z3 import *
from ..coreprops import *
from .. import upper
from . import c01

TRUSTED = ['rustc MIR dump is the semantics of the source (overflow checks on: arithmetic overflow is a panic; off in the second thorough pass: wrapping)',
           'panic conditions of std calls as documented: range indexing, split_at, copy_from_slice length mismatch, unwrap/expect, Vec index, GenericArray::from_slice',
           'third-party calls do not panic on the inputs the code hands them other than the documented length preconditions (GenericArray::from_slice, HKDF expand length)',
           'hex::decode returns Err or a vector of len(s)/2 bytes']
KEY_SIZES = [24, 32, 48, 49, 64]


def b64u(b): return base64.urlsafe_b64encode(b).decode().rstrip('=')


def job_entry(ses, proto, fkind, akind, checks):
    w = world(checks); ex = w.executor()
    p = PROTOCOLS[proto]
    K = Const('K', Bytes); F = String('F'); A = String('A'); tok = String('tok')
    assume = [Length(tok) < 2**40, Length(utf8(F)) < 2**40, Length(utf8(A)) < 2**40]
    if p['keykind'] == 'sym': assume.append(Length(K) == 32)
    elif p['keykind'] in ('ed25519',): assume.append(Length(K) == 32)
    elif p['keykind'] == 'p384': assume += [Length(K) == 49]
    else: assume.append(Length(K) < 2**20)
    D = decrypt_paths(w, ex, proto, tok, K, F, A, fkind, akind, assume=assume)
    tag = '%s footer=%s assertion=%s overflow-checks=%s' % (proto, fkind, akind, 'on' if checks else 'off')
    kinds = {}
    for sd, rd in D:
        kinds[describe(rd)] = kinds.get(describe(rd), 0) + 1
        if not isinstance(rd, Panic): continue
        parts = None; dec = None
        for e in sd.log:
            if e[0] == 'b64dec': dec = e
        # split parts of this path: variables named part<k>_<i>_*
        vals = [tok, K, utf8(F), utf8(A)] + ([dec[1], dec[2]] if dec else [])
        rec = ses.obligation('%s: panic "%s" is unreachable' % (tag, rd.msg[:80]), sd.pc, values=vals)
        if rec:
            mv = solve.parse_values(rec.get('values') or ''); mv = [v for _, v in mv]
            token = mv[0] if mv and isinstance(mv[0], str) else ''
            key = mv[1].hex() if len(mv) > 1 and isinstance(mv[1], bytes) else ''
            foot = mv[2] if len(mv) > 2 else b''; asr = mv[3] if len(mv) > 3 else b''
            if dec and len(mv) >= 6 and isinstance(mv[4], str) and isinstance(mv[5], bytes) and mv[4] in token:
                token = token.replace(mv[4], b64u(mv[5]), 1)       # the model's payload text stands for b64 of these bytes
            from ..replay import _txt
            ft = _txt(foot.hex() if isinstance(foot, bytes) else ''); at = _txt(asr.hex() if isinstance(asr, bytes) else '')
            segs = token.split('.')
            if len(segs) == 4: segs[3] = b64u(ft.encode()); token = '.'.join(segs)
            script = {'steps': [{'op': 'bytes', 'hex': key, 'out': 'k'},
                                {'op': 'parse_core', 'proto': proto, 'token': token, 'key': '$k', 'footer': None if fkind == 'none' else ft,
                                 'assertion': None if akind == 'none' else at, 'out': 'R'}], 'violated_if': [[{'var': 'R', 'is': 'panic'}]]}
            if 'char boundary' in rd.msg:
                # the model cannot relate code points to UTF-8 bytes: confirm with tokens that put a multi-byte character across every byte offset of the header
                hdr = proto + '.'; cands = []
                for ch in ('\u00e9', '\u20ac', '\U0001F600'):
                    for i in range(len(hdr) + 1):
                        for tail in ('AAAA', 'AAAA.' + b64u(ft.encode())): cands.append(hdr[:i] + ch + hdr[i + 1:] + tail); cands.append(hdr[:i] + ch + hdr[i:] + tail)
                script = {'steps': [{'op': 'bytes', 'hex': key, 'out': 'k'}] + [
                    {'op': 'parse_core', 'proto': proto, 'token': c, 'key': '$k', 'footer': None if fkind == 'none' else ft, 'assertion': None if akind == 'none' else at, 'out': 'R%d' % j}
                    for j, c in enumerate(cands)], 'violated_if': [[{'var': 'R%d' % j, 'is': 'panic'}] for j in range(len(cands))]}
            ses.violation('%s: %s panics on token %r (%s)' % (proto, 'try_decrypt' if p['p'] == 'Local' else 'try_verify', token[:120], rd.msg[:100]),
                          {'token': token, 'key': key, 'footer': ft, 'assertion': at}, script)
    ok_reached = [sd for sd, rd in D if is_ok(rd)]
    if ok_reached: ses.witness('%s: an accepting path exists (the harness reaches the end of the function)' % tag, ok_reached[0].pc)
    else: ses.undecided.append('%s: no accepting path explored' % tag)
    ses.samples.append({'entry': tag, 'paths': kinds})
    ses.absorb(ex)


def job_keyhex(ses, n, checks):
    w = world(checks); ex = w.executor()
    f = w.fn_impl('src/core/key/keys.rs', 'try_from', r'Key<KEYSIZE>')
    s_ = String('hexstr')
    st = new_state([Length(s_) < 2**40])
    res = ex.run(f, [s_], st, subst={'KEYSIZE': str(n)})
    for s2, r in res:
        if isinstance(r, Panic):
            rec = ses.obligation('Key::<%d>::try_from(&str): panic "%s" is unreachable' % (n, r.msg[:60]), s2.pc, values=[Length(s_)])
            if rec:
                mv = [v for _, v in solve.parse_values(rec.get('values') or '')]
                ln = mv[0] if mv and isinstance(mv[0], int) else 2
                ses.violation('Key::<%d>::try_from panics on a hex string of length %d (%s)' % (n, ln, r.msg[:80]), {'hex_length': ln},
                              {'steps': [{'op': 'key_hex', 'size': n, 'hex': '0' * ln, 'out': 'R'}], 'violated_if': [[{'var': 'R', 'is': 'panic'}]]})
    oks = [s2 for s2, r in res if is_ok(r)]
    if oks: ses.witness('Key::<%d>::try_from(&str): Ok is reachable' % n, oks[0].pc)
    else: ses.undecided.append('Key::<%d>::try_from: no Ok path' % n)
    ses.samples.append({'entry': 'Key::<%d>::try_from(&str)' % n, 'paths': [describe(r) for _, r in res]})
    ses.absorb(ex)


def run(ses):
    modes = [True] if ses.tier == 'quick' else [True, False]
    jobs = []
    for ck in modes:
        for p in PROTOCOLS:
            vs = [('some', 'some'), ('none', 'none')] if PROTOCOLS[p]['assertion'] else [('some', 'none'), ('none', 'none')]
            if ses.tier == 'quick' and not ck: vs = vs[:1]
            jobs += [(job_entry, (p, f, a, ck)) for f, a in vs]
        jobs += [(job_keyhex, (n, ck)) for n in KEY_SIZES]
    jobs += upper.panic_jobs(ses.tier)
    from .. import kani
    jobs.append((kani.job_footer_compare, ()))        # Kani also checks panic freedom of the footer comparison on the compiled code (footer / segment lengths 0-3)
    jobs.append((kani.job_key_hex, (ses.tier != 'thorough',)))        # Key::<N>::try_from(&str) on the compiled code with the real hex crate (quick: the three short harnesses)
    from .. import kani as _kani
    jobs.append((_kani.job_le64, ()))        # the PAE length prefix is a summary in the SMT runs: Kani checks le64 itself on the compiled code (all 2^64 inputs)
    run_jobs(ses, jobs)
    ses.trusted_base = TRUSTED
    ses.assumptions = ['token text, footer, assertion: arbitrary strings shorter than 2^40 bytes; key objects have the length their type guarantees']
    ses.bounds.update({'token length': 'unbounded below 2^40', 'segments': 'case split 1,2,3,4,>=5 parts', 'decoded payload length': 'unbounded',
                       'Key<N> instances': KEY_SIZES})

confirm = c01.confirm
replay = c01.replay
BASELINE = ['footer_compare']
