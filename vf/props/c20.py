"""C20 - every documented feature combination builds and works.

(A) configuration-level SAT (engine E3): the feature implication graph of Cargo.toml and the presence condition (cfg) of every file / block /
    use of the source become propositional constraints; obligations: every reference to an optional crate is implied by that crate's
    feature; no two #[from] variants of one error enum with the same source type are enabled together; for all 2^8 x 3 documented
    selections at once.  A sat answer is a feature set, confirmed with `cargo check` before it is reported.
(B) per-configuration behaviour (engine E2): for each single-protocol configuration the MIR is re-dumped under exactly that feature set
    (cfg changes the MIR) and the C01/C02 round-trip obligations are discharged on it.
Not claimed: that rustc accepts every one of the 765 configurations (the type checker's job; (A) covers the failure mechanisms named
in the property's anchors) - thorough tier adds a `cargo check` sweep over singletons and pairs as replay-side confirmation only."""
import json, os, re, itertools, time, glob, subprocess
from z3 import *
from .. import build, solve
from ..coreprops import *
from . import c01

PROTOS = ['v1_local', 'v2_local', 'v3_local', 'v4_local', 'v1_public', 'v2_public', 'v3_public', 'v4_public']
LAYERS = ['core', 'generic', 'batteries_included']
TRUSTED = ['Cargo.toml [features] table and the cfg attributes of src/** are read textually (a small cfg-expression parser: feature = "x", any, all, not)',
           'optional crates are referenced as `crate_name::` paths / `use crate_name` lines; the presence condition of a reference is the conjunction of the cfgs of its file (inner attributes + the mod declarations leading to it) and of the enclosing blocks',
           'cargo check is the judge of every configuration the solver proposes', 'for (B): everything trusted by C01/C02']


def parse_cfg(expr, B):
    expr = expr.strip()
    m = re.match(r'feature\s*=\s*"([\w-]+)"$', expr)
    if m: return B.get(m.group(1), BoolVal(False))
    for op, fn in (('any', Or), ('all', And)):
        if expr.startswith(op + '(') and expr.endswith(')'):
            parts = split_top(expr[len(op) + 1:-1])
            return fn(*[parse_cfg(x, B) for x in parts]) if parts else BoolVal(op == 'all')
    if expr.startswith('not(') and expr.endswith(')'): return Not(parse_cfg(expr[4:-1], B))
    if expr in ('test', 'doc', 'kani', 'doctest'): return BoolVal(False)
    raise Unsupported('cfg expression: ' + expr)


def feature_model():
    toml = open(build.REPO + '/Cargo.toml').read()
    sec = re.search(r'\[features\](.*?)(\n\[|\Z)', toml, re.S).group(1)
    feat = {}
    for m in re.finditer(r'^([\w-]+)\s*=\s*\[(.*?)\]', sec, re.M | re.S): feat[m.group(1)] = re.findall(r'"([^"]+)"', m.group(2))
    deps = re.search(r'\[dependencies\](.*?)(\n\[|\Z)', toml, re.S).group(1)
    optional = re.findall(r'^([\w-]+)\s*=\s*\{[^}]*optional\s*=\s*true', deps, re.M)
    alldeps = re.findall(r'^([\w-]+)\s*=', deps, re.M)
    for o in optional: feat.setdefault(o, [])
    B = {f: Bool('feat_' + f.replace('-', '_')) for f in feat}; U = {f: Bool('sel_' + f.replace('-', '_')) for f in feat}
    closure = []
    for f in feat:
        enablers = [B[g] for g, ds in feat.items() if f in [d.split('/')[0].replace('dep:', '') for d in ds]]
        closure.append(B[f] == Or(U[f], *enablers))
    documented = [f for f in PROTOS + LAYERS if f in feat]
    user_only = [Not(U[f]) for f in feat if f not in documented]
    return feat, optional, alldeps, B, U, closure + user_only, documented


def file_conditions(B):
    """presence condition of every source file: inner #![cfg] attributes and the cfgs on the `mod` declarations that lead to it"""
    root = build.REPO + '/src'; cond = {}
    def visit(path, pc):
        if not os.path.exists(path): return
        txt = open(path).read()
        for m in re.finditer(r'^#!\[cfg\((.*)\)\]\s*$', txt, re.M): pc = And(pc, parse_cfg(m.group(1), B))
        cond[path] = pc
        d = os.path.dirname(path); base = os.path.basename(path)[:-3]
        sub = d if base in ('lib', 'mod', 'main') else os.path.join(d, base)
        lines = txt.split('\n')
        for i, l in enumerate(lines):
            m = re.match(r'\s*(?:pub(?:\([^)]*\))?\s+)?mod\s+(\w+)\s*;', l)
            if not m: continue
            c = pc; j = i - 1
            while j >= 0 and (lines[j].strip().startswith('#[') or lines[j].strip().startswith('//')):
                mm = re.match(r'\s*#\[cfg\((.*)\)\]\s*$', lines[j])
                if mm: c = And(c, parse_cfg(mm.group(1), B))
                j -= 1
            for cand in (os.path.join(sub, m.group(1) + '.rs'), os.path.join(sub, m.group(1), 'mod.rs')):
                if os.path.exists(cand): visit(cand, c)
    visit(root + '/lib.rs', BoolVal(True))
    return cond


def references(path, crates, B, filepc):
    """(line no, crate, presence condition) for each reference to an optional crate in this file, with the cfgs of the enclosing blocks"""
    out = []; stack = []; pending = []          # stack: (brace depth at which the block opened, cfg)
    depth = 0
    txt = open(path).read()
    txt = re.sub(r'/\*.*?\*/', lambda m: '\n' * m.group(0).count('\n'), txt, flags=re.S)
    for ln, raw in enumerate(txt.split('\n'), 1):
        l = re.sub(r'//.*', '', raw)
        if raw.strip().startswith('//') or not l.strip():
            continue
        m = re.match(r'\s*#\[cfg\((.*)\)\]\s*$', l)
        if m: pending.append(parse_cfg(m.group(1), B)); continue
        if re.match(r'\s*#\[cfg_attr', l) or re.match(r'\s*#!?\[', l):
            continue
        local = And(*[c for _, c in stack], *pending) if (stack or pending) else BoolVal(True)
        for c in crates:
            if re.search(r'(?<![\w:])%s::' % re.escape(c.replace('-', '_')), l) or re.search(r'\buse\s+%s\b' % re.escape(c.replace('-', '_')), l):
                out.append((ln, c, And(filepc, local)))
        opens = l.count('{'); closes = l.count('}')
        if opens > closes and pending:
            stack.append((depth, And(*pending)))
        if opens or l.rstrip().endswith(';') or closes: pending = [] if not (opens == 0 and closes == 0 and not l.rstrip().endswith(';')) else pending
        depth += opens - closes
        while stack and depth <= stack[-1][0]: stack.pop()
    return out


def from_variants(B):
    """#[from] variants of every error enum with their cfg and source type text"""
    res = []
    for path in glob.glob(build.REPO + '/src/**/*.rs', recursive=True):
        txt = open(path).read()
        for em in re.finditer(r'pub enum (\w+)\s*\{(.*?)\n\}', txt, re.S):
            body = em.group(2); cur_cfg = BoolVal(True); lines = body.split('\n'); pend = []
            i = 0; variant = None
            for l in lines:
                s_ = l.strip()
                m = re.match(r'#\[cfg\((.*)\)\]$', s_)
                if m and variant is None: pend.append(parse_cfg(m.group(1), B)); continue
                vm = re.match(r'(\w+)\s*(\{|\()', s_) if not s_.startswith(('#', '//')) else None
                if vm and variant is None: variant = (vm.group(1), And(*pend) if pend else BoolVal(True), False); pend = [];
                if variant and '#[from]' in s_: variant = (variant[0], variant[1], True)
                sm = re.match(r'(?:source:\s*)?([\w:]+(?:<.*>)?),?$', s_)
                if variant and variant[2] and re.match(r'source:\s*([\w:<>]+)', s_):
                    res.append((em.group(1), variant[0], variant[1], re.match(r'source:\s*([\w:<>]+)', s_).group(1), path))
                if variant and (s_.startswith('}') or s_.endswith('),')): variant = None
    return res


ALIASES = {'ed25519_dalek::ed25519::Error': 'signature::Error', 'p384::ecdsa::Error': 'signature::Error', 'ed25519_dalek::SignatureError': 'signature::Error'}


def job_sat(ses):
    feat, optional, alldeps, B, U, base, documented = feature_model()
    cond = file_conditions(B)
    ses.notes.append('features: %s; optional crates: %s; %d source files with presence conditions' % (sorted(feat), optional, len(cond)))
    def sel_of(m): return [f for f in documented if is_true(m.eval(U[f], model_completion=True))]
    def ask(name, cons):
        s = Solver(); s.add(*base, *cons); t1 = time.time(); r = str(s.check()); dt = time.time() - t1
        ses.queries.append({'name': name, 'verdict': r, 'expected': 'unsat', 'solver': 'z3-5.1.0-api (propositional)', 'agree': [], 'time_s': round(dt, 3), 'lemma_instances': 0, 'per_solver': {}})
        return r, (s.model() if r == 'sat' else None)
    proposals = {}
    # (a) references to optional crates
    n_ref = 0
    for path, pc in sorted(cond.items()):
        for ln, crate, c in references(path, optional, B, pc):
            n_ref += 1
            r, m = ask('%s:%d uses `%s` only in configurations that enable it' % (path[len(build.REPO) + 1:], ln, crate), [c, Not(B[crate])])
            if r == 'sat':
                sel = sel_of(m); proposals.setdefault(','.join(sel), []).append('%s:%d references optional crate `%s`, which this feature set does not enable' % (path[len(build.REPO) + 1:], ln, crate))
    # files that exist but are referenced by no mod declaration are not compiled: nothing to check
    # (b) From coherence
    fv = from_variants(B)
    for (e1, v1, c1, t1_, p1), (e2, v2, c2, t2_, p2) in itertools.combinations(fv, 2):
        if e1 != e2: continue
        if ALIASES.get(t1_, t1_) == ALIASES.get(t2_, t2_):
            r, m = ask('%s: #[from] variants %s and %s (same source type %s) are never enabled together' % (e1, v1, v2, ALIASES.get(t1_, t1_)), [c1, c2])
            if r == 'sat':
                sel = sel_of(m); proposals.setdefault(','.join(sel), []).append('%s::%s and %s::%s both derive From<%s>' % (e1, v1, e1, v2, ALIASES.get(t1_, t1_)))
    ses.samples.append({'optional_crate_references_checked': n_ref, 'from_variants': [(e, v, t) for e, v, _, t, _ in fv]})
    # positive control of the encoding: the default feature set and the full set satisfy every presence condition used above
    for sel, why in proposals.items():
        okc, err = build.cargo_check(sel) if sel else build.cargo_check('', default=False)
        ses.native_runs += 1
        if not okc:
            ses.violations.append({'what': 'feature set {%s} does not compile: %s' % (sel, '; '.join(why[:3])), 'detail': {'cargo_error': '\n'.join(l for l in err.split('\n') if l.startswith('error'))[:600]},
                                   'replay': {'kind': 'c20_config', 'features': sel, 'confirmed_by_cargo': True}, 'key': None})
        else:
            ses.undecided.append('the configuration model predicts that {%s} fails (%s) but cargo check accepts it: presence conditions too coarse' % (sel, why[0]))
    ses.paths += n_ref; ses.blocks += len(ses.queries)


def job_config_roundtrip(ses, feature, proto):
    """round trip of the protocol under the MIR of exactly this single-protocol configuration"""
    import vf.coreprops as cp
    cp.FEATURES = feature + ',core'
    try:
        c01.job_roundtrip(ses, proto, 'some', 'some' if PROTOCOLS[proto]['assertion'] else 'none')
    except RuntimeError as e:
        if 'MIR dump failed' not in str(e): raise
        # the crate does not build under this configuration with the toolchain that dumps MIR: the repository's own toolchain is the judge
        okc, err = build.cargo_check(feature + ',core'); ses.native_runs += 1
        ses.queries.append({'name': 'the configuration --no-default-features --features %s,core builds (MIR dump)' % feature, 'verdict': 'sat', 'expected': 'unsat', 'solver': 'rustc', 'agree': [], 'time_s': 0, 'lemma_instances': 0, 'per_solver': {}})
        if not okc:
            ses.violations.append({'what': 'feature set {%s,core} does not compile' % feature, 'detail': {'cargo_error': '\n'.join(l for l in err.split('\n') if l.startswith('error'))[:600]},
                                   'replay': {'kind': 'c20_config', 'features': feature + ',core', 'confirmed_by_cargo': True}, 'key': None})
        else: ses.undecided.append('the MIR dump of configuration %s fails although cargo check accepts it: %s' % (feature, str(e)[-300:]))
        return
    finally:
        cp.FEATURES = None
    for v in ses.violations:
        v['what'] = '[configuration --no-default-features --features %s,core] %s' % (feature, v['what'])
        v['replay'] = {'kind': 'c20_roundtrip', 'features': feature + ',core', 'proto': proto}
    for q in ses.queries: q['name'] = '[features %s] %s' % (feature, q['name'])


def job_cargo_sweep(ses, sets):
    for fs in sets:
        okc, err = build.cargo_check(fs); ses.native_runs += 1
        ses.queries.append({'name': 'cargo check --no-default-features --features ' + fs, 'verdict': 'unsat' if okc else 'sat', 'expected': 'unsat', 'solver': 'rustc (confirmation sweep, not the deciding step)', 'agree': [], 'time_s': 0, 'lemma_instances': 0, 'per_solver': {}})
        if not okc: ses.violations.append({'what': 'feature set {%s} does not compile' % fs, 'detail': {'cargo_error': '\n'.join(l for l in err.split('\n') if l.startswith('error'))[:600]},
                                           'replay': {'kind': 'c20_config', 'features': fs, 'confirmed_by_cargo': True}, 'key': None})


def run(ses):
    jobs = [(job_sat, ())] + [(job_config_roundtrip, (f, f.replace('_', '.'))) for f in PROTOS]
    if ses.tier == 'thorough':
        sets = [p + ',' + l for p in PROTOS for l in LAYERS] + [a + ',' + b + ',batteries_included' for a, b in itertools.combinations(PROTOS, 2)] + [','.join(PROTOS) + ',batteries_included']
        jobs.append((job_cargo_sweep, (sets,)))
    run_jobs(ses, jobs, procs=4, preload=False)
    ses.trusted_base = TRUSTED
    ses.assumptions = ['documented selections: any subset of the eight protocol features with core / generic / batteries_included (other features are not user-selectable for this property)']
    ses.bounds.update({'configurations covered by each SAT obligation': '2^8 x 2^3 selections at once', 'configurations whose MIR is executed': '8 single-protocol configurations',
                       'not covered': 'type-checking of every configuration by rustc (thorough tier sweeps singletons x layers, all pairs, the full set with cargo check as confirmation)'})


def confirm(ses, v):
    r = v.get('replay') or {}
    if r.get('confirmed_by_cargo'): return True
    if r.get('kind') == 'c20_roundtrip':
        # native confirmation: build the replay crate against the working tree with exactly that feature set and run the round trip
        from .. import replay as rp
        out = rp.run_native_features(r['features'], r['proto']); v['native'] = out; ses.native_runs += 1
        return bool(out.get('violated')) if 'violated' in out else None
    return None


def replay(path):
    d = json.load(open(path)); r = d['replay']
    if r.get('kind') == 'c20_config':
        okc, err = build.cargo_check(r['features']); print('cargo check --no-default-features --features', r['features'], '->', 'ok' if okc else 'FAILS')
        if not okc: print('VIOLATION property=C20 replay=%s' % path); return 1
        return 0
    from .. import replay as rp
    out = rp.run_native_features(r['features'], r['proto']); print(out)
    if out.get('violated'): print('VIOLATION property=C20 replay=%s' % path); return 1
    return 0
