"""C14 - parsed claims equal the claims that were set."""
from z3 import *
from ..upperprops import *
from . import c01, c13, c15

TRUSTED = ['rustc MIR dump is the semantics of the source', 'serde_json: from_str(to_string(v)) = v for every Value (text round trip of numbers/Unicode is serde_json\'s own contract)',
           'HashMap<String, Box<dyn Serialize>> as (present, value) arrays; Value::Object as an object id with member/has/len functions',
           'a user claim type serialises as the one-entry map {get_key(): value} (PasetoClaim contract); the crate\'s own eight claim types are NOT assumed: their Serialize and get_key MIR is executed',
           'core entry points summarised: parse(build(payload)) returns payload under the same key/footer/assertion (C01, C02)']
CLAIMS = {  # type -> (file, constructor form, registered key)
    'IssuerClaim': ('src/generic/claims/issuer_claim.rs', 'from', 'iss'), 'SubjectClaim': ('src/generic/claims/subject_claim.rs', 'from', 'sub'),
    'AudienceClaim': ('src/generic/claims/audience_claim.rs', 'from', 'aud'), 'TokenIdentifierClaim': ('src/generic/claims/token_identifier_claim.rs', 'from', 'jti'),
    'ExpirationClaim': ('src/generic/claims/expiration_claim.rs', 'try_from', 'exp'), 'NotBeforeClaim': ('src/generic/claims/not_before_claim.rs', 'try_from', 'nbf'),
    'IssuedAtClaim': ('src/generic/claims/issued_at_claim.rs', 'try_from', 'iat'),
}


def job_set_remove(ses):
    w = world(); ex = upper_executor(w); sb = SymBuilder(w)
    if not sb.layout_ok(False): ses.notes.append(LAYOUT_NOTE); ses.bounds['builder layout'] = 'unknown to the harness: bounded histories only'; return
    k = String('k'); val = Const('v', JV); kq = String('k_other')
    # set_claim
    st = new_state([Length(k) < 2**30]); cell = st.new_cell(sb.generic_value())
    for s2, r in ex.run(w.fn(GB, 'set_claim'), [('ref', cell, ()), ('opaque_claim', k, val)], st, subst={'T': 'SymClaim'}):
        if isinstance(r, Panic):
            if upper_obligation(ses, 'GenericBuilder::set_claim: no panic (%s)' % r.msg[:50], list(s2.pc)): ses.violation('GenericBuilder::set_claim panics: ' + r.msg, {}, {'kind': 'c14'})
            continue
        try: b2 = read_generic_builder(w, s2, cell)
        except Unsupported as e:
            # set_claim's body could not be encoded and was abstracted: what it stores is unknown - a candidate for the native replay (claim values of native types included)
            ses.violation('GenericBuilder::set_claim: what the (abstracted) body stores for a claim is unknown', {'reason': str(e)[:200]}, {'kind': 'c14'}); continue
        post = And(Implies(k != StringVal(''), And(Select(b2['P'], k), Select(b2['V'], k) == val)),
                   Implies(kq != k, And(Select(b2['P'], kq) == Select(sb.P, kq), Select(b2['V'], kq) == Select(sb.V, kq))),
                   Implies(k == StringVal(''), And(Select(b2['P'], k) == Select(sb.P, k))))
        rec = upper_obligation(ses, 'GenericBuilder::set_claim(k, v): claims[k] = v (last value wins), every other claim untouched, empty key ignored', list(s2.pc) + c13.mapdefs_lemmas(s2, [k, kq]) + [Not(post)], values=[k, kq])
        if rec: ses.violation('GenericBuilder::set_claim stores a wrong value / disturbs another claim', fmt_model(['key', 'other'], rec), {'kind': 'c14'})
    # remove_claim
    st = new_state([]); cell = st.new_cell(sb.generic_value())
    for s2, r in ex.run(w.fn(GB, 'remove_claim'), [('ref', cell, ()), k], st):
        if isinstance(r, Panic): ses.violation('remove_claim panics', {}, {'kind': 'c14'}); continue
        b2 = read_generic_builder(w, s2, cell)
        post = And(Not(Select(b2['P'], k)), Implies(kq != k, And(Select(b2['P'], kq) == Select(sb.P, kq), Select(b2['V'], kq) == Select(sb.V, kq))))
        if upper_obligation(ses, 'GenericBuilder::remove_claim(k): k absent afterwards, every other claim untouched', list(s2.pc) + [Not(post)]): ses.violation('remove_claim leaves the claim / removes another', {}, {'kind': 'c14'})
    ses.absorb(ex)


def job_payload(ses):
    w = world(); ex = upper_executor(w); sb = SymBuilder(w); kq = String('k_any')
    if not sb.layout_ok(False): ses.notes.append(LAYOUT_NOTE); ses.bounds['builder layout'] = 'unknown to the harness: bounded histories only'; return
    st = new_state([]); cell = st.new_cell(sb.generic_value())
    n = 0
    for s2, r in ex.run(w.fn(GB, 'build_payload_from_claims'), [('ref', cell, ())], st):
        if isinstance(r, Panic):
            if upper_obligation(ses, 'build_payload_from_claims: no panic', list(s2.pc)): ses.violation('build_payload_from_claims panics', {}, {'kind': 'c14'})
            continue
        if not is_ok(r): continue
        n += 1
        po = c13.payload_obj(r[3][0])
        if po is None: ses.undecided.append('payload is not json_text(object): ' + str(r[3][0])[:100]); continue
        want = And(Select(po[0], kq) == Select(sb.P, kq), Implies(Select(sb.P, kq), Select(po[1], kq) == Select(sb.V, kq)))
        rec = upper_obligation(ses, 'build_payload_from_claims: the payload object has exactly the stored claims with their values (no member added, dropped or changed)',
                               list(s2.pc) + c13.mapdefs_lemmas(s2, [kq]) + [Not(want)], values=[kq, Select(sb.V, kq)])
        if rec: ses.violation('the payload object differs from the stored claims (a claim is dropped, added or altered)', fmt_model(['key', 'value'], rec), {'kind': 'c14'})
    if n == 0: ses.undecided.append('build_payload_from_claims: no Ok path')
    ses.absorb(ex)


def job_wrap_value_step(ses):
    """inductive step of wrap_value(v) == v: the body is executed once on an arbitrary v; its recursive calls (direct, and as the
    function item handed to map) are replaced by the induction hypothesis"""
    w = world(); ex = upper_executor(w)
    f = [g for g in w.fns if g.method == 'wrap_value' and '{closure' not in g.name and not g.impl]
    if len(f) != 1: raise Unsupported('wrap_value: %d bodies' % len(f))
    v = Const('v', JV)
    res = ex.run(f[0], [v], new_state([]))       # Exec.run executes this body; calls *from* it hit ex.ih['wrap_value']
    n = 0
    for s2, r in res:
        if isinstance(r, Panic):
            if upper_obligation(ses, 'wrap_value: no panic', list(s2.pc)): ses.violation('wrap_value panics', {}, {'kind': 'c14'})
            continue
        n += 1
        out = um.to_jv(s2, r)
        rec = upper_obligation(ses, 'wrap_value(v) == v given the same for the members/elements of v (inductive step; base cases Null / primitives / empty object included)', list(s2.pc) + [out != v], values=[v])
        if rec: ses.violation('wrap_value changes a JSON value', fmt_model(['value'], rec), {'kind': 'c14'})
    if n == 0: ses.undecided.append('wrap_value: no path')
    ses.absorb(ex)


def job_typed_claim(ses, ty):
    """the crate's own claim types: constructor + get_key + Serialize executed from MIR, then GenericBuilder::set_claim"""
    w = world(); ex = upper_executor(w); sb = SymBuilder(w); file, ctor, key = CLAIMS[ty]
    if not sb.layout_ok(False): ses.notes.append(LAYOUT_NOTE); ses.bounds['builder layout'] = 'unknown to the harness: bounded histories only'; return
    s_ = String('text'); st = new_state([Length(s_) < 2**30, um.iso8601_ok(s_)] if ctor == 'try_from' else [Length(s_) < 2**30])
    fs = [g for g in w.fns if g.file == file and g.method == ctor and '(_1: &str)' in g.sig and '{closure' not in g.name]
    if len(fs) != 1: raise Unsupported('%s::%s(&str): %d bodies' % (ty, ctor, len(fs)))
    made = [(s2, r) for s2, r in ex.run(fs[0], [s_], st) if not isinstance(r, Panic)]
    n = 0
    for s1, c in made:
        if ctor == 'try_from':
            if not is_ok(c): continue
            c = c[3][0]
        cell = s1.new_cell(sb.generic_value())
        for s2, r in ex.run(w.fn(GB, 'set_claim'), [('ref', cell, ()), c], s1, subst={'T': ty}):
            if isinstance(r, Panic):
                if upper_obligation(ses, 'set_claim(%s): no panic (%s)' % (ty, r.msg[:40]), list(s2.pc)): ses.violation('set_claim(%s) panics' % ty, {}, {'kind': 'c14'})
                continue
            n += 1
            b2 = read_generic_builder(w, s2, cell); K_ = StringVal(key)
            rec = upper_obligation(ses, 'set_claim(%s::%s(text)) stores Str(text) under the registered key "%s"' % (ty, ctor, key),
                                   list(s2.pc) + c13.mapdefs_lemmas(s2, [K_]) + [Not(And(Select(b2['P'], K_), Select(b2['V'], K_) == JV.Str(s_)))], values=[s_])
            if rec: ses.violation('%s does not end up as {"%s": text} in the claims' % (ty, key), fmt_model(['text'], rec), {'kind': 'c14'})
    if n == 0: ses.undecided.append('%s: no path through set_claim' % ty)
    ses.absorb(ex)


def job_end_to_end(ses, proto):
    """GenericBuilder::try_encrypt/try_sign then GenericParser::parse without expectations: the JSON returned equals the stored claims"""
    w = world(); ex = upper_executor(w); sb = SymBuilder(w); p = PROTOCOLS[proto]
    if not sb.layout_ok(False): ses.notes.append(LAYOUT_NOTE); ses.bounds['builder layout'] = 'unknown to the harness: bounded histories only'; return
    vt = w.type_text(proto); meth = 'try_encrypt' if p['p'] == 'Local' else 'try_sign'
    fs = [g for g in w.fns if g.file == GB and g.method == meth and g.impl and vt[0].split('::')[-1] in g.impl[1] and vt[1].split('::')[-1] in g.impl[1]]
    if len(fs) != 1: raise Unsupported('GenericBuilder::<%s>::%s: %d bodies' % (proto, meth, len(fs)))
    akind = 'some' if p['assertion'] else 'none'
    Kb = Const('K', Bytes); PKb = Const('PK', Bytes) if p['p'] == 'Public' else Kb
    st = new_state([]); cell = st.new_cell(sb.generic_value('some', akind))
    bkey = sym_key_value(w, proto, Kb) if p['p'] == 'Local' else w.mk('PasetoAsymmetricPrivateKey', version=PHANTOM, purpose=PHANTOM, key=Kb)
    kq = String('k_any'); n = 0
    for s1, r1 in ex.run(fs[0], [('ref', cell, ()), ('ref', st.new_cell(bkey), ())], st):
        if not is_ok(r1): continue
        tok = r1[3][0]; core = [e for e in s1.log if e[0] == 'core_build']
        if not core: ses.undecided.append('%s end to end: an Ok build without a core call' % proto); continue
        core = core[0]
        sp = SymParser(w, 0, 0); sp.F = sb.F; sp.A = sb.A if akind == 'some' else StringVal('')
        pcell = s1.new_cell(sp.value())
        # the parse key is the key the token was built with (for public protocols: its public counterpart, which the core summary identifies with it)
        for s2, r2 in ex.run(parse_fn(w, proto), [('ref', pcell, ()), tok, ('ref', s1.new_cell(parser_key(w, proto, core[2])), ())], s1):
            if isinstance(r2, Panic): continue
            if is_ok(r2):
                n += 1
                J = um.to_jv(s2, r2[3][0])
                want = And(um.jindex(J, kq) == If(Select(sb.P, kq), Select(sb.V, kq), JV.Null))
                rec = upper_obligation(ses, '%s: parse(build(claims)) returns an object whose member k is the stored claim k (absent claims read as null)' % proto,
                                       list(s2.pc) + c13.mapdefs_lemmas(s2, [kq]) + [Not(want)], values=[kq])
                if rec: ses.violation('%s: a claim set on the builder comes back different / missing from the parser' % proto, fmt_model(['key'], rec), {'kind': 'c14', 'proto': proto})
            else:
                rec = upper_obligation(ses, '%s: parsing the freshly built token with the same key/footer/assertion does not fail (%s)' % (proto, describe(r2)), list(s2.pc))
                if rec: ses.violation('%s: generic parser rejects the token of the generic builder (%s)' % (proto, describe(r2)), {}, {'kind': 'c14', 'proto': proto})
    if n == 0: ses.undecided.append('%s end to end: no accepting path' % proto)
    ses.absorb(ex)


def job_histories(ses, maxlen, shard=0, nshards=1):
    """every call sequence over {set_claim(k_i, v_i), remove_claim(k_i), build_payload_from_claims} with SYMBOLIC keys and values of at most `maxlen`
    calls followed by a build, started from the real GenericBuilder::new(): every payload produced along the way must equal the claims as they
    stand at that moment.  Stated on observable results only, so it also covers state the per-operation frame conditions do not know about
    (an added cache field, say)."""
    import itertools
    w = world(); ex = upper_executor(w)
    fnew = [g for g in w.fns if g.file == GB and g.method == 'new' and '{closure' not in g.name]
    if len(fnew) != 1: raise Unsupported('GenericBuilder::new: %d bodies' % len(fnew))
    fset = w.fn(GB, 'set_claim'); frem = w.fn(GB, 'remove_claim'); fbuild = w.fn(GB, 'build_payload_from_claims')
    seqs = []
    for n in range(0, maxlen + 1):
        for s_ in itertools.product(('set', 'remove', 'build'), repeat=n): seqs.append(list(s_) + ['build'])
    ex.stats['bounds']['generic builder histories'] = '%d sequences of at most %d calls + build, keys and values symbolic' % (len(seqs), maxlen)
    seqs = [q for i, q in enumerate(seqs) if i % nshards == shard]
    starts = [(s_, r) for s_, r in ex.run(fnew[0], [], new_state([])) if not isinstance(r, Panic)]
    if len(starts) != 1: ses.undecided.append('GenericBuilder::new has %d paths' % len(starts)); return
    kq = String('k_any')
    for seq in seqs:
        s0 = starts[0][0].fork(); cell = s0.new_cell(starts[0][1])
        P = K(S, BoolVal(False)); V = Const('v_unset', ArraySort(S, JV))
        frontier = [(s0, [])]
        for i, op in enumerate(seq):
            k = String('hk%d' % i); v = Const('hv%d' % i, JV); nxt = []
            if op == 'set': P, V = If(k == StringVal(''), P, Store(P, k, BoolVal(True))), If(k == StringVal(''), V, Store(V, k, v))
            elif op == 'remove': P = Store(P, k, BoolVal(False))
            for s1, obs in frontier:
                s1.pc.append(Length(k) < 2**30)
                if op == 'set': outs = ex.run(fset, [('ref', cell, ()), ('opaque_claim', k, v)], s1, subst={'T': 'SymClaim'})
                elif op == 'remove': outs = ex.run(frem, [('ref', cell, ()), k], s1)
                else: outs = ex.run(fbuild, [('ref', cell, ())], s1)
                for s2, r in outs:
                    if isinstance(r, Panic):
                        if upper_obligation(ses, 'generic history %s: no panic at call %d (%s)' % (seq, i, r.msg[:40]), list(s2.pc)): ses.violation('generic builder call sequence %s panics' % seq, {}, {'kind': 'c14'})
                        continue
                    nxt.append((s2, obs + [(i, r, P, V)] if op == 'build' else obs))
            frontier = nxt
        if not frontier: ses.undecided.append('generic history %s: no path' % seq)
        for s2, obs in frontier:
            for (bi, r, Pm, Vm) in obs:
                if not is_ok(r):
                    if upper_obligation(ses, 'generic history %s: the build at call %d does not fail' % (seq, bi), list(s2.pc)): ses.violation('generic builder sequence %s: build fails' % seq, {}, {'kind': 'c14'})
                    continue
                po = c13.payload_obj(r[3][0])
                if po is None: ses.undecided.append('generic history %s: payload not an object term' % seq); continue
                want = And(Select(po[0], kq) == Select(Pm, kq), Implies(Select(Pm, kq), Select(po[1], kq) == Select(Vm, kq)))
                rec = upper_obligation(ses, 'generic history %s: the payload of the build at call %d has exactly the claims set and not removed before it, with the last value set' % (seq, bi),
                                       list(s2.pc) + c13.mapdefs_lemmas(s2, [kq]) + [Not(want)], values=[kq])
                if rec: ses.violation('generic builder sequence %s: the payload of build #%d differs from the claims set/removed before it' % (seq, bi), fmt_model(['key'], rec), {'kind': 'c14'})
    ses.samples.append({'generic histories': len(seqs), 'example': seqs[min(5, len(seqs) - 1)]})
    ses.absorb(ex)


def run(ses):
    jobs = [(job_set_remove, ()), (job_payload, ()), (job_wrap_value_step, ())] + [(job_typed_claim, (t,)) for t in CLAIMS] + [(job_end_to_end, (p,)) for p in PROTOCOLS]
    # the end-to-end jobs use the core summary "parse(build(payload)) = payload"; the summary is discharged here as well (the C01/C02 core round trips),
    # so a core change that garbles the payload text is seen by this check too
    jobs += [(c01.job_roundtrip, (p, f, a)) for p in PROTOCOLS for f, a in c01.variants(p, 'quick')]
    nsh = 4 if ses.tier == 'quick' else 8
    jobs += [(job_histories, (3 if ses.tier == 'quick' else 4, i, nsh)) for i in range(nsh)]
    run_jobs(ses, jobs)
    ses.trusted_base = TRUSTED
    ses.assumptions = ['claims are set through GenericBuilder::set_claim / remove_claim; values are arbitrary JSON values; keys arbitrary strings (empty keys are ignored, as the source documents)']
    ses.bounds.update({'history length': 'unbounded (per-operation frame conditions on an arbitrary claims map of the declared fields); layout-independent histories from GenericBuilder::new(): 3 calls + build (quick), 4 (thorough)', 'JSON nesting': 'unbounded (wrap_value by induction)'})

confirm = c01.confirm
replay = c01.replay
BASELINE = ['c14']
