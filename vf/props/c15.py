"""C15 - expected-claim checks accept exactly the tokens that carry those claims; C16 - custom validators (shared jobs)."""
from z3 import *
from ..upperprops import *
from . import c01

TRUSTED = ['rustc MIR dump is the semantics of the source', 'serde_json::Value as an algebraic datatype; Index<&str> yields Null for non-objects and missing members; from_str is an uninterpreted partial function',
           'HashMap iteration visits every present key exactly once (order irrelevant to the property)', 'user validators are uninterpreted predicates of (key, value) with a call log',
           'core entry points are summarised by what C01-C09 establish on the same tree']


def verdicts(sp, J):
    """specification of verify_claims for the symbolic parser sp on payload J"""
    conds = []
    for k, e in zip(sp.keys, sp.exp):
        v = um.jindex(J, k)
        conds.append(Or(sp.has_validator(k), And(v != JV.Null, v == e)))
    return And(*conds) if conds else BoolVal(True)


def validators_ok(sp, J):
    return And(*[um.validator_ok(IntVal(j), k, um.jindex(J, k)) for j, k in enumerate(sp.vkeys)]) if sp.vkeys else BoolVal(True)


def job_verify_claims(ses, n, m, which):
    w = world(); ex = upper_executor(w); sp = SymParser(w, n, m)
    f = w.fn(GP, 'verify_claims')
    tok = String('payload_text')
    st = new_state(sp.assume); cell = st.new_cell(sp.value())
    res = ex.run(f, [('ref', cell, ()), tok], st)
    J = um.jparse(tok); okpcs = []
    tag = 'verify_claims with %d expected claims, %d validators' % (n, m)
    for s2, r in res:
        calls = [e for e in s2.log if e[0] == 'validator_call']
        if isinstance(r, Panic):
            if upper_obligation(ses, '%s: no panic (%s)' % (tag, r.msg[:50]), list(s2.pc)): ses.violation('verify_claims panics: ' + r.msg, {}, {'kind': 'c15'})
            continue
        fr, kq = sp.unchanged(s2, cell)
        if upper_obligation(ses, '%s (%s): the parser\'s expectations and validators are unchanged by a parse' % (tag, describe(r)), list(s2.pc) + [Not(fr)]):
            ses.violation('parsing changes the parser\'s configuration: the outcome for the next token depends on this one', {}, {'kind': 'c15'})
        vals = [tok] + sp.keys + sp.vkeys
        if is_ok(r):
            okpcs.append(And(*s2.pc))
            if 'c15' in which:
                rec = upper_obligation(ses, '%s: Ok only if every expected claim without a validator is present (non-null) and equal' % tag, list(s2.pc) + [Not(verdicts(sp, J))], values=vals)
                if rec: ses.violation('a token lacking an expected claim / carrying a different value is accepted', fmt_model(['payload'] + ['ek%d' % i for i in range(n)] + ['vk%d' % j for j in range(m)], rec), {'kind': 'c15'})
                if upper_obligation(ses, '%s: the returned JSON is the parsed payload' % tag, list(s2.pc) + [um.to_jv(s2, r[3][0]) != J]): ses.violation('verify_claims returns something else than the payload', {}, {'kind': 'c15'})
            if 'c16' in which:
                # every registered validator ran exactly once, with (its key, payload[key]), and said Ok
                for j, k in enumerate(sp.vkeys):
                    mine = [c for c in calls if c[1] == j]
                    if len(mine) != 1:
                        rec = upper_obligation(ses, '%s: Ok path on which validator #%d ran %d times is infeasible' % (tag, j, len(mine)), list(s2.pc), values=vals)
                        if rec: ses.violation('parse succeeds although a registered validator ran %d times (must be exactly once)' % len(mine), fmt_model(['payload'] + ['ek%d' % i for i in range(n)] + ['vk%d' % q for q in range(m)], rec), {'kind': 'c16'})
                        continue
                    c = mine[0]
                    if upper_obligation(ses, '%s: validator #%d is called with its own key and the payload\'s value for it, and returned Ok' % (tag, j),
                                        list(s2.pc) + [Not(And(c[2] == k, c[3] == um.jindex(J, k), um.validator_ok(IntVal(j), k, um.jindex(J, k))))]):
                        ses.violation('a validator is called with the wrong key/value or its error is ignored', {}, {'kind': 'c16'})
        else:
            kind = describe(r)
            if 'c15' in which and 'Missing' in kind:
                named = r[3][0][3][0][3][0] if 'ClaimError' in (r[3][0][1], r[3][0][2]) else None
                if named is not None and upper_obligation(ses, '%s: Missing(k) only for an expected k (without validator) that is null/absent in the payload' % tag,
                                                          list(s2.pc) + [Not(Or(*[And(named == k, um.jindex(J, k) == JV.Null, Not(sp.has_validator(k))) for k in sp.keys]))]):
                    ses.violation('Missing-claim error for a claim that is present', {}, {'kind': 'c15'})
            if 'c15' in which and 'PayloadJsonError' not in kind:
                # an error is justified: some expectation fails or some validator rejects
                if upper_obligation(ses, '%s: %s only when an expectation fails or a validator rejects' % (tag, kind), list(s2.pc) + [verdicts(sp, J), validators_ok(sp, J)], values=vals):
                    ses.violation('a token that satisfies every expectation and validator is rejected (%s)' % kind, {}, {'kind': 'c15'})
    # completeness: JSON parses, expectations hold, validators accept  =>  some Ok path
    if okpcs:
        if upper_obligation(ses, '%s: a payload satisfying all expectations and validators is accepted' % tag, list(sp.assume) + [um.jparse_ok(tok), verdicts(sp, J), validators_ok(sp, J), Not(Or(*okpcs))], values=[tok]):
            ses.violation('a token satisfying every expected claim and validator is not accepted', {}, {'kind': 'c15'})
        upper_ask(ses, '%s: acceptance is reachable' % tag, [Or(*okpcs)] + list(sp.assume), 'sat'); ses.witnesses.append((tag + ': Ok reachable', 'sat'))
    else: ses.undecided.append(tag + ': no Ok path')
    ses.samples.append({'query': tag, 'paths': [describe(r) for _, r in res]})
    ses.absorb(ex)


def job_parse(ses, proto, prelude, which):
    """parse(): the token, key, stored footer and assertion reach the core; a core error is returned without any validator call; the plaintext goes to verify_claims"""
    w = world(); ex = upper_executor(w); sp = SymParser(w, 1, 1); p = PROTOCOLS[proto]
    f = parse_fn(w, proto, prelude)
    tok = String('token'); Kb = Const('K', Bytes)
    st = new_state(sp.assume); cell = st.new_cell(sp.prelude_value() if prelude else sp.value())
    res = ex.run(f, [('ref', cell, ()), tok, ('ref', st.new_cell(parser_key(w, proto, Kb)), ())], st)
    tag = '%s %s::parse' % (proto, 'PasetoParser' if prelude else 'GenericParser'); n_ok = 0
    for s2, r in res:
        core = [e for e in s2.log if e[0] == 'core_parse']; calls = [e for e in s2.log if e[0] == 'validator_call']
        if isinstance(r, Panic):
            if upper_obligation(ses, '%s: no panic (%s)' % (tag, r.msg[:50]), list(s2.pc)): ses.violation(tag + ' panics: ' + r.msg, {}, {'kind': 'c15'})
            continue
        if len(core) != 1: ses.violation('%s makes %d core calls' % (tag, len(core)), {}, {'kind': 'c16'}); continue
        c = core[0]
        wantA = sp.A if p['assertion'] else StringVal('')
        if upper_obligation(ses, '%s: token, key, the parser\'s footer and implicit assertion reach the matching core entry point unchanged' % tag,
                            list(s2.pc) + [Not(And(BoolVal(c[1] == proto), c[2] == tok, c[3] == Kb, c[4] == sp.F, c[5] == wantA))]):
            ses.violation('%s hands another token/key/footer/assertion (or protocol) to the core' % tag, {}, {'kind': 'c05_upper', 'proto': proto})
        acc = um.core_accepts(IntVal(um.PROTO_ID[proto]), tok, Kb, sp.F, wantA)
        plain = um.core_plain(IntVal(um.PROTO_ID[proto]), tok, Kb, sp.F, wantA)
        rejected = any(a.eq(Not(acc)) for a in s2.pc)
        if rejected:
            if calls: ses.violation('%s: a validator runs although the token did not authenticate' % tag, {}, {'kind': 'c16'})
            if not (is_err(r) and 'CipherError' in (r[3][0][1], r[3][0][2])): ses.violation('%s: a core error is not returned as CipherError (%s)' % (tag, describe(r)), {}, {'kind': 'c16'})
        else:
            parses = [e for e in s2.log if e[0] == 'json_parse']
            if not parses or not parses[0][1].eq(plain): ses.violation('%s: claims are not examined on the string returned by the core' % tag, {}, {'kind': 'c16'})
            if is_ok(r): n_ok += 1
        fr, kq = sp.unchanged(s2, cell, prelude)
        for fld in getattr(sp, 'changed_extra', []):
            ses.violation('%s writes the parser field `%s`: the outcome for later tokens can depend on this one' % (tag, fld), {}, {'kind': 'c15_history', 'proto': proto})
        if upper_obligation(ses, '%s (%s): parser state unchanged' % (tag, describe(r)), list(s2.pc) + [Not(fr)]):
            ses.violation('%s changes the parser (outcome would depend on earlier parses)' % tag, {}, {'kind': 'c15'})
    if n_ok == 0: ses.undecided.append(tag + ': no Ok path')
    ses.absorb(ex)


def jobs_for(which, tier):
    sizes = [(0, 0), (1, 0), (2, 0), (0, 1), (1, 1), (2, 2)] if tier == 'quick' else [(0, 0), (1, 0), (2, 0), (3, 0), (1, 1), (2, 2), (3, 3), (0, 2)]
    js = [(job_verify_claims, (n, m, which)) for n, m in sizes]
    js += [(job_parse, (p, pre, which)) for p in PROTOCOLS for pre in (False, True)]
    return js


def run(ses):
    run_jobs(ses, jobs_for(('c15',), ses.tier))
    ses.trusted_base = TRUSTED
    ses.assumptions = ['expected claims have pairwise distinct keys; the JSON of an expected claim is {key: value}', 'parser state: any footer/assertion, n expected claims, m validators (n, m as listed in bounds)']
    ses.bounds.update({'(expected claims, validators)': '(0,0) (1,0) (2,0) (1,1) (2,2) quick; up to (3,3) thorough', 'payload': 'any string; any JSON value'})

confirm = c01.confirm
replay = c01.replay
BASELINE = ['c15', 'c15_history']
