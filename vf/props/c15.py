"""C15 - expected-claim checks accept exactly the tokens that carry those claims; C16 - custom validators (shared jobs)."""
from z3 import *
from ..upperprops import *
from . import c01, c13

TRUSTED = ['rustc MIR dump is the semantics of the source', 'serde_json::Value as an algebraic datatype; Index<&str> yields Null for non-objects and missing members; from_str is an uninterpreted partial function',
           'HashMap iteration visits every present key exactly once (order irrelevant to the property)', 'user validators are uninterpreted predicates of (key, value) with a call log',
           'core entry points are summarised by what C01-C09 establish on the same tree']


def verdicts(sp, J):
    """specification of verify_claims for the symbolic parser sp on payload J"""
    conds = []
    for k, e in zip(sp.keys, sp.exp):
        v = um.jindex(J, k)
        conds.append(Or(sp.has_validator(k), And(v != JV.Null, v == e)))
    return And(*conds) if conds else BoolVal(True)


def validators_ok(sp, J):
    return And(*[um.validator_ok(IntVal(j), k, um.jindex(J, k)) for j, k in enumerate(sp.vkeys)]) if sp.vkeys else BoolVal(True)


def job_verify_claims(ses, n, m, which):
    w = world(); ex = upper_executor(w); sp = SymParser(w, n, m)
    f = w.fn(GP, 'verify_claims')
    tok = String('payload_text')
    st = new_state(sp.assume); cell = st.new_cell(sp.value())
    res = ex.run(f, [('ref', cell, ()), tok], st)
    J = um.jparse(tok); okpcs = []
    tag = 'verify_claims with %d expected claims, %d validators' % (n, m)
    for s2, r in res:
        calls = [e for e in s2.log if e[0] == 'validator_call']
        if isinstance(r, Panic):
            if upper_obligation(ses, '%s: no panic (%s)' % (tag, r.msg[:50]), list(s2.pc)): ses.violation('verify_claims panics: ' + r.msg, {}, {'kind': 'c15'})
            continue
        fr, kq = sp.unchanged(s2, cell)
        if upper_obligation(ses, '%s (%s): the parser\'s expectations and validators are unchanged by a parse' % (tag, describe(r)), list(s2.pc) + [Not(fr)]):
            ses.violation('parsing changes the parser\'s configuration: the outcome for the next token depends on this one', {}, {'kind': 'c15'})
        vals = [tok] + sp.keys + sp.vkeys
        if is_ok(r):
            okpcs.append(And(*s2.pc))
            if 'c15' in which:
                rec = upper_obligation(ses, '%s: Ok only if every expected claim without a validator is present (non-null) and equal' % tag, list(s2.pc) + [Not(verdicts(sp, J))], values=vals)
                if rec: ses.violation('a token lacking an expected claim / carrying a different value is accepted', fmt_model(['payload'] + ['ek%d' % i for i in range(n)] + ['vk%d' % j for j in range(m)], rec), {'kind': 'c15'})
                if upper_obligation(ses, '%s: the returned JSON is the parsed payload' % tag, list(s2.pc) + [um.to_jv(s2, r[3][0]) != J]): ses.violation('verify_claims returns something else than the payload', {}, {'kind': 'c15'})
            if 'c16' in which:
                # every registered validator ran exactly once, with (its key, payload[key]), and said Ok
                for j, k in enumerate(sp.vkeys):
                    mine = [c for c in calls if c[1] == j]
                    if len(mine) != 1:
                        rec = upper_obligation(ses, '%s: Ok path on which validator #%d ran %d times is infeasible' % (tag, j, len(mine)), list(s2.pc), values=vals)
                        if rec: ses.violation('parse succeeds although a registered validator ran %d times (must be exactly once)' % len(mine), fmt_model(['payload'] + ['ek%d' % i for i in range(n)] + ['vk%d' % q for q in range(m)], rec), {'kind': 'c16'})
                        continue
                    c = mine[0]
                    if upper_obligation(ses, '%s: validator #%d is called with its own key and the payload\'s value for it, and returned Ok' % (tag, j),
                                        list(s2.pc) + [Not(And(c[2] == k, c[3] == um.jindex(J, k), um.validator_ok(IntVal(j), k, um.jindex(J, k))))]):
                        ses.violation('a validator is called with the wrong key/value or its error is ignored', {}, {'kind': 'c16'})
        else:
            kind = describe(r)
            if 'c15' in which and 'Missing' in kind:
                named = r[3][0][3][0][3][0] if 'ClaimError' in (r[3][0][1], r[3][0][2]) else None
                if named is not None and upper_obligation(ses, '%s: Missing(k) only for an expected k (without validator) that is null/absent in the payload' % tag,
                                                          list(s2.pc) + [Not(Or(*[And(named == k, um.jindex(J, k) == JV.Null, Not(sp.has_validator(k))) for k in sp.keys]))]):
                    ses.violation('Missing-claim error for a claim that is present', {}, {'kind': 'c15'})
            if 'c15' in which and 'PayloadJsonError' not in kind:
                # an error is justified: some expectation fails or some validator rejects
                if upper_obligation(ses, '%s: %s only when an expectation fails or a validator rejects' % (tag, kind), list(s2.pc) + [verdicts(sp, J), validators_ok(sp, J)], values=vals):
                    ses.violation('a token that satisfies every expectation and validator is rejected (%s)' % kind, {}, {'kind': 'c15'})
    # completeness: JSON parses, expectations hold, validators accept  =>  some Ok path
    if okpcs:
        if upper_obligation(ses, '%s: a payload satisfying all expectations and validators is accepted' % tag, list(sp.assume) + [um.jparse_ok(tok), verdicts(sp, J), validators_ok(sp, J), Not(Or(*okpcs))], values=[tok]):
            ses.violation('a token satisfying every expected claim and validator is not accepted', {}, {'kind': 'c15'})
        upper_ask(ses, '%s: acceptance is reachable' % tag, [Or(*okpcs)] + list(sp.assume), 'sat'); ses.witnesses.append((tag + ': Ok reachable', 'sat'))
    else: ses.undecided.append(tag + ': no Ok path')
    ses.samples.append({'query': tag, 'paths': [describe(r) for _, r in res]})
    ses.absorb(ex)


def job_parse(ses, proto, prelude, which):
    """parse(): the token, key, stored footer and assertion reach the core; a core error is returned without any validator call; the plaintext goes to verify_claims"""
    w = world(); ex = upper_executor(w); sp = SymParser(w, 1, 1); p = PROTOCOLS[proto]
    f = parse_fn(w, proto, prelude)
    tok = String('token'); Kb = Const('K', Bytes)
    st = new_state(sp.assume); cell = st.new_cell(sp.prelude_value() if prelude else sp.value())
    res = ex.run(f, [('ref', cell, ()), tok, ('ref', st.new_cell(parser_key(w, proto, Kb)), ())], st)
    tag = '%s %s::parse' % (proto, 'PasetoParser' if prelude else 'GenericParser'); n_ok = 0
    for s2, r in res:
        core = [e for e in s2.log if e[0] == 'core_parse']; calls = [e for e in s2.log if e[0] == 'validator_call']
        if isinstance(r, Panic):
            if upper_obligation(ses, '%s: no panic (%s)' % (tag, r.msg[:50]), list(s2.pc)): ses.violation(tag + ' panics: ' + r.msg, {}, {'kind': 'c15'})
            continue
        if len(core) != 1: ses.violation('%s makes %d core calls' % (tag, len(core)), {}, {'kind': 'c16', 'proto': proto}); continue
        c = core[0]
        wantA = sp.A if p['assertion'] else StringVal('')
        if upper_obligation(ses, '%s: token, key, the parser\'s footer and implicit assertion reach the matching core entry point unchanged' % tag,
                            list(s2.pc) + [Not(And(BoolVal(c[1] == proto), c[2] == tok, c[3] == Kb, c[4] == sp.F, c[5] == wantA))]):
            ses.violation('%s hands another token/key/footer/assertion (or protocol) to the core' % tag, {}, {'kind': 'c05_upper', 'proto': proto})
        acc = um.core_accepts(IntVal(um.PROTO_ID[proto]), tok, Kb, sp.F, wantA)
        plain = um.core_plain(IntVal(um.PROTO_ID[proto]), tok, Kb, sp.F, wantA)
        rejected = any(a.eq(Not(acc)) for a in s2.pc)
        if rejected:
            if calls: ses.violation('%s: a validator runs although the token did not authenticate' % tag, {}, {'kind': 'c16', 'proto': proto})
            if not (is_err(r) and 'CipherError' in (r[3][0][1], r[3][0][2])): ses.violation('%s: a core error is not returned as CipherError (%s)' % (tag, describe(r)), {}, {'kind': 'c16'})
        else:
            parses = [e for e in s2.log if e[0] == 'json_parse']
            if not parses or not parses[0][1].eq(plain): ses.violation('%s: claims are not examined on the string returned by the core' % tag, {}, {'kind': 'c16'})
            if is_ok(r): n_ok += 1
        fr, kq = sp.unchanged(s2, cell, prelude)
        for fld in getattr(sp, 'changed_extra', []):
            ses.violation('%s writes the parser field `%s`: the outcome for later tokens can depend on this one' % (tag, fld), {}, {'kind': 'c15_history', 'proto': proto})
        if upper_obligation(ses, '%s (%s): parser state unchanged' % (tag, describe(r)), list(s2.pc) + [Not(fr)]):
            ses.violation('%s changes the parser (outcome would depend on earlier parses)' % tag, {}, {'kind': 'c15'})
    if n_ok == 0: ses.undecided.append(tag + ': no Ok path')
    ses.absorb(ex)


def job_registration(ses, which):
    """check_claim / validate_claim on an arbitrary parser: the expectation (and the validator) given LAST for a key is the one in force, registrations for other
    keys stay; PasetoParser forwards to the same methods"""
    w = world(); ex = upper_executor(w)
    k = String('reg_key'); v = Const('reg_value', JV); kq = String('k_frame'); NEWV = ('user_validator', 77); n = 0
    for prelude in (False, True):
        for meth in (('check_claim',) if 'c15' in which else ()) + (('validate_claim',) if 'c16' in which else ()):
            fs = [g for g in w.fns if g.file == (PP if prelude else GP) and g.method == meth and '{closure' not in g.name]
            if len(fs) != 1: ses.undecided.append('%s::%s: %d bodies' % ('PasetoParser' if prelude else 'GenericParser', meth, len(fs))); continue
            sp = SymParser(w, 1, 1)
            st = new_state(list(sp.assume) + [Length(k) < 2**30]); cell = st.new_cell(sp.prelude_value() if prelude else sp.value())
            args = [('ref', cell, ()), ('opaque_claim', k, v)] + ([('ref', st.new_cell(NEWV), ())] if meth == 'validate_claim' else [])
            tag = '%s::%s' % ('PasetoParser' if prelude else 'GenericParser', meth)
            for s2, r in ex.run(fs[0], args, st, subst={'T': 'SymClaim', 'Version': 'v4::V4', 'Purpose': 'local::Local'}):
                if isinstance(r, Panic):
                    if upper_obligation(ses, '%s: no panic (%s)' % (tag, r.msg[:40]), list(s2.pc)): ses.violation(tag + ' panics', {}, {'kind': 'c15'})
                    continue
                n += 1
                pv = s2.store[cell]
                if prelude: pv = dict(zip(w.fields('PasetoParser'), pv[3]))['parser']
                if isinstance(pv, tuple) and len(pv) > 1 and pv[1] == 'Havocked':
                    ses.violation('%s: the body could not be encoded and was abstracted - what it registers is unknown' % tag, {}, {'kind': 'c16_registration', 'method': meth, 'prelude': prelude}); continue
                g = dict(zip(w.fields('GenericParser'), pv[3])); cl = g['claims']; vm = g['claim_validators']
                want = um.mk_obj(Store(K(S, False), k, True), Store(K(S, JV.Null), k, v))
                post = And(Select(cl[1], k), Select(cl[2], k) == want, Implies(kq != k, And(Select(cl[1], kq) == Select(sp.P, kq), Select(cl[2], kq) == Select(sp.V, kq))),
                           as_str_field(g['footer']) == sp.F, as_str_field(g['implicit_assertion']) == sp.A)
                rec = upper_obligation(ses, '%s(k, v): the expectation for k is v afterwards (replacing an earlier one), other expectations, footer and assertion untouched' % tag,
                                       list(s2.pc) + c13.mapdefs_lemmas(s2, [k, kq]) + [Not(post)], values=[k, sp.keys[0]])
                if rec: ses.violation('%s does not store the expectation it is given / disturbs another' % tag, fmt_model(['key', 'existing'], rec), {'kind': 'c15_registration', 'method': meth, 'prelude': prelude})
                # validators: the one in force for any key afterwards
                for probe, desc in ((k, 'the registered key'), (kq, 'another key')):
                    for c, val in um.vmap_lookup(vm, probe):
                        is_new = meth == 'validate_claim' and val == ('boxed', args[2])
                        old_j = [j for j in range(len(sp.vkeys)) if repr(('user_validator', j)) in repr(val)]
                        if meth == 'validate_claim' and probe is k:
                            goal = [Select(vm[1], probe), c] if not is_new else None          # a lookup of k that yields an older validator must be infeasible
                        elif probe is k: goal = [Select(vm[1], probe), c, Not(And(Select(sp.VP, probe), sp.vkeys[old_j[0]] == probe))] if old_j else [Select(vm[1], probe), c]
                        else:
                            goal = [probe != k, Select(vm[1], probe), c] if is_new else ([probe != k, Select(vm[1], probe), c, Not(And(Select(sp.VP, probe), sp.vkeys[old_j[0]] == probe))] if old_j else [probe != k, Select(vm[1], probe), c])
                        if goal is None: continue
                        rec = upper_obligation(ses, '%s: afterwards the validator in force for %s is %s' % (tag, desc, 'the one just given' if (meth == 'validate_claim' and probe is k) else 'the one it was before'),
                                               list(s2.pc) + goal, values=[k, sp.vkeys[0]])
                        if rec: ses.violation('%s: the validator in force for %s afterwards is not %s' % (tag, desc, 'the newly registered one' if (meth == 'validate_claim' and probe is k) else 'the earlier one'),
                                              fmt_model(['key', 'existing_validator_key'], rec), {'kind': 'c16_registration', 'method': meth, 'prelude': prelude})
                if meth == 'validate_claim':
                    if upper_obligation(ses, '%s: the key has a validator afterwards; presence for other keys unchanged' % tag, list(s2.pc) + [Not(And(Select(vm[1], k), Implies(kq != k, Select(vm[1], kq) == Select(sp.VP, kq))))]):
                        ses.violation('%s does not register a validator for the key / drops another' % tag, {}, {'kind': 'c16_registration', 'method': meth, 'prelude': prelude})
                else:
                    if upper_obligation(ses, '%s: validator registrations unchanged' % tag, list(s2.pc) + [Select(vm[1], kq) != Select(sp.VP, kq)]):
                        ses.violation('%s changes the validator registrations' % tag, {}, {'kind': 'c16_registration', 'method': meth, 'prelude': prelude})
    if n == 0: ses.undecided.append('registration: nothing executed')
    ses.absorb(ex)


def job_default_registrations(ses):
    """the batteries-included default parser replaces the equality check by a validator for exp and nbf ONLY: an expected claim under any other key is compared"""
    from . import c11
    w = world(); ex = upper_executor(w)
    st, parser = c11.default_parser_state(w, ex)
    pf = dict(zip(w.fields('PasetoParser'), parser[3])); g = dict(zip(w.fields('GenericParser'), pf['parser'][3]))
    keys = sorted(k.as_string() if is_string_value(k) else str(k) for k, _ in g['claim_validators'][2])
    ses.queries.append({'name': 'PasetoParser::default() registers validators for exactly {exp, nbf}', 'verdict': 'unsat' if keys == ['exp', 'nbf'] else 'sat', 'expected': 'unsat', 'solver': 'structural (value produced by executing default() from MIR)',
                        'agree': [], 'time_s': 0, 'lemma_instances': 0, 'per_solver': {}})
    if keys != ['exp', 'nbf']:
        ses.violation('PasetoParser::default() registers validators for %s: an expected claim under such a key is no longer compared with the token' % keys, {'validator_keys': keys}, {'kind': 'c15'})
    ses.absorb(ex)


def jobs_for(which, tier):
    sizes = [(0, 0), (1, 0), (2, 0), (0, 1), (1, 1), (2, 2)] if tier == 'quick' else [(0, 0), (1, 0), (2, 0), (3, 0), (1, 1), (2, 2), (3, 3), (0, 2)]
    js = [(job_verify_claims, (n, m, which)) for n, m in sizes]
    js += [(job_parse, (p, pre, which)) for p in PROTOCOLS for pre in (False, True)]
    if 'c15' in which: js.append((job_default_registrations, ()))
    js.append((job_registration, (which,)))
    return js


def run(ses):
    run_jobs(ses, jobs_for(('c15',), ses.tier))
    ses.trusted_base = TRUSTED
    ses.assumptions = ['expected claims have pairwise distinct keys; the JSON of an expected claim is {key: value}', 'parser state: any footer/assertion, n expected claims, m validators (n, m as listed in bounds)']
    ses.bounds.update({'(expected claims, validators)': '(0,0) (1,0) (2,0) (1,1) (2,2) quick; up to (3,3) thorough', 'payload': 'any string; any JSON value'})

confirm = c01.confirm
replay = c01.replay
BASELINE = ['c15', 'c15_history']
