#!/usr/bin/env python3-vt
"""Generic symbolic executor for rustc MIR text (`-Zunpretty=mir`).

Values are immutable Python objects over z3 terms; the store is a dict cell-id -> value that is
shallow-copied on forks; calls into the crate are inlined from their own MIR, calls leaving the
crate go through CONTRACTS.  Unknown syntax / unknown callees raise Unsupported (never guessed).
"""
import re, sys, itertools
from z3 import *

class Unsupported(Exception):
    pass

# integer constants of other crates that the MIR names but does not define (values checked against the vendored source by `setup`)
EXTERN_CONSTS = {'ed25519_dalek::SIGNATURE_LENGTH': 64, 'ed25519_dalek::PUBLIC_KEY_LENGTH': 32, 'ed25519_dalek::SECRET_KEY_LENGTH': 32, 'ed25519_dalek::KEYPAIR_LENGTH': 64}

import os, time as _time
from . import solve

# ----------------------------------------------------------------------------- MIR parsing
def match_paren(s, i, op='(', cl=')'):
    d = 0
    for j in range(i, len(s)):
        if s[j] == op: d += 1
        elif s[j] == cl:
            d -= 1
            if d == 0: return j
    raise Unsupported('unbalanced: ' + s)

def split_top(s, sep=','):
    out, d, cur, q = [], 0, '', False
    i = 0
    while i < len(s):
        ch = s[i]
        if q:
            cur += ch
            if ch == '\\': cur += s[i + 1]; i += 1
            elif ch == '"': q = False
        elif ch == '"': q = True; cur += ch
        elif ch in '([{<' and not (ch == '<' and s[i - 1:i] == '-'): d += 1; cur += ch
        elif ch in ')]}>' and not (ch == '>' and s[i - 1:i] in ('-', '=')): d -= 1; cur += ch
        elif ch == sep and d == 0: out.append(cur.strip()); cur = ''
        else: cur += ch
        i += 1
    if cur.strip(): out.append(cur.strip())
    return out

class Fn:
    def __init__(self, name, sig, body):
        self.name, self.sig = name, sig
        self.blocks, self.ltypes = {}, {}
        for m in re.finditer(r'^\s+let (?:mut )?(_\d+): (.*);$', body, re.M): self.ltypes[m.group(1)] = m.group(2)
        for m in re.finditer(r'^    (bb\d+)(?: \(cleanup\))?: \{\n(.*?)^    \}', body, re.S | re.M):
            self.blocks[m.group(1)] = [l.strip().rstrip(';') for l in m.group(2).strip().split('\n') if l.strip()]
        am = re.match(r'\((.*)\) -> (.*)$', sig, re.S)
        self.params = []
        if am:
            for a in split_top(am.group(1)):
                pm = re.match(r'(_\d+): (.*)', a, re.S)
                if pm: self.params.append(pm.group(1)); self.ltypes[pm.group(1)] = pm.group(2)
        m = re.search(r'<impl at (src/[^:]+):(\d+):', name)
        self.file, self.line = (m.group(1), int(m.group(2))) if m else (None, None)
        self.method = name.split('>::')[-1] if '>::' in name else name.split('::')[-1]
        self.impl = None   # (trait or None, type text)
        self.generics = []; self.method_generics = []

def load(mir_path, src_root):
    txt = open(mir_path).read()
    fns, consts = [], {}
    for m in re.finditer(r'^fn (.*?)(\(.*?\) -> .*?) \{\n(.*?)^\}', txt, re.S | re.M):
        fns.append(Fn(m.group(1), m.group(2), m.group(3)))
    for m in re.finditer(r'^const ([^\n]*?) = \{\n(.*?)^\}', txt, re.S | re.M):
        pm = re.match(r'(.*?(?:promoted\[\d+\]|\{constant#\d+\})): (.*)$', m.group(1), re.S)
        name, ty = (pm.group(1), pm.group(2)) if pm else m.group(1).rsplit(': ', 1)
        f = Fn(name, '() -> ' + ty, m.group(2)); consts[name] = f
    for m in re.finditer(r'^static ([\w:]+): ([^\n=]*?) = \{\n(.*?)^\}', txt, re.S | re.M):       # immutable statics (a `static mut` is state and stays opaque)
        f = Fn('static ' + m.group(1), '() -> ' + m.group(2).strip(), m.group(3)); consts['static ' + m.group(1).split('::')[-1]] = f
    for m in re.finditer(r'^static ([\w:]+): ([^\n=]*?) = (const [^\n]*);$', txt, re.M):
        f = Fn('static ' + m.group(1), '() -> ' + m.group(2).strip(), '    bb0: {\n        _0 = %s;\n        return;\n    }\n' % m.group(3)); consts['static ' + m.group(1).split('::')[-1]] = f
    for m in re.finditer(r'^const ([^\n=]*?): ([^\n=]*?) = (const [^\n]*);$', txt, re.M):      # constants whose initialiser is a literal are printed on one line
        f = Fn(m.group(1).strip(), '() -> ' + m.group(2).strip(), '    bb0: {\n        _0 = %s;\n        return;\n    }\n' % m.group(3)); consts[m.group(1).strip()] = f
    allocs = {}
    for m in re.finditer(r'^(alloc\d+) \(static: \w+, size: \d+, align: \d+\) \{\n\s*╾─*(alloc\d+)<imm>─*╼ ((?:[0-9a-f]{2} ){8})', txt, re.M):
        allocs[m.group(1)] = ('strptr', m.group(2), int.from_bytes(bytes(int(x, 16) for x in m.group(3).split()), 'little'))
    allocs['__static_names__'] = {m.group(1): m.group(2) for m in re.finditer(r'^(alloc\d+) \(static: (\w+), size', txt, re.M)}
    for m in re.finditer(r'^(alloc\d+) \(size: (\d+), align: \d+\) \{\n(.*?)^\}', txt, re.S | re.M):
        bs = []
        for l in m.group(3).split('\n'):
            l = l.split('│')[0]
            l = re.sub(r'^\s*0x[0-9a-f]+\s*│?', '', l)
            bs += [int(x, 16) for x in re.findall(r'\b[0-9a-f]{2}\b', l)]
        allocs[m.group(1)] = bytes(bs[:int(m.group(2))])
    import glob as _glob
    allsrc = None
    for f in fns:
        if not f.file and '{closure' not in f.name and '::' in f.name:
            if allsrc is None: allsrc = [open(x).read() for x in sorted(_glob.glob(src_root + '/src/**/*.rs', recursive=True))]
            hits = [mm for txt in allsrc for mm in re.finditer(r'\bfn\s+%s\s*<([^()]*?)>\s*\(' % re.escape(f.method), txt)]
            if len(hits) == 1:
                for g in split_top(hits[0].group(1)):
                    g = g.strip()
                    if not g.startswith("'"): f.method_generics.append(re.split(r'[:\s=]', re.sub(r'^const\s+', '', g))[0])
        if f.file:
            lines = open(src_root + '/' + f.file).read().split('\n')
            if '{closure' not in f.name:
                mm = re.search(r'\bfn\s+%s\s*<([^()]*?)>\s*\(' % re.escape(f.method), '\n'.join(lines[f.line - 1:]))
                if mm:
                    for g in split_top(mm.group(1)):
                        g = g.strip()
                        if g.startswith("'"): continue
                        f.method_generics.append(re.split(r'[:\s=]', re.sub(r'^const\s+', '', g))[0])
            hdr = ' '.join(lines[f.line - 1:f.line + 4])
            hm = re.match(r'\s*(?:unsafe\s+)?impl\s*(<[^{]*?>)?\s+(.*?)\s*(?:\bwhere\b|\{)', hdr)
            if not hm or not hdr.lstrip().startswith(('impl', 'unsafe impl')): f.impl = ('<derive>', hdr[:40]); continue
            h = hm.group(2)
            if hm.group(1):
                for g in split_top(hm.group(1)[1:-1]):
                    g = g.strip()
                    if g.startswith("'"): continue
                    g = re.sub(r'^const\s+', '', g)
                    f.generics.append(re.split(r'[:\s=]', g)[0])
            if ' for ' in h: tr, ty = h.split(' for ', 1); f.impl = (tr.strip(), ty.strip())
            else: f.impl = (None, h.strip())
    return fns, consts, allocs

# ----------------------------------------------------------------------------- places / operands
def parse_place(s):
    s = s.strip()
    p, rest = _place_prefix(s)
    if rest.strip(): raise Unsupported('place tail: ' + s)
    return p

def _place_prefix(s):
    if s[0] == '_':
        m = re.match(r'_\d+', s); p = ('local', m.group(0)); rest = s[m.end():]
    elif s[0] == '(':
        j = match_paren(s, 0); inner = s[1:j]; rest = s[j + 1:]
        if inner.startswith('*'):
            p = ('deref', parse_place(inner[1:]))
        else:
            q, r = _place_prefix(inner)
            r = r.strip()
            m = re.match(r'as (\w+)$', r)
            if m: p = ('downcast', q, m.group(1))
            else:
                m = re.match(r'\.(\d+): ', r)
                if not m: raise Unsupported('place inner: ' + s)
                p = ('field', q, int(m.group(1)))
    else:
        raise Unsupported('place: ' + s)
    while rest.startswith('['):
        j = match_paren(rest, 0, '[', ']'); idx = rest[1:j]; rest = rest[j + 1:]
        mc = re.match(r'(-?\d+) of (\d+)$', idx.strip())
        if mc: p = ('cindex', p, int(mc.group(1)), int(mc.group(2)))       # slice pattern element: `[i of n]` / `[-i of n]` (counted from the end)
        else: p = ('index', p, idx)
    return p, rest

# ----------------------------------------------------------------------------- values
UNIT = ('tup', ())
def tup(*xs): return ('tup', tuple(xs))
def adt(name, variant, *fields): return ('adt', name, variant, tuple(fields))
def some(x): return adt('Option', 'Some', x)
NONE = adt('Option', 'None')
def ok(x): return adt('Result', 'Ok', x)
def err(x): return adt('Result', 'Err', x)
Bytes = SeqSort(BitVecSort(8))

def zeros(n):
    if n == 0: return Empty(Bytes)
    if n == 1: return Unit(BitVecVal(0, 8))
    return Concat(*[Unit(BitVecVal(0, 8))] * n)

HOOKS = {'extract': None, 'len': None, 'discriminant': None, 'field': None}
CUR_STATE = [None]

class Panic:
    def __init__(self, msg): self.msg = msg
    def __repr__(self): return 'Panic(%s)' % self.msg

class State:
    def __init__(self):
        self.store, self.pc, self.log, self.stack = {}, [], [], []
        self.facts, self.dotfree = [], []
        self.known_len = {}; self.mapdefs = []; self.objdefs = []
        self.next_cell = [0]
    def fork(self):
        s = State(); s.store = dict(self.store); s.pc = list(self.pc); s.log = list(self.log)
        s.facts = list(self.facts); s.dotfree = self.dotfree; s.known_len = dict(self.known_len)
        s.mapdefs = list(self.mapdefs); s.objdefs = list(self.objdefs)
        s.stack = [dict(fr, locals=dict(fr['locals'])) for fr in self.stack]; s.next_cell = self.next_cell
        return s
    def new_cell(self, v=None):
        self.next_cell[0] += 1; c = self.next_cell[0]; self.store[c] = v; return c

def get_path(v, path):
    for step in path:
        if v is None: raise Unsupported('read of uninitialised place')
        if step[0] == 'f':
            if v[0] == 'symdc':
                r = HOOKS['field'](v[1], v[2], step[1])
                if r is None: raise Unsupported('field of symbolic variant ' + v[2])
                v = r; continue
            try:
                if v[0] == 'tup': v = v[1][step[1]]
                elif v[0] == 'adt': v = v[3][step[1]]
                elif v[0] == 'closure': v = v[2][step[1]]
                else: raise Unsupported('field of ' + str(v)[:60])
            except (IndexError, TypeError):
                raise Unsupported('field %s of a value the model keeps opaque: %s' % (step[1], str(v)[:60]))
        elif step[0] == 'dc':
            if is_expr(v) and HOOKS['field']: v = ('symdc', v, step[1]); continue
            if v[0] != 'adt' or v[2] != step[1]: raise Unsupported('downcast %s of %s' % (step[1], str(v)[:60]))
        elif step[0] == 'slice':
            v = HOOKS['extract'](CUR_STATE[0], v, step[1], step[2]) if HOOKS['extract'] else simplify(Extract(v, step[1], step[2]))
    return v

def set_path(v, path, new):
    if not path: return new
    step = path[0]
    if step[0] == 'dc': return set_path(v, path[1:], new)
    if step[0] == 'slice':
        a, n = step[1], step[2]
        if HOOKS['extract']:
            xt, ln = HOOKS['extract'], HOOKS['len']; cs = CUR_STATE[0]
            inner = set_path(xt(cs, v, a, n), path[1:], new)
            total = ln(cs, v)
            parts = [xt(cs, v, IntVal(0), a), inner, xt(cs, v, simplify(a + n), simplify(total - a - n))]
            parts = [p_ for p_ in parts if not (is_app(p_) and p_.decl().kind() == Z3_OP_SEQ_EMPTY)]
            return simplify(Concat(*parts)) if len(parts) > 1 else parts[0]
        inner = set_path(Extract(v, a, n), path[1:], new)
        return simplify(Concat(Extract(v, IntVal(0), a), inner, Extract(v, a + n, Length(v) - a - n)))
    i = step[1]
    if v is None: raise Unsupported('partial write into uninitialised value')
    if v[0] == 'tup':
        xs = list(v[1]); xs[i] = set_path(xs[i], path[1:], new); return ('tup', tuple(xs))
    if v[0] == 'adt':
        xs = list(v[3]); xs[i] = set_path(xs[i], path[1:], new); return ('adt', v[1], v[2], tuple(xs))
    raise Unsupported('field write into ' + str(v)[:60])



def path_segments(head):
    """`a::b::<T -> U>::C` -> ['a', 'b', 'C'] (generic arguments dropped; `->` inside them is not a bracket)"""
    segs, cur, d, i = [], '', 0, 0
    while i < len(head):
        ch = head[i]
        if ch == '-' and head[i + 1:i + 2] == '>': i += 2; continue
        if ch in '<([': d += 1
        elif ch in '>)]': d -= 1
        elif d == 0:
            if ch == ':' and head[i + 1:i + 2] == ':':
                if cur: segs.append(cur)
                cur = ''; i += 2; continue
            cur += ch
        i += 1
    if cur: segs.append(cur)
    return [x.strip() for x in segs if x.strip()]


# rustc prints paths in the shortest unambiguous form, which depends on what else is in scope (i.e. on the feature set): contracts are
# matched on a canonical spelling in which the std / core module prefixes of well-known types are dropped
_STD_PREFIXES = ['std::string::', 'std::option::', 'std::result::', 'std::vec::', 'std::ops::', 'std::marker::', 'std::convert::', 'std::default::', 'std::boxed::',
                 'std::borrow::', 'std::mem::', 'std::clone::', 'std::cmp::', 'core::option::', 'core::result::', 'core::ops::', 'core::convert::', 'core::marker::', 'core::clone::', 'core::cmp::', 'core::default::',
                 'std::fmt::', 'core::fmt::rt::', 'core::fmt::', 'std::slice::', 'core::slice::', 'std::str::', 'core::str::', 'core::num::', 'std::collections::', 'std::iter::', 'core::iter::', 'alloc::fmt::', 'alloc::string::', 'alloc::vec::', 'std::array::', 'core::array::']
_CANON_RE = re.compile('|'.join(re.escape(x) for x in sorted(_STD_PREFIXES, key=len, reverse=True)))
def canon_path(s): return _CANON_RE.sub('', s)

# ----------------------------------------------------------------------------- types (for impl resolution)
def strip_lifetimes(t):
    t = re.sub(r"'\w+\s*,\s*", '', t); t = re.sub(r"<'\w+>", '', t); t = re.sub(r"&'\w+ ", '&', t); t = re.sub(r"'\w+ ", '', t)
    return t

def balanced(s):
    d = 0
    for i, ch in enumerate(s):
        if ch in '<([' and not (ch == '<' and s[i - 1:i] == '-'): d += 1
        elif ch in '>)]' and not (ch == '>' and s[i - 1:i] in ('-', '=')): d -= 1
        if d < 0: return False
    return d == 0

def parse_ty(s):
    s = strip_lifetimes(s.strip()).strip()
    s = re.sub(r'^(dyn|impl) ', '', s)
    if s.startswith('&'):
        return ('ref', parse_ty(re.sub(r'^&\s*(mut )?', '', s)))
    if s.startswith('[') and s.endswith(']'):
        inner = s[1:-1]
        parts = split_top(inner, ';')
        if len(parts) == 2: return ('array', parse_ty(parts[0]), parts[1].strip())
        return ('slice', parse_ty(inner))
    if s.startswith('(') and s.endswith(')'):
        return ('tuple', [parse_ty(x) for x in split_top(s[1:-1])])
    m = re.match(r'([\w:]+?)(?:::)?<(.*)>$', s, re.S)
    if m and balanced(m.group(2)):
        return ('path', m.group(1).split('::')[-1], [parse_ty(x) for x in split_top(m.group(2))])
    if re.match(r'[\w:]+$', s): return ('path', s.split('::')[-1], [])
    return ('raw', s)

def ty_text(t):
    if t[0] == 'ref': return '&' + ty_text(t[1])
    if t[0] == 'array': return '[%s; %s]' % (ty_text(t[1]), t[2])
    if t[0] == 'slice': return '[%s]' % ty_text(t[1])
    if t[0] == 'tuple': return '(%s)' % ', '.join(ty_text(x) for x in t[1])
    if t[0] == 'path': return t[1] + ('<%s>' % ', '.join(ty_text(x) for x in t[2]) if t[2] else '')
    return t[1]

def unify(pat, ty, generics, bind, loose=False):
    """match an impl-header type (with generic parameters) against a concrete type of a call"""
    if pat[0] == 'path' and not pat[2] and pat[1] in generics:
        txt = ty_text(ty)
        if pat[1] in bind: return bind[pat[1]] == txt
        bind[pat[1]] = txt; return True
    if pat[0] == 'array' and ty[0] == 'array':
        if pat[2] in generics:
            if pat[2] in bind and bind[pat[2]] != ty[2]: return False
            bind[pat[2]] = ty[2]
        elif pat[2] != ty[2]: return False
        return unify(pat[1], ty[1], generics, bind, loose)
    if pat[0] != ty[0]: return False
    if pat[0] in ('ref', 'slice'): return unify(pat[1], ty[1], generics, bind, loose)
    if pat[0] == 'tuple': return len(pat[1]) == len(ty[1]) and all(unify(a, b, generics, bind, loose) for a, b in zip(pat[1], ty[1]))
    if pat[0] == 'path':
        if pat[1] != ty[1]:
            # const generic argument written as a number on one side
            return False
        if loose and not ty[2]: return True          # inherent call written without type arguments
        if len(pat[2]) != len(ty[2]): return False
        return all(unify(a, b, generics, bind, loose) for a, b in zip(pat[2], ty[2]))
    return pat[1] == ty[1]

# ----------------------------------------------------------------------------- executor
class Exec:
    def __init__(self, fns, consts, allocs, contracts, solver_timeout=20000):
        self.fns, self.consts, self.allocs, self.contracts = fns, consts, allocs, contracts
        self.stats = {'paths': 0, 'inlined': set(), 'contracts': set(), 'feas_checks': 0, 'bounds': {}}
        self.timeout = solver_timeout; self.quick_ms = 300; self.tolerate_unsupported = True; self.havoc_on_unsupported = True
        self.static_names = allocs.get('__static_names__', {})
        self.ih = {}; self.world_fields = None

    def fresh_id(self):
        self._fresh = getattr(self, '_fresh', 0) + 1; return self._fresh

    # --- function lookup: unification of the call's types with the impl header read from the source
    def find(self, callee):
        r = self.resolve(callee)
        return r[0] if r else None

    def resolve(self, callee):
        """-> (Fn, binding of the impl's generic parameters) or None.  Ambiguity raises Unsupported."""
        c = strip_lifetimes(callee)
        exact = [f for f in self.fns if f.name == c]
        if len(exact) == 1 and not exact[0].impl: return exact[0], {}
        cands = []
        m = re.match(r'<(.*) as ([\w:]+)(<.*>)?>::(\w+)(?:::<(.*)>)?$', c)
        if m and balanced(m.group(1)):
            selfty, tr, trargs, meth = parse_ty(m.group(1)), m.group(2).split('::')[-1], m.group(3), m.group(4)
            trargs = [parse_ty(x) for x in split_top(trargs[1:-1])] if trargs else []
            for f in self.fns:
                if f.method != meth or not f.impl or not f.impl[0] or f.impl[0] == '<derive>': continue
                itr = parse_ty(f.impl[0])
                if itr[0] != 'path' or itr[1] != tr: continue
                bind = {}
                if not unify(parse_ty(f.impl[1]), selfty, f.generics, bind): continue
                exact_tr = len(itr[2]) == len(trargs) and all(unify(x, y, f.generics, bind) for x, y in zip(itr[2], trargs))
                cands.append((exact_tr, f, bind))
            ex_ = [(f, b) for e, f, b in cands if e]
            cands = ex_ if ex_ else [(f, b) for e, f, b in cands]
            if not cands:   # default method of a crate trait
                cands = [(f, {'Self': m.group(1)}) for f in self.fns if not f.impl and f.name.endswith('::' + tr + '::' + meth)]
            if not cands and selfty[0] == 'path':   # #[derive(..)]-generated impl: the span is the derive attribute, select by the type the signature mentions
                for f in self.fns:
                    if f.method != meth or not f.impl or f.impl[0] != '<derive>': continue
                    sm = re.match(r'\((.*)\) -> (.*)$', f.sig, re.S)
                    if not sm: continue
                    tys = [parse_ty(sm.group(2))] + [parse_ty(x.split(': ', 1)[1]) for x in split_top(sm.group(1)) if ': ' in x]
                    tys = [t[1] if t[0] == 'ref' else t for t in tys]
                    if trargs and len(tys) > 1:
                        want = trargs[0][1] if trargs[0][0] == 'path' else None
                        got = tys[1][1] if tys[1][0] == 'path' else None
                        if want != got: continue
                        if not (tys[0][0] == 'path' and tys[0][1] == selfty[1]): continue
                    if any(t[0] == 'path' and t[1] == selfty[1] for t in tys[:2]):
                        bind = {}
                        t0 = next(t for t in tys if t[0] == 'path' and t[1] == selfty[1])
                        gens = [x[1] for x in t0[2] if x[0] == 'path' and not x[2] and x[1][0].isupper() and x[1] not in ('V1', 'V2', 'V3', 'V4', 'Local', 'Public')]
                        unify(t0, selfty, gens, bind)
                        cands.append((f, bind))
        else:
            m = re.match(r'(.*)::(\w+)(?:::<(.*)>)?$', c)
            if not m: return None
            path, meth = m.group(1), m.group(2)
            im = re.search(r'<impl (.*)>$', path)
            ty = im.group(1) if im else path
            if not balanced(ty): return None
            pty = parse_ty(ty.replace('::<', '<'))
            for f in self.fns:
                if f.method != meth: continue
                if f.impl and f.impl[0] is None:
                    bind = {}
                    if unify(parse_ty(f.impl[1]), pty, f.generics, bind, loose=True): cands.append((f, bind))
                elif not f.impl and (f.name == c or f.name == path + '::' + meth or f.name.endswith('::' + path + '::' + meth) or (f.name == meth and '::' not in c)):
                    cands.append((f, {}))
        if len(cands) == 1: return cands[0]
        if len(cands) > 1:
            # prefer the most specific impl (fewest generic bindings)
            cands.sort(key=lambda fb: len(fb[1]))
            if len(cands[0][1]) < len(cands[1][1]): return cands[0]
            raise Unsupported('ambiguous callee %s: %s' % (callee, [f.name for f, _ in cands]))
        return None

    # --- place / operand evaluation
    def lval(self, st, fr, p):
        if p[0] == 'local':
            if p[1] not in fr['locals']: fr['locals'][p[1]] = st.new_cell(None)
            return fr['locals'][p[1]], ()
        if p[0] == 'deref':
            c, path = self.lval(st, fr, p[1]); r = get_path(st.store[c], path)
            if is_expr(r): return st.new_cell(r), ()      # &str / &[u8] are modelled by value
            if r is None or r[0] != 'ref': raise Unsupported('deref of non-ref ' + str(r)[:80])
            return r[1], r[2]
        if p[0] in ('index', 'cindex'):
            return st.new_cell(self.read(st, fr, p)), ()      # read-only view of one element
        if p[0] == 'field':
            c, path = self.lval(st, fr, p[1]); return c, path + (('f', p[2]),)
        if p[0] == 'downcast':
            c, path = self.lval(st, fr, p[1]); return c, path + (('dc', p[2]),)
        raise Unsupported('place kind ' + p[0])
    def read(self, st, fr, p):
        if p[0] == 'cindex':
            base = self.read(st, fr, p[1])
            while isinstance(base, tuple) and base[0] == 'ref': base = get_path(st.store[base[1]], base[2])
            elems = base[1] if isinstance(base, tuple) and base[0] in ('array', 'vecstr') else None
            if elems is None: raise Unsupported('slice pattern over ' + str(base)[:60])
            i = p[2] if p[2] >= 0 else None
            if i is None:      # counted from the end: only meaningful when the length is the aggregate's own
                if base[0] != 'array': raise Unsupported('slice pattern from the end over ' + base[0])
                i = len(elems) + p[2]
            if i >= len(elems):
                if base[0] == 'vecstr': return String('late_part_%d' % self.fresh_id())
                raise Unsupported('slice pattern index %d beyond %d elements' % (i, len(elems)))
            return elems[i]
        if p[0] == 'index':
            base = self.read(st, fr, p[1]); i = self.read(st, fr, ('local', p[2]))
            while isinstance(base, tuple) and base[0] == 'ref': base = get_path(st.store[base[1]], base[2])
            while isinstance(base, tuple) and base[0] == 'adt' and len(base[3]) >= 1: base = base[3][-1]   # newtype around a byte array
            if isinstance(base, tuple) and base[0] == 'array':
                if not is_int_value(i): raise Unsupported('symbolic index into an aggregate array')
                return base[1][i.as_long()]
            if is_expr(base) and is_seq(base) and not is_string(base): return BV2Int(base[i])     # u8 element as an integer (bounds: MIR asserts)
            raise Unsupported('index into ' + str(base)[:60])
        c, path = self.lval(st, fr, p); return get_path(st.store[c], path)
    def write(self, st, fr, p, v):
        c, path = self.lval(st, fr, p); st.store[c] = set_path(st.store[c], path, v)

    def const(self, st, fr, s):
        s = s.strip()
        if s in fr.get('subst', {}) and str(fr['subst'][s]).isdigit(): return IntVal(int(fr['subst'][s]))     # const generic parameter
        if s in ('true', 'false'): return BoolVal(s == 'true')
        if s == '()': return UNIT
        m = re.match(r'(-?\d+)_(u|i)(size|8|16|32|64|128)$', s)
        if m: return IntVal(int(m.group(1)))
        m = re.match(r"'(.)'$", s)
        if m: return StringVal(m.group(1))
        m = re.match(r'"(.*)"$', s, re.S)
        if m: return StringVal(bytes(m.group(1), 'utf-8').decode('unicode_escape'))
        m = re.match(r'b"(.*)"$', s, re.S)
        if m: return ('bytes_lit', eval('b"' + m.group(1) + '"'))
        if s.startswith('ZeroSized'): return ('zst', s)
        m = re.match(r'\{(alloc\d+): &&str\}$', s)
        if m:
            a = self.allocs[m.group(1)]
            if a[0] != 'strptr': raise Unsupported('alloc const ' + s)
            c = st.new_cell(StringVal(self.allocs[a[1]][:a[2]].decode())); return ('ref', c, ())
        m = re.match(r'\{(alloc\d+): &(.*)\}$', s)
        if m:
            nm = self.static_names.get(m.group(1), m.group(1))
            ks = [k for k in self.consts if k == 'static ' + nm or k.endswith('::' + nm) and k.startswith('static ')]
            if len(ks) == 1: return ('ref', st.new_cell(self.eval_const_fn(st, self.consts[ks[0]])), ())      # an immutable static of the crate: its initialiser's MIR is evaluated
            return ('ref', st.new_cell(('extern_static', nm, m.group(2))), ())
        m = re.search(r'(\S*promoted\[\d+\])$', s)
        if m:
            # promoted constant: evaluate its body in a fresh frame (no calls expected)
            key = fr['fn'].name + '::' + m.group(1).split('::')[-1]
            key = key if key in self.consts else None
            if key is None: raise Unsupported('promoted not found: ' + s)
            return self.eval_const_fn(st, self.consts[key])
        m = re.match(r'Result::<.*>::Err\((\w+)\(\(\)\)\)$', s)
        if m: return err(adt(m.group(1), None))
        m = re.match(r'Result::<.*>::Err\((\w+)\)$', s)
        if m: return err(adt(m.group(1), None))
        m = re.match(r'(?:[\w:<>]+::)?([A-Z][A-Z0-9_]+)$', s)
        if m:      # a constant of the crate (module level or associated), possibly named without a path: evaluate its own MIR body
            ks = [k for k in self.consts if k.endswith('>::' + m.group(1)) or k.endswith('::' + m.group(1)) or k == m.group(1)]
            if len(ks) == 1: return self.eval_const_fn(st, self.consts[ks[0]])
        m = re.match(r'(?:\w+::)*([A-Z]\w*)\(\(\)\)$', s)
        if m: return adt(m.group(1), None)
        m = re.match(r'([A-Z]\w*)(::<.*>)?$', s)
        if m:
            if re.match(r'[A-Z][A-Z0-9_]+$', m.group(1)) and len(m.group(1)) > 1 and '_' in m.group(1): raise Unsupported('constant %s has no MIR body in the dump' % s)
            return adt(m.group(1), None)
        m = re.match(r'[\w:<>]+::([A-Z][A-Z0-9_]+)$', s)
        if m:      # associated / module constant of the crate: evaluate its own MIR body
            ks = [k for k in self.consts if k.endswith('>::' + m.group(1)) or k.endswith('::' + m.group(1)) or k == m.group(1)]
            if len(ks) == 1: return self.eval_const_fn(st, self.consts[ks[0]])
        if s in EXTERN_CONSTS: return IntVal(EXTERN_CONSTS[s])
        if re.match(r'[a-z_][\w]*(::\w+)+$', s): return ('extern_const', s)
        raise Unsupported('const: ' + s)
    def _prom_match(self, k, want, fr):
        # promoted[...] of the current function: same trailing `method::promoted[i]`
        return k.split('>::')[-1] == want.split('>::')[-1] and fr['fn'].method in k
    def eval_const_fn(self, st, f):
        if len(f.blocks) > 1:
            (s2, v), = self.run_sub(f, [], st)
            st.store.update(s2.store); return v
        fr = {'fn': f, 'locals': {}, 'bb': 'bb0'}
        for line in f.blocks['bb0']:
            if line == 'return': break
            self.stmt(st, fr, line)
        return self.read(st, fr, ('local', '_0'))

    def operand(self, st, fr, s):
        s = s.strip()
        if s.startswith('copy '): return self.read(st, fr, parse_place(s[5:]))
        if s.startswith('move '): return self.read(st, fr, parse_place(s[5:]))
        if s.startswith('no_retag '): return self.operand(st, fr, s[9:])
        if s.startswith('const '): return self.const(st, fr, s[6:])
        if re.match(r'[a-z_][\w:]*$', s) and any(f.method == s.split('::')[-1] and not f.impl for f in self.fns): return ('fnitem', s.split('::')[-1])
        if re.match(r'<.* as .*>::\w+(::<.*>)?$', s) or re.match(r'(?:[a-z_]\w*::)+[a-z_]\w*(::<.*>)?$', s):
            return ('pathfn', s)       # a function named by path and used as a value (`.map(String::from)`): called through the contract table / its MIR when it is applied
        m = re.match(r'(?:[a-z_]\w*::)*([A-Z]\w*)(?:::<.*?>)?(?:::([A-Z]\w*))?(?:::<.*>)?$', s)
        if m: return ('ctor', m.group(1), m.group(2))       # a tuple-struct / enum-variant constructor used as a function value (`.map(Self)`, `.map(Some)`)
        raise Unsupported('operand: ' + s)

    INT_RANGE = {'u8': (0, 2**8), 'u16': (0, 2**16), 'u32': (0, 2**32), 'u64': (0, 2**64), 'usize': (0, 2**64), 'u128': (0, 2**128),
                 'i8': (-2**7, 2**7), 'i16': (-2**15, 2**15), 'i32': (-2**31, 2**31), 'i64': (-2**63, 2**63), 'isize': (-2**63, 2**63), 'i128': (-2**127, 2**127),
                 'bool': (0, 2), 'char': (0, 0x110000)}

    def int_cast(self, fr, src_operand, v, target):
        """`x as T` between integer types: the value when T can hold every value of the source type, otherwise the two's-complement wrap (integers are mathematical
        in this encoding, so the wrap is explicit); an unknown source type is treated as the widest"""
        if target not in self.INT_RANGE: raise Unsupported('integer cast to ' + target)
        lo, hi = self.INT_RANGE[target]
        mm = re.match(r'(?:copy|move) (_\d+)$', src_operand.strip()); sty = fr['fn'].ltypes.get(mm.group(1)) if mm else None
        cm_ = re.match(r'const (-?\d+)_(\w+)$', src_operand.strip())
        if cm_: sty = cm_.group(2)
        if is_bool(v): v = If(v, IntVal(1), IntVal(0))
        if not (is_expr(v) and is_int(v)): raise Unsupported('integer cast of a non-integer value: ' + str(v)[:60])
        if sty in self.INT_RANGE:
            slo, shi = self.INT_RANGE[sty]
            if lo <= slo and shi <= hi: return v
        if is_int_value(v):
            x = v.as_long(); return IntVal((x - lo) % (hi - lo) + lo)
        self.stats['bounds']['narrowing integer casts'] = 'modelled as two\'s-complement wrap'
        return (v - lo) % (hi - lo) + lo

    def rvalue(self, st, fr, s, dest_ty=None):
        s = s.strip()
        if s.startswith(('copy ', 'move ', 'const ', 'no_retag ')):
            m = re.match(r'(.*) as (.*) \((\w+)(?:\(.*\))?\)$', s)
            if m:
                v = self.operand(st, fr, m.group(1)); kind = m.group(3)
                if kind == 'IntToInt': return self.int_cast(fr, m.group(1), v, m.group(2).strip())
                if kind in ('PointerCoercion', 'Transmute', 'PtrToPtr'): return v   # unsizing / pointer casts keep the value
                raise Unsupported('cast kind ' + kind)
            return self.operand(st, fr, s)
        if s.startswith('&'):
            t = re.sub(r'^&(raw )?(mut |const )?', '', s)
            c, path = self.lval(st, fr, parse_place(t)); return ('ref', c, path)
        m = re.match(r'discriminant\((.*)\)$', s)
        if m:
            v = self.read(st, fr, parse_place(m.group(1)))
            if is_expr(v) and HOOKS['discriminant']:
                d = HOOKS['discriminant'](v)
                if d is not None: return d
            if not isinstance(v, tuple) or v[0] != 'adt': raise Unsupported('discriminant of ' + str(v)[:60])
            return ('variant', v[1], v[2])
        m = re.match(r'PtrMetadata\((.*)\)$', s)
        if m:
            v = self.operand(st, fr, m.group(1)); return self.length(st, v)
        m = re.match(r'(Eq|Ne|Lt|Le|Gt|Ge|Add|Sub|BitAnd|Shr)\((.*)\)$', s)
        if m:
            a, b = [self.operand(st, fr, x) for x in split_top(m.group(2))]
            return {'Eq': lambda: a == b, 'Ne': lambda: a != b, 'Lt': lambda: a < b, 'Le': lambda: a <= b, 'Gt': lambda: a > b,
                    'Ge': lambda: a >= b, 'Add': lambda: a + b, 'Sub': lambda: a - b}.get(m.group(1), lambda: (_ for _ in ()).throw(Unsupported('binop ' + m.group(1))))()
        m = re.match(r'(AddWithOverflow|SubWithOverflow|MulWithOverflow)\((.*)\)$', s)
        if m:
            a, b = [self.operand(st, fr, x) for x in split_top(m.group(2))]
            r = a + b if m.group(1)[0] == 'A' else (a - b if m.group(1)[0] == 'S' else a * b)
            return tup(r, Or(r < 0, r >= 2**64))
        m = re.match(r'(Mul|Div|Rem)\((.*)\)$', s)
        if m:
            a, b = [self.operand(st, fr, x) for x in split_top(m.group(2))]      # unsigned operands (the crate has no signed arithmetic in reach); a zero divisor is excluded by the MIR assert before
            return a * b if m.group(1) == 'Mul' else (a / b if m.group(1) == 'Div' else a % b)
        m = re.match(r'(BitOr|BitXor|Shl|ShlUnchecked|ShrUnchecked|AddUnchecked|SubUnchecked|MulUnchecked|Offset|Cmp|UbChecks|NullOp|SizeOf|AlignOf|Len|CopyForDeref|ShallowInitBox|ThreadLocalRef|AddressOf)\((.*)\)$', s)
        if m: raise Unsupported('rvalue ' + m.group(1))
        m = re.match(r'Not\((.*)\)$', s)
        if m: return Not(self.operand(st, fr, m.group(1)))
        # aggregates
        if s.startswith('(') and s.endswith(')'):
            return tup(*[self.operand(st, fr, x) for x in split_top(s[1:-1])])
        m = re.match(r'\[(.*); (\w+)\]$', s)
        if m:
            x = self.operand(st, fr, m.group(1)); n = m.group(2)
            if not n.isdigit(): n = str(fr.get('subst', {}).get(n, n))
            if not n.isdigit(): raise Unsupported('repeat with symbolic length ' + n)
            if is_int_value(x): return zeros(int(n)) if x.as_long() == 0 else Concat(*[Unit(BitVecVal(x.as_long(), 8))] * int(n))
            raise Unsupported('repeat of ' + str(x))
        if s.startswith('[') and s.endswith(']'):
            return ('array', tuple(self.operand(st, fr, x) for x in split_top(s[1:-1])))
        m = re.match(r'\{closure@(.*?)\}(?: \{(.*)\})?$', s)
        if m:
            caps = tuple(self.operand(st, fr, x.split(':', 1)[1]) for x in split_top(m.group(2))) if m.group(2) else ()
            return ('closure', m.group(1), caps)
        if s.endswith(')') and not s.startswith(('copy', 'move')):        # tuple struct / enum variant constructor
            d = 0
            for i in range(len(s) - 1, -1, -1):
                if s[i] == ')': d += 1
                elif s[i] == '(':
                    d -= 1
                    if d == 0: break
            head, inner = s[:i], s[i + 1:-1]
            parts = path_segments(head)
            fields = [self.operand(st, fr, x) for x in split_top(inner)]
            if len(parts) >= 2 and parts[-2][:1].isupper():
                return adt(parts[-2], parts[-1], *fields)
            return adt(parts[-1], None, *fields)
        m = re.match(r'([\w:<>\', &]+?) \{(.*)\}$', s)               # struct literal
        if m:
            name = m.group(1)
            while True:
                n2 = re.sub(r'::<[^<>]*>', '', name); n2 = re.sub(r'<[^<>]*>', '', n2)
                if n2 == name: break
                name = n2
            name = name.split('::')[-1]
            return adt(name, None, *[self.operand(st, fr, x.split(':', 1)[1]) for x in split_top(m.group(2))])
        if re.match(r'(std::option::)?Option::<.*>::None$', s): return NONE
        m = re.match(r'([\w:]+)$', s)                                 # unit struct / fieldless variant
        if m:
            parts = s.split('::'); return adt(parts[-2], parts[-1]) if len(parts) >= 2 and parts[-2][0].isupper() else adt(parts[-1], None)
        raise Unsupported('rvalue: ' + s)

    def length(self, st, v):
        if isinstance(v, tuple) and v[0] == 'ref': v = get_path(st.store[v[1]], v[2])
        if isinstance(v, tuple) and v[0] == 'array': return IntVal(len(v[1]))
        if isinstance(v, tuple) and v[0] == 'vecstr': return v[2]
        if isinstance(v, tuple) and v[0] == 'bytes_lit': return IntVal(len(v[1]))
        if is_expr(v) and is_seq(v) and not is_string(v) and HOOKS['len']: return HOOKS['len'](st, v)
        if is_expr(v) and (is_seq(v) or is_string(v)): return Length(v)
        raise Unsupported('length of ' + str(v)[:60])

    def stmt(self, st, fr, line):
        if line.startswith(('StorageLive', 'StorageDead', 'nop', 'FakeRead', 'AscribeUserType', 'Retag', 'PlaceMention', 'Coverage', 'ConstEvalCounter')): return
        m = re.match(r'(.+?) = (.*)$', line)
        if not m: raise Unsupported('statement: ' + line)
        self.write(st, fr, parse_place(m.group(1)), self.rvalue(st, fr, m.group(2)))

    def feasible(self, st, extra=None):
        """path pruning only: a branch is dropped iff the in-process solver *proves* it infeasible;
        `unknown` keeps the branch (its path condition is carried into the final queries)."""
        if extra is not None:
            e = simplify(extra)
            if is_true(e): return True
            if is_false(e): return False
        self.stats['feas_checks'] += 1
        r = solve.quick(list(st.pc) + ([extra] if extra is not None else []), self.quick_ms)
        return r != 'unsat'

    # --- run a function to completion on all paths; yields (state, retval or Panic)
    def run(self, fn, args, st=None, subst=None):
        self._depth = getattr(self, '_depth', 0) + 1
        try: return self._run(fn, args, st, subst)
        finally: self._depth -= 1

    def _run(self, fn, args, st=None, subst=None):
        st = st or State()
        fr = {'fn': fn, 'locals': {}, 'bb': 'bb0', 'ret_to': None, 'subst': dict(subst or {})}
        for p, a in zip(fn.params, args): fr['locals'][p] = st.new_cell(a)
        st.stack.append(fr)
        work, results = [st], []
        while work:
            st = work.pop()
            try:
                for nxt in self.step_block(st):
                    if nxt[0] == 'cont': work.append(nxt[1])
                    else: results.append((nxt[1], nxt[2])); self.stats['paths'] += 1
            except Unsupported as e:
                msg = '%s  [in %s %s]' % (e, st.stack[-1]['fn'].name[-70:] if st.stack else '?', st.stack[-1]['bb'] if st.stack else '?')
                hv = self.havoc(st, msg) if self.havoc_on_unsupported else None
                if hv is not None:
                    for nxt in hv:
                        if nxt[0] == 'cont': work.append(nxt[1])
                        else: results.append((nxt[1], nxt[2])); self.stats['paths'] += 1
                    continue
                if self._depth > 1 or not self.tolerate_unsupported: raise Unsupported(msg)
                self.stats.setdefault('unsupported', []).append(msg)      # this path is abandoned and reported as undecided; the others go on
        return results

    # --- abstraction of a crate function whose body holds a construct the executor cannot encode (a data-dependent loop, an iterator adaptor over
    # symbolic bytes): the innermost enclosing crate function that only reads its arguments is replaced by "returns any value of its type, or
    # panics".  This over-approximates the function, so obligations that are still unsat hold for the real code; a sat answer is a candidate that
    # counts only if the native replay reproduces it (otherwise the check ends undecided).
    def havoc_type(self, st, ty, tag):
        ty = strip_lifetimes(ty).strip()
        n = self.stats['havoc_n'] = self.stats.get('havoc_n', 0) + 1
        nm = 'havoc%d_%s' % (n, tag)
        if ty in ('std::string::String', 'String', '&str'): return [String(nm)]
        if ty in ('Vec<u8>', 'std::vec::Vec<u8>', '&[u8]'): return [Const(nm, Bytes)]
        if ty == 'bool': return [Bool(nm)]
        if ty == '()': return [UNIT]
        if ty in ('usize', 'u64', 'u32', 'u8'):
            v = Int(nm); st.pc.append(And(v >= 0, v < 2 ** {'usize': 64, 'u64': 64, 'u32': 32, 'u8': 8}[ty])); return [v]
        if ty.split('::')[-1] in ('OffsetDateTime',): return [('instant', Int(nm), IntVal(0))]      # any instant (the model's value for time::OffsetDateTime)
        m = re.match(r'(?:std::result::|core::result::)?Result<(.*)>$', ty)
        if m:
            parts = split_top(m.group(1))
            if len(parts) == 2:
                inner = self.havoc_type(st, parts[0], tag)
                if inner is None: return None
                return [ok(x) for x in inner] + [err(adt(parts[1].strip().split('::')[-1], 'AbstractedError'))]
        return None

    def havoc(self, st, msg):
        for depth in range(len(st.stack) - 1, -1, -1):
            f = st.stack[depth]['fn']
            sig = getattr(f, 'sig', '') or ''
            if ' -> ' not in sig or '{closure' in f.name or '::{' in f.name.split('::')[-1]: continue
            rty = sig.rsplit(' -> ', 1)[1].strip()
            for gname, gty in st.stack[depth].get('subst', {}).items():
                if not gname.startswith('impl '): rty = re.sub(r'(?<![\w:])%s(?![\w])' % re.escape(gname), lambda m_: gty, rty)
            tag = re.sub(r'\W+', '_', f.method or 'fn')
            vals = self.havoc_type(st, rty, tag)
            if vals is None and rty.startswith('&mut ') and f.params and f.ltypes.get(f.params[0], '').lstrip().startswith('&mut '):
                # a setter that hands back its own `&mut self`: the returned reference is the argument, the pointee is unknown afterwards (marked below)
                r0 = st.store.get(st.stack[depth]['locals'].get(f.params[0]))
                if isinstance(r0, tuple) and r0[0] == 'ref': vals = [r0]
            if vals is None: continue
            self.stats.setdefault('abstracted', []).append('%s abstracted to "any %s, or a panic" because: %s' % (f.name[-80:], rty, msg[:300]))
            # whatever the function could reach through a `&mut` parameter is unknown afterwards: the pointee becomes a marker no later comparison equals
            muts = [p_ for p_ in f.params if f.ltypes.get(p_, '').lstrip().startswith('&mut ')]
            outs = []
            for v in vals + [Panic('abstracted function %s may panic' % (f.method or f.name[-30:]))]:
                s2 = st.fork(); del s2.stack[depth + 1:]
                for p_ in muts:
                    r_ = s2.store.get(s2.stack[depth]['locals'].get(p_))
                    if isinstance(r_, tuple) and r_[0] == 'ref':
                        n_ = self.stats['havoc_n'] = self.stats.get('havoc_n', 0) + 1
                        try: s2.store[r_[1]] = set_path(s2.store[r_[1]], r_[2], adt('Havocked', None, Int('havocked_state%d' % n_)))
                        except (IndexError, TypeError, KeyError): s2.store[r_[1]] = adt('Havocked', None, Int('havocked_state%d' % n_))      # the path does not exist in the value as modelled: the whole object is unknown
                outs += self.ret(s2, v)
            return outs
        return None

    def run_sub(self, fn, args, st, inherit_subst=False, subst=None):
        """run fn to completion from a copy of st's heap; returns [(state, value)] with the caller's stack restored"""
        sub = st.fork(); saved = sub.stack; sub.stack = []
        out = []
        sb = dict(saved[-1].get('subst', {})) if (inherit_subst and saved) else {}
        if subst: sb.update(subst)
        for s2, v in self.run(fn, args, sub, subst=sb):
            s2.stack = [dict(fr, locals=dict(fr['locals'])) for fr in saved]; out.append((s2, v))
        return out

    def ret(self, st, val):
        fr = st.stack.pop()
        if not st.stack: return [('done', st, val)]
        caller = st.stack[-1]
        if isinstance(val, Panic): return [('done', st, val)]
        self.write(st, caller, fr['ret_to'][0], val); caller['bb'] = fr['ret_to'][1]
        return [('cont', st)]

    def step_block(self, st):
        CUR_STATE[0] = st; self.stats['blocks'] = self.stats.get('blocks', 0) + 1
        fr = st.stack[-1]; fn = fr['fn']
        lines = fn.blocks[fr['bb']]
        for line in lines[:-1]: self.stmt(st, fr, line)
        t = lines[-1]
        if t == 'return': return self.ret(st, self.read(st, fr, ('local', '_0')))
        if t == 'unreachable': return []
        m = re.match(r'goto -> (bb\d+)', t)
        if m: fr['bb'] = m.group(1); return [('cont', st)]
        m = re.match(r'drop\(.*\) -> \[return: (bb\d+)', t)
        if m: fr['bb'] = m.group(1); return [('cont', st)]
        m = re.match(r'assert\((!?)(.*?), "(.*?)".*\) -> \[success: (bb\d+)', t)
        if m:
            c = self.operand(st, fr, m.group(2)); c = Not(c) if m.group(1) else c
            out = []
            if self.feasible(st, Not(c)):
                s2 = st.fork(); s2.pc.append(Not(c)); out.append(('done', s2, Panic(m.group(3))))
            if self.feasible(st, c):
                st.pc.append(c); fr['bb'] = m.group(4); out.append(('cont', st))
            return out
        m = re.match(r'switchInt\((.*?)\) -> \[(.*)\]$', t)
        if m:
            v = self.operand(st, fr, m.group(1)); arms = [a.split(':') for a in split_top(m.group(2))]
            arms = [(a[0].strip(), a[1].strip()) for a in arms]
            if isinstance(v, tuple) and v[0] == 'variant':
                idx = self.variant_index(v[1], v[2])
                tgt = dict(arms).get(str(idx), dict(arms).get('otherwise')); fr['bb'] = tgt; return [('cont', st)]
            out = []; others = []
            for k, tgt in arms:
                if k == 'otherwise': cond = And(*[Not(o) for o in others]) if others else BoolVal(True)
                else:
                    cond = (v == (int(k) != 0)) if is_bool(v) else (v == int(k)); cond = simplify(Not(v)) if is_bool(v) and k == '0' else cond
                    others.append(cond)
                if self.feasible(st, cond):
                    s2 = st.fork(); s2.pc.append(cond); s2.stack[-1]['bb'] = tgt; out.append(('cont', s2))
            return out
        # call
        m = re.match(r'(.+?) = (.*) -> \[return: (bb\d+)', t) or re.match(r'(.+?) = (.*) -> unwind', t)
        if m and m.group(2).endswith(')'):
            body = m.group(2); j = len(body) - 1; d = 0
            for i in range(len(body) - 1, -1, -1):
                if body[i] == ')': d += 1
                elif body[i] == '(':
                    d -= 1
                    if d == 0: break
            callee, argstr = body[:i], body[i + 1:-1]
            args = [self.operand(st, fr, a) for a in split_top(argstr)]
            dest = parse_place(m.group(1)); nxt = m.group(3) if m.lastindex >= 3 else None
            return self.call(st, fr, callee, args, dest, nxt)
        raise Unsupported('terminator: ' + t)

    def variant_index(self, name, variant):
        table = {'Option': ['None', 'Some'], 'Result': ['Ok', 'Err'], 'ControlFlow': ['Continue', 'Break']}
        if name in table: return table[name].index(variant)
        raise Unsupported('variant order of %s::%s' % (name, variant))

    def bind_generics(self, f, callee, bind):
        """impl generics (from unification) + the method's own generics and anonymous `impl Trait` parameters (positional)"""
        sub = dict(bind)
        c = strip_lifetimes(callee)
        mg = None
        if c.endswith('>'):
            d = 0
            for i in range(len(c) - 1, -1, -1):
                if c[i] == '>' and c[i - 1:i] not in ('-', '='): d += 1
                elif c[i] == '<' and c[i - 1:i] != '-':
                    d -= 1
                    if d == 0: break
            if c[:i].endswith('::') and re.search(r'::\w+::$', c[:i]): mg = split_top(c[i + 1:-1])
        if mg:
            names = list(f.method_generics)
            names += re.findall(r'_\d+: &?(?:mut )?(impl [^,()]*(?:<[^()]*?>)?(?: \+ \w+)*)', f.sig)
            for name, ty in zip(names, mg): sub[name] = ty
        return sub

    def subst_callee(self, fr, callee):
        for gname, gty in fr.get('subst', {}).items():
            if gname.startswith('impl '): callee = callee.replace(gname, gty)
            else: callee = re.sub(r'(?<![\w:])%s(?![\w])' % re.escape(gname), lambda m: gty, callee)
        return callee

    def call(self, st, fr, callee, args, dest, nxt):
        callee = self.subst_callee(fr, callee)
        canon = canon_path(callee)
        for pat, fnc in self.contracts:
            if re.search(pat, canon):
                self.stats['contracts'].add(fnc.__name__ + '  /' + pat + '/')
                outs = fnc(self, st, callee, args)
                res = []
                for o in outs:
                    cond, val = o[0], o[1]
                    base = o[2] if len(o) > 2 else st
                    if cond is not None and not self.feasible(base, cond): continue
                    s2 = base.fork() if (len(outs) > 1 and len(o) == 2) else base
                    if cond is not None: s2.pc.append(cond)
                    if isinstance(val, Panic): res.append(('done', s2, val)); continue
                    self.write(s2, s2.stack[-1], dest, val); s2.stack[-1]['bb'] = nxt; res.append(('cont', s2))
                return res
        r = self.resolve(callee)
        if r is None:
            # std blanket impls: TryInto/Into are TryFrom/From of the target type
            m = re.match(r'<(.*) as (Try)?Into<(.*)>>::(try_)?into$', strip_lifetimes(callee))
            if m and balanced(m.group(1)) and balanced(m.group(3)):
                alt = '<%s as %sFrom<%s>>::%sfrom' % (m.group(3), m.group(2) or '', m.group(1), m.group(4) or '')
                self.stats['contracts'].add('std blanket impl: Into/TryInto -> From/TryFrom')
                return self.call(st, fr, alt, args, dest, nxt)
        if r is None: raise Unsupported('no contract and no MIR for callee: ' + callee)
        f, bind = r
        if f.method in self.ih and not f.impl:
            # induction hypothesis for a recursive crate function (its inductive step is an obligation of its own)
            self.stats['contracts'].add('induction hypothesis for ' + f.method)
            self.write(st, fr, dest, self.ih[f.method](*args)); fr['bb'] = nxt
            return [('cont', st)]
        self.stats['inlined'].add(f.name)
        if len(st.stack) > 60: raise Unsupported('call depth > 60 at ' + callee)
        new = {'fn': f, 'locals': {}, 'bb': 'bb0', 'ret_to': (dest, nxt), 'subst': self.bind_generics(f, callee, bind)}
        for p, a in zip(f.params, args): new['locals'][p] = st.new_cell(a)
        st.stack.append(new)
        return [('cont', st)]
