"""Contracts for calls that leave the crate, used when the core layer (src/core/**) is executed from MIR.

Byte strings are `Seq (_ BitVec 8)`, text is SMT `String`, lengths/usize are mathematical integers guarded by the
MIR's own overflow assertions, cryptographic primitives are uninterpreted functions (ideal functionalities) whose
axioms are instantiated on the terms that occur in a query (see `instantiate`).  Every contract that is used in a
run is recorded in Exec.stats['contracts'] and ends up in the evidence file.
"""
import re, itertools
from z3 import *
from .mirx import *

S = StringSort()
I = IntSort()
fresh = itertools.count()

# ----------------------------------------------------------------------------- idealised functions
utf8 = Function('utf8', S, Bytes)                       # injective; String -> its UTF-8 bytes
is_utf8 = Function('is_utf8', Bytes, BoolSort())        # b is the UTF-8 encoding of some string
from_utf8_f = Function('from_utf8', Bytes, S)           # inverse on valid input
b64 = Function('b64', Bytes, S)                         # URL_SAFE_NO_PAD encode; injective; output has no '.'
b64dec_ok = Function('b64dec_ok', S, BoolSort())        # strict canonical decode succeeds
b64dec = Function('b64dec', S, Bytes)
le64 = Function('le64', I, Bytes)                       # 8 bytes, injective on [0, 2^64)
blake2b = Function('blake2b', I, Bytes, Bytes, Bytes)   # (outlen, key, data): keyed BLAKE2b-outlen
hmac384 = Function('hmac_sha384', Bytes, Bytes, Bytes)  # (key, data) -> 48 bytes
sha384 = Function('sha384', Bytes, Bytes)               # 48 bytes
hkdf384 = Function('hkdf_sha384', Bytes, Bytes, Bytes, I, Bytes)   # (salt, ikm, info, len)
ks_xchacha = Function('xchacha20_keystream', Bytes, Bytes, I, Bytes)   # (key, nonce, len)
ks_aesctr = Function('aes256ctr_keystream', Bytes, Bytes, I, Bytes)    # (key, iv, len)
xor = Function('bytes_xor', Bytes, Bytes, Bytes)
aead_enc = Function('xchacha20poly1305_encrypt', Bytes, Bytes, Bytes, Bytes, Bytes)     # (key, nonce, aad, msg) -> ct||tag
aead_dec_ok = Function('xchacha20poly1305_decrypt_ok', Bytes, Bytes, Bytes, Bytes, BoolSort())
aead_dec = Function('xchacha20poly1305_decrypt', Bytes, Bytes, Bytes, Bytes, Bytes)
ed_pk = Function('ed25519_public_of_seed', Bytes, Bytes)                # 32 -> 32
ed_pk_valid = Function('ed25519_point_ok', Bytes, BoolSort())
ed_sig = Function('ed25519_sign', Bytes, Bytes, Bytes)                  # (seed, msg) -> 64
ed_ver = Function('ed25519_verify', Bytes, Bytes, Bytes, BoolSort())    # (pk, msg, sig)
p384_sk_ok = Function('p384_scalar_ok', Bytes, BoolSort())
p384_pk = Function('p384_public_compressed_of', Bytes, Bytes)           # sk(48) -> 49 bytes SEC1 compressed
p384_point_ok = Function('p384_sec1_ok', Bytes, BoolSort())
p384_compress = Function('p384_compress', Bytes, Bytes)                 # any valid SEC1 encoding -> compressed 49 bytes
p384_sig = Function('p384_ecdsa_sign_sha384', Bytes, Bytes, Bytes)      # (sk, message that is hashed with SHA-384) -> 96
p384_sig_ok = Function('p384_sig_encoding_ok', Bytes, BoolSort())
p384_ver = Function('p384_ecdsa_verify_sha384', Bytes, Bytes, Bytes, BoolSort())   # (compressed pk, msg, sig)
rsa_key_ok = Function('rsa_pkcs8_ok', Bytes, BoolSort())
rsa_modlen = Function('rsa_modulus_len', Bytes, I)
rsa_pub = Function('rsa_public_of', Bytes, Bytes)
rsa_sig = Function('rsa_pss_sha384_sign', Bytes, Bytes, Bytes, Bytes)   # (private key, msg, salt randomness) -> sig
rsa_ver = Function('rsa_pss_sha384_verify', Bytes, Bytes, Bytes, BoolSort())       # (public key bytes, msg, sig)

FIXED_LEN = {  # function name -> fixed output length (None: computed)
    'le64': 8, 'hmac_sha384': 48, 'sha384': 48, 'ed25519_public_of_seed': 32, 'ed25519_sign': 64,
    'p384_public_compressed_of': 49, 'p384_compress': 49, 'p384_ecdsa_sign_sha384': 96,
}
INJECTIVE = ['utf8', 'b64', 'le64', 'blake2b', 'hmac_sha384', 'sha384', 'hkdf_sha384', 'xchacha20poly1305_encrypt',
             'ed25519_public_of_seed', 'p384_public_compressed_of']


def lit(b):
    if len(b) == 0: return Empty(Bytes)
    if len(b) == 1: return Unit(BitVecVal(b[0], 8))
    return Concat(*[Unit(BitVecVal(x, 8)) for x in b])


def cat(*xs):
    xs = [x for x in xs if not (is_app(x) and x.decl().kind() == Z3_OP_SEQ_EMPTY)]
    if not xs: return Empty(Bytes)
    if len(xs) == 1: return xs[0]
    return Concat(*xs)



def seq_len(st, v):
    """length of a byte-sequence term, normalised with the facts the executor knows syntactically"""
    if is_app(v):
        k = v.decl().kind()
        if k == Z3_OP_SEQ_CONCAT:
            r = IntVal(0)
            for c in v.children(): r = r + seq_len(st, c)
            return simplify(r)
        if k == Z3_OP_SEQ_UNIT: return IntVal(1)
        if k == Z3_OP_SEQ_EMPTY: return IntVal(0)
        if k == Z3_OP_UNINTERPRETED and v.num_args() > 0:
            n = v.decl().name()
            if n == 'bytes_xor': return seq_len(st, v.arg(0))
            ol = out_len(v)
            if ol is not None: return simplify(ol)
    if is_string_value(v): return IntVal(len(v.as_string()))
    kl = st.known_len.get(v.get_id()) if st is not None else None
    if kl is not None: return kl[1]
    return Length(v)


def _is_zero(e):
    e = simplify(e)
    return is_int_value(e) and e.as_long() == 0


def smart_extract(st, v, lo, n):
    """seq.extract resolved structurally when it falls on piece boundaries of a concatenation"""
    ps = _flatten_concat(simplify(v)) if is_seq(v) else [v]
    lens = [seq_len(st, p) for p in ps]
    pre = [IntVal(0)]
    for l in lens: pre.append(simplify(pre[-1] + l))
    for i in range(len(ps) + 1):
        if not _is_zero(lo - pre[i]): continue
        for j in range(i, len(ps) + 1):
            if _is_zero(n - (pre[j] - pre[i])):
                return cat(*ps[i:j]) if j > i else Empty(Bytes)
    return simplify(Extract(v, lo, n))

HOOKS['extract'] = smart_extract; HOOKS['len'] = seq_len

# ----------------------------------------------------------------------------- helpers on executor values
def deref(st, v):
    while isinstance(v, tuple) and v[0] == 'ref': v = get_path(st.store[v[1]], v[2])
    return v


def upd(st, r, v):
    # follow nested references to the cell that actually holds the value
    while True:
        cur = get_path(st.store[r[1]], r[2])
        if isinstance(cur, tuple) and cur[0] == 'ref': r = cur
        else: break
    st.store[r[1]] = set_path(st.store[r[1]], r[2], v)


def as_bytes(st, v):
    v = deref(st, v)
    if isinstance(v, tuple) and v[0] == 'adt' and len(v[3]) >= 1:
        # newtype / struct around bytes: Key(seq), Footer(str), Payload(str), PasetoNonce{.., key}, Vec ...
        for f in reversed(v[3]):
            if is_expr(f) and (is_seq(f) or is_string(f)): return as_bytes(st, f)
        for f in reversed(v[3]):
            if isinstance(f, tuple) and f[0] in ('ref', 'adt', 'bytes_lit', 'array'):
                try: return as_bytes(st, f)
                except Unsupported: pass
        raise Unsupported('as_bytes of adt ' + str(v)[:80])
    if is_expr(v) and is_string_value(v): return lit(v.as_string().encode())
    if is_expr(v) and is_string(v): return utf8(v)
    if is_expr(v) and is_seq(v): return v
    if isinstance(v, tuple) and v[0] == 'bytes_lit': return lit(v[1])
    if isinstance(v, tuple) and v[0] == 'array' and all(is_expr(x) for x in v[1]):
        return cat(*[Unit(Int2BV(x, 8)) if x.sort() == I else Unit(x) for x in v[1]])
    raise Unsupported('as_bytes of ' + str(v)[:80])


def as_str(st, v):
    v = deref(st, v)
    if is_expr(v) and is_string(v): return v
    if isinstance(v, tuple) and v[0] == 'adt':
        for f in reversed(v[3]):
            if is_expr(f) and is_string(f): return f
            if isinstance(f, tuple) and f[0] == 'ref': return as_str(st, f)
    if isinstance(v, tuple) and v[0] == 'fmtbuf': return v[1]
    raise Unsupported('as_str of ' + str(v)[:80])


def closure_fn(ex, callee_or_val):
    if isinstance(callee_or_val, tuple) and callee_or_val[0] == 'closure': span = callee_or_val[1]
    elif isinstance(callee_or_val, tuple) and callee_or_val[0] == 'zst' and 'closure@' in callee_or_val[1]: span = re.search(r'\{closure@(.*?)\}', callee_or_val[1]).group(1)
    else: span = re.search(r'\{closure@(.*?)\}', callee_or_val).group(1)
    fs = [f for f in ex.fns if '{closure#' in f.name and ('{closure@%s}' % span) in f.sig]
    if len(fs) != 1: raise Unsupported('closure body for %s: %d candidates' % (span, len(fs)))
    return fs[0]


def call_closure(ex, st, clo_val, callee, args):
    """run a closure body; returns [(state, value)]"""
    if isinstance(clo_val, tuple) and clo_val[0] == 'pathfn':
        path = ex.subst_callee(st.stack[-1], clo_val[1]) if st.stack else clo_val[1]; canon = canon_path(path)
        for pat, fnc in ex.contracts:
            if re.search(pat, canon):
                ex.stats['contracts'].add(fnc.__name__ + '  /' + pat + '/'); res = []
                outs = fnc(ex, st, path, list(args))
                for o in outs:
                    cond, val = o[0], o[1]; base = o[2] if len(o) > 2 else st
                    if cond is not None and not ex.feasible(base, cond): continue
                    s2 = base.fork() if (len(outs) > 1 and len(o) == 2) else base
                    if cond is not None: s2.pc.append(cond)
                    res.append((s2, val))
                return res
        r = ex.resolve(path)
        if r is None: raise Unsupported('function value with no contract and no MIR: ' + path)
        return ex.run_sub(r[0], list(args), st, subst=ex.bind_generics(r[0], path, r[1]))
    if isinstance(clo_val, tuple) and clo_val[0] == 'ctor': return [(st, adt(clo_val[1], clo_val[2] if len(clo_val) > 2 else None, *args))]      # a tuple-struct constructor passed as the function
    f = closure_fn(ex, clo_val if (isinstance(clo_val, tuple) and (clo_val[0] == 'closure' or (clo_val[0] == 'zst' and 'closure@' in clo_val[1]))) else callee)
    ex.stats['inlined'].add(f.name)
    env = clo_val if (isinstance(clo_val, tuple) and clo_val[0] == 'closure') else ('closure', '', ())
    first = f.sig.split(',')[0]
    if re.match(r'\(_1: &', first): env = ('ref', st.new_cell(env), ())
    return ex.run_sub(f, [env] + list(args), st, inherit_subst=True)


CONTRACTS = []
def contract(*pats):
    def deco(fn):
        for p in pats: CONTRACTS.append((canon_path(p), fn))       # patterns are written against one dump's spelling; match on the canonical one
        return fn
    return deco


def typenum(callee):
    """decode the first typenum UInt<...> in the callee text -> int"""
    m = re.search(r'((?:UInt<)+)UTerm((?:, B[01]>)+)', callee)
    if not m: raise Unsupported('typenum in ' + callee)
    bits = re.findall(r'B([01])', m.group(2))
    return int(''.join(bits), 2)


# ----------------------------------------------------------------------------- std: control flow glue
@contract(r' as Try>::branch$')
def c_try_branch(ex, st, callee, a):
    v = a[0]
    if v[1] == 'Option':
        return [(None, adt('ControlFlow', 'Continue', v[3][0]))] if v[2] == 'Some' else [(None, adt('ControlFlow', 'Break', NONE))]
    if v[2] == 'Ok': return [(None, adt('ControlFlow', 'Continue', v[3][0]))]
    return [(None, adt('ControlFlow', 'Break', err(v[3][0])))]


ERR_FROM = {  # source error type -> PasetoError variant produced by thiserror's #[from] (read from src/core/error.rs at load)
}


@contract(r' as FromResidual<.*>::from_residual$')
def c_from_residual(ex, st, callee, a):
    v = a[0]
    m = re.match(r'<Result<.*, (.*?)> as FromResidual<Result<Infallible, (.*)>>>::from_residual$', callee)
    if v[1] == 'Result' and v[2] == 'Err' and m and m.group(1).split('::')[-1] != m.group(2).split('::')[-1]:
        # `?` converting the error: run the crate's own From impl (thiserror-generated, in the MIR)
        tgt, src = m.group(1), m.group(2)
        f = ex.find('<%s as From<%s>>::from' % (tgt, src))
        if f is None:   # thiserror-generated impls carry the derive's span: select by signature
            last = lambda t: re.sub(r'<.*', '', t).split('::')[-1]
            cs = [g for g in ex.fns if g.method == 'from' and g.impl and g.impl[0] == '<derive>'
                  and re.match(r'\(_1: (.*)\) -> (.*)$', g.sig, re.S) and last(re.match(r'\(_1: (.*)\) -> (.*)$', g.sig, re.S).group(1)) == last(src)
                  and last(re.match(r'\(_1: (.*)\) -> (.*)$', g.sig, re.S).group(2)) == last(tgt)]
            f = cs[0] if len(cs) == 1 else None
        if f is None: raise Unsupported('no From<%s> for %s in the MIR' % (src, tgt))
        ex.stats['inlined'].add(f.name)
        return [(None, err(val), s2) for s2, val in ex.run_sub(f, [v[3][0]], st)]
    return [(None, v)]


@contract(r'^<impl Into<Option<', r'^<&str as Into<&str>>::into$', r'^must_use::<', r'^<str as ToOwned>::to_owned$',
          r'^<Vec<u8> as Deref(Mut)?>::deref(_mut)?$', r'^<\[u8\] as AsRef<\[u8\]>>::as_ref$', r'^<&\[u8; \d+\] as (AsRef|Into|Deref|IntoIterator)',
          r'^<GenericArray<.*> as Deref>::deref$', r'^<\[u8; \d+\] as AsRef<\[u8\]>>::as_ref$', r'^<&(mut )?\[u8(; \d+)?\] as Into<&(mut )?GenericArray<',
          r'^<Vec<u8> as AsRef<\[u8\]>>::as_ref$', r'^Vec::<u8>::as_slice$', r'^Vec::<u8>::as_mut_slice$', r'^GenericArray::<u8, .*>::as_slice$', r'^GenericArray::<u8, .*>::as_mut_slice$', r'^<GenericArray<u8, .*> as AsRef<\[u8\]>>::as_ref$', r'^<std::string::String as Deref>::deref$', r'^<std::string::String as AsRef<str>>::as_ref$',
          r'^(?:std::string::)?String::as_str$', r'^<&str as AsRef<str>>::as_ref$', r'^<str as AsRef<str>>::as_ref$', r'^<std::string::String as Clone>::clone$',
          r'^<std::string::String as From<&str>>::from$', r'^<&str as Into<std::string::String>>::into$', r'^<str as ToString>::to_string$',
          r'^<std::string::String as ToString>::to_string$', r'^<std::string::String as Into<std::string::String>>::into$',
          r'^<Vec<u8> as Clone>::clone$', r'^<sec1::point::EncodedPoint<.*> as AsRef<\[u8\]>>::as_ref$')
def c_identity(ex, st, callee, a):
    v = a[0]
    if 'String' in callee or 'str as' in callee:
        d = deref(st, v)
        if is_expr(d): return [(None, d)]
    return [(None, v)]


# ----------------------------------------------------------------------------- interior mutability: RefCell / Cell as a one-field aggregate stored in place
def _inner_ref(st, r):
    """&RefCell<T> -> reference to the value inside (the guard types Ref / RefMut are that reference; borrow flags are not modelled: a double borrow panic is outside the claim)"""
    while True:
        cur = get_path(st.store[r[1]], r[2])
        if isinstance(cur, tuple) and cur[0] == 'ref': r = cur
        else: break
    return ('ref', r[1], r[2] + (('f', 0),))


@contract(r'^(?:std::cell::|core::cell::)?RefCell::<.*>::new$', r'^(?:std::cell::|core::cell::)?Cell::<.*>::new$')
def c_refcell_new(ex, st, callee, a): return [(None, adt('RefCell', None, a[0]))]


@contract(r'^(?:std::cell::|core::cell::)?RefCell::<.*>::(borrow|borrow_mut|get_mut|try_borrow_unguarded)$', r'^(?:std::cell::|core::cell::)?Cell::<.*>::get_mut$')
def c_refcell_borrow(ex, st, callee, a): return [(None, _inner_ref(st, a[0]))]


@contract(r'^<(?:std::cell::|core::cell::)?Ref(Mut)?<.*> as Deref(Mut)?>::deref(_mut)?$')
def c_ref_guard_deref(ex, st, callee, a):
    v = a[0]
    if isinstance(v, tuple) and v[0] == 'ref':
        cur = get_path(st.store[v[1]], v[2])
        if isinstance(cur, tuple) and cur[0] == 'ref': return [(None, cur)]      # &Ref<T> -> the guard, which is the reference itself
    return [(None, v)]


# OnceCell<T> as a one-field aggregate holding Option<T> in place
@contract(r'^(?:std::cell::|core::cell::)?OnceCell::<.*>::new$')
def c_oncecell_new(ex, st, callee, a): return [(None, adt('OnceCell', None, NONE))]


@contract(r'^(?:std::cell::|core::cell::)?OnceCell::<.*>::get$', r'^(?:std::cell::|core::cell::)?OnceCell::<.*>::get_mut$')
def c_oncecell_get(ex, st, callee, a):
    r = _inner_ref(st, a[0]); cur = get_path(st.store[r[1]], r[2])
    if cur[2] == 'None': return [(None, NONE)]
    return [(None, some(('ref', r[1], r[2] + (('f', 0),))))]


@contract(r'^(?:std::cell::|core::cell::)?OnceCell::<.*>::set$')
def c_oncecell_set(ex, st, callee, a):
    r = _inner_ref(st, a[0]); cur = get_path(st.store[r[1]], r[2])
    if cur[2] != 'None': return [(None, err(a[1]))]
    st.store[r[1]] = set_path(st.store[r[1]], r[2], some(a[1])); return [(None, ok(UNIT))]


@contract(r'^(?:std::cell::|core::cell::)?OnceCell::<.*>::take$')
def c_oncecell_take(ex, st, callee, a):
    r = _inner_ref(st, a[0]); cur = get_path(st.store[r[1]], r[2]); st.store[r[1]] = set_path(st.store[r[1]], r[2], NONE); return [(None, cur)]


@contract(r'^(?:std::cell::|core::cell::)?OnceCell::<.*>::get_or_init::<')
def c_oncecell_get_or_init(ex, st, callee, a):
    r = _inner_ref(st, a[0]); cur = get_path(st.store[r[1]], r[2])
    if cur[2] != 'None': return [(None, ('ref', r[1], r[2] + (('f', 0),)))]
    outs = []
    for s2, val in call_closure(ex, st, a[1], callee, []):
        s2.store[r[1]] = set_path(s2.store[r[1]], r[2], some(val)); outs.append((None, ('ref', r[1], r[2] + (('f', 0),)), s2))
    return outs


@contract(r'^(?:std::cell::|core::cell::)?RefCell::<.*>::replace$', r'^(?:std::cell::|core::cell::)?Cell::<.*>::replace$')
def c_refcell_replace(ex, st, callee, a):
    r = _inner_ref(st, a[0]); old = get_path(st.store[r[1]], r[2]); st.store[r[1]] = set_path(st.store[r[1]], r[2], a[1]); return [(None, old)]


@contract(r'^(?:std::cell::|core::cell::)?Cell::<.*>::set$')
def c_cell_set(ex, st, callee, a):
    r = _inner_ref(st, a[0]); st.store[r[1]] = set_path(st.store[r[1]], r[2], a[1]); return [(None, UNIT)]


@contract(r'^(?:std::cell::|core::cell::)?Cell::<.*>::get$', r'^(?:std::cell::|core::cell::)?RefCell::<.*>::into_inner$')
def c_cell_get(ex, st, callee, a):
    if 'into_inner' in callee: return [(None, deref(st, a[0])[3][0])]
    r = _inner_ref(st, a[0]); return [(None, get_path(st.store[r[1]], r[2]))]


@contract(r'^<PhantomData<.*> as Clone>::clone$', r'^<&str as Clone>::clone$', r'^<&\[u8\] as Clone>::clone$', r'^<(?:std::option::)?Option<.*> as Clone>::clone$', r'^<(u8|u16|u32|u64|usize|bool) as Clone>::clone$')
def c_clone_plain(ex, st, callee, a):
    """Clone of Copy / std value types: the value behind the reference (Option<T> for the crate's Copy newtypes: a bitwise copy)"""
    return [(None, deref(st, a[0]))]


@contract(r'^(?:std::result::)?Result::<.*>::unwrap$', r'^(?:std::result::)?Result::<.*>::expect$', r'^(?:std::option::)?Option::<.*>::unwrap$', r'^(?:std::option::)?Option::<.*>::expect$')
def c_unwrap(ex, st, callee, a):
    v = a[0]
    return [(None, v[3][0])] if v[2] in ('Ok', 'Some') else [(None, Panic('unwrap/expect on ' + v[2] + ' in ' + st.stack[-1]['fn'].name[-60:]))]


@contract(r'^(?:std::result::)?Result::<.*>::is_ok$')
def c_is_ok(ex, st, callee, a): return [(None, BoolVal(deref(st, a[0])[2] == 'Ok'))]


@contract(r'^(?:std::result::)?Result::<.*>::is_err$')
def c_is_err(ex, st, callee, a): return [(None, BoolVal(deref(st, a[0])[2] == 'Err'))]


@contract(r'^(?:std::result::)?Result::<.*>::map_err::<')
def c_map_err(ex, st, callee, a):
    v = a[0]
    if v[2] == 'Ok': return [(None, v)]
    return [(None, err(val), s2) for s2, val in call_closure(ex, st, a[1], callee, [v[3][0]])]


@contract(r'^(?:std::result::)?Result::<.*>::map::<')
def c_result_map(ex, st, callee, a):
    v = a[0]
    if v[2] == 'Err': return [(None, v)]
    return [(None, ok(val), s2) for s2, val in call_closure(ex, st, a[1], callee, [v[3][0]])]


@contract(r'^(?:std::result::)?Result::<.*>::and_then::<')
def c_result_and_then(ex, st, callee, a):
    v = a[0]
    if v[2] == 'Err': return [(None, v)]
    return [(None, val, s2) for s2, val in call_closure(ex, st, a[1], callee, [v[3][0]])]


@contract(r'^(?:std::result::)?Result::<.*>::ok$')
def c_result_ok(ex, st, callee, a): return [(None, some(a[0][3][0]) if a[0][2] == 'Ok' else NONE)]


@contract(r'^(?:std::result::)?Result::<.*>::ok_or_else::<', r'^(?:std::option::)?Option::<.*>::ok_or_else::<')
def c_ok_or_else(ex, st, callee, a):
    v = a[0]
    if v[2] == 'Some': return [(None, ok(v[3][0]))]
    return [(None, err(val), s2) for s2, val in call_closure(ex, st, a[1], callee, [])]


@contract(r'^(?:std::option::)?Option::<.*>::ok_or::<')
def c_ok_or(ex, st, callee, a): return [(None, ok(a[0][3][0]) if a[0][2] == 'Some' else err(a[1]))]


@contract(r'^(?:std::option::)?Option::<.*>::map_or::<', r'^(?:std::result::)?Result::<.*>::map_or::<')
def c_map_or(ex, st, callee, a):
    v = a[0]
    if v[2] in ('None', 'Err'): return [(None, a[1])]
    return [(None, val, s2) for s2, val in call_closure(ex, st, a[2], callee, [v[3][0]])]


@contract(r'^(?:std::option::)?Option::<.*>::and_then::<')
def c_option_and_then(ex, st, callee, a):
    if a[0][2] == 'None': return [(None, NONE)]
    return [(None, val, s2) for s2, val in call_closure(ex, st, a[1], callee, [a[0][3][0]])]


@contract(r'^(?:std::option::)?Option::<.*>::is_some$')
def c_is_some(ex, st, callee, a): return [(None, BoolVal(deref(st, a[0])[2] == 'Some'))]


@contract(r'^(?:std::option::)?Option::<.*>::is_none$')
def c_is_none(ex, st, callee, a): return [(None, BoolVal(deref(st, a[0])[2] == 'None'))]


@contract(r'^(?:std::option::)?Option::<.*>::take$')
def c_option_take(ex, st, callee, a):
    v = deref(st, a[0]); upd(st, a[0], NONE); return [(None, v)]


@contract(r'^(?:std::option::)?Option::<.*>::(unwrap_or|unwrap_or_else)(::<|$)', r'^(?:std::result::)?Result::<.*>::(unwrap_or|unwrap_or_else)(::<|$)')
def c_option_unwrap_or(ex, st, callee, a):
    v = a[0]
    if v[2] in ('Some', 'Ok'): return [(None, v[3][0])]
    if 'unwrap_or_else' in callee: return [(None, val, s2) for s2, val in call_closure(ex, st, a[1], callee, [])]
    return [(None, a[1])]


@contract(r'^(?:std::option::)?Option::<.*>::get_or_insert$')
def c_option_get_or_insert(ex, st, callee, a):
    v = deref(st, a[0])
    if v[2] == 'None': upd(st, a[0], some(a[1]))
    r = a[0]
    while True:
        cur = get_path(st.store[r[1]], r[2])
        if isinstance(cur, tuple) and cur[0] == 'ref': r = cur
        else: break
    return [(None, ('ref', r[1], r[2] + (('dc', 'Some'), ('f', 0))))]


@contract(r'^(?:std::option::)?Option::<.*>::insert$')
def c_option_insert(ex, st, callee, a):
    upd(st, a[0], some(a[1])); r = a[0]
    while True:
        cur = get_path(st.store[r[1]], r[2])
        if isinstance(cur, tuple) and cur[0] == 'ref': r = cur
        else: break
    return [(None, ('ref', r[1], r[2] + (('dc', 'Some'), ('f', 0))))]


@contract(r'^(?:std::option::)?Option::<.*>::as_ref$', r'^(?:std::option::)?Option::<.*>::as_mut$')
def c_option_as_ref(ex, st, callee, a):
    v = deref(st, a[0])
    if v[2] == 'None': return [(None, NONE)]
    r = a[0]
    while True:
        cur = get_path(st.store[r[1]], r[2])
        if isinstance(cur, tuple) and cur[0] == 'ref': r = cur
        else: break
    return [(None, some(('ref', r[1], r[2] + (('dc', 'Some'), ('f', 0)))))]


@contract(r'^(?:std::option::)?Option::<.*>::(copied|cloned)$')
def c_option_copied(ex, st, callee, a):
    v = a[0]
    if v[2] == 'None': return [(None, NONE)]
    return [(None, some(deref(st, v[3][0])))]


@contract(r'^(?:std::string::)?String::new$')
def c_string_new(ex, st, callee, a): return [(None, StringVal(''))]


@contract(r'^(?:std::option::)?Option::<.*>::map::<')
def c_option_map(ex, st, callee, a):
    if a[0][2] == 'None': return [(None, NONE)]
    return [(None, some(val), s2) for s2, val in call_closure(ex, st, a[1], callee, [a[0][3][0]])]


@contract(r'^(?:std::option::)?Option::<.*>::filter::<')
def c_option_filter(ex, st, callee, a):
    if a[0][2] == 'None': return [(None, NONE)]
    x = a[0][3][0]; cell = st.new_cell(x); outs = []
    for s2, keep in call_closure(ex, st, a[1], callee, [('ref', cell, ())]):
        if is_expr(keep):
            k = simplify(keep)
            if is_true(k): outs.append((None, a[0], s2))
            elif is_false(k): outs.append((None, NONE, s2))
            else:
                s3 = s2.fork(); outs.append((k, a[0], s2)); outs.append((Not(k), NONE, s3))
        else: raise Unsupported('filter closure result ' + str(keep)[:40])
    return outs


@contract(r'^(?:std::option::)?Option::<.*>::unwrap_or_default$')
def c_unwrap_or_default(ex, st, callee, a):
    v = a[0]
    if v[2] == 'Some': return [(None, v[3][0])]
    if re.search(r'Option::<&(\'\w+ )?str>', callee) or 'Option::<std::string::String>' in callee: return [(None, StringVal(''))]
    m_ = re.search(r'Option::<(?:\w+::)*(\w+)', callee)
    if not m_: raise Unsupported('unwrap_or_default: ' + callee)
    what = m_.group(1)
    if what in ('Footer', 'ImplicitAssertion', 'Payload'): return [(None, adt(what, None, StringVal('')))]
    if what == 'str' or '&str' in callee: return [(None, StringVal(''))]
    raise Unsupported('unwrap_or_default of ' + what)


@contract(r'assert_failed')
def c_assert_failed(ex, st, callee, a): return [(None, Panic('assert_eq!/assert_ne! failed in ' + st.stack[-1]['fn'].name[-60:]))]


@contract(r'^core::num::<impl usize>::checked_add$')
def c_checked_add(ex, st, callee, a):
    r = a[0] + a[1]; return [(r < 2**64, some(r)), (r >= 2**64, NONE)]


@contract(r'RangeInclusive::<usize>::new$')
def c_range_incl_new(ex, st, callee, a): return [(None, adt('RangeInclusive', None, a[0], a[1]))]


@contract(r'^std::ops::Range::<\w+>::contains::<\w+>$')
def c_range_contains(ex, st, callee, a):
    r = deref(st, a[0]); x = deref(st, a[1]); return [(None, And(r[3][0] <= x, x < r[3][1]))]


@contract(r'RangeInclusive::<\w+>::new$')
def c_range_incl_new_any(ex, st, callee, a): return [(None, adt('RangeInclusive', None, a[0], a[1]))]


@contract(r'RangeInclusive::<\w+>::contains::<\w+>$')
def c_range_incl_contains_any(ex, st, callee, a):
    r = deref(st, a[0]); x = deref(st, a[1]); return [(None, And(r[3][0] <= x, x <= r[3][1]))]


@contract(r'RangeInclusive::<usize>::contains::<usize>$')
def c_range_incl_contains(ex, st, callee, a):
    r = deref(st, a[0]); x = deref(st, a[1]); return [(None, And(r[3][0] <= x, x <= r[3][1]))]


# ----------------------------------------------------------------------------- std: byte buffers
def _range(r, n):
    kind = r[1]
    if kind == 'RangeTo': return IntVal(0), r[3][0]
    if kind == 'Range': return r[3][0], r[3][1]
    if kind == 'RangeFrom': return r[3][0], n
    if kind == 'RangeFull': return IntVal(0), n
    raise Unsupported('range kind ' + kind)


@contract(r'^<Vec<u8> as (std::ops::)?Index(Mut)?<', r'^<\[u8; \d+\] as (std::ops::)?Index(Mut)?<', r'^<\[u8\] as (std::ops::)?Index(Mut)?<',
          r'^<GenericArray<u8, .*> as (std::ops::)?Index(Mut)?<')
def c_index_range(ex, st, callee, a):
    v = as_bytes(st, a[0]); r = a[1]; n = seq_len(st, v)
    if is_expr(r):   # single element index
        okc = And(r >= 0, r < n)
        return [(Not(okc), Panic('index out of bounds')), (okc, BV2Int(v[r]))]
    lo, hi = _range(r, n)
    okc = And(lo <= hi, hi <= n, lo >= 0)
    what = 'slice index out of range (%s) in %s' % (r[1], st.stack[-1]['fn'].name[-60:])
    if 'IndexMut' in callee:
        src = a[0]
        while True:
            cur = get_path(st.store[src[1]], src[2])
            if isinstance(cur, tuple) and cur[0] == 'ref': src = cur
            else: break
        # descend into a byte-holding newtype (Key(..)) if needed
        cur = get_path(st.store[src[1]], src[2]); path = src[2]
        while isinstance(cur, tuple) and cur[0] == 'adt':
            idx = max(i for i, f in enumerate(cur[3]) if (is_expr(f) and is_seq(f)) or (isinstance(f, tuple) and f[0] == 'adt'))
            path = path + (('f', idx),); cur = cur[3][idx]
        return [(Not(okc), Panic(what)), (okc, ('ref', src[1], path + (('slice', lo, hi - lo),)))]
    return [(Not(okc), Panic(what)), (okc, smart_extract(st, v, lo, simplify(hi - lo)))]


@contract(r'^core::slice::<impl \[u8\]>::split_at$')
def c_split_at(ex, st, callee, a):
    v = as_bytes(st, a[0]); k = a[1]; n = seq_len(st, v)
    return [(k > n, Panic('split_at: mid > len in ' + st.stack[-1]['fn'].name[-60:])),
            (k <= n, tup(smart_extract(st, v, IntVal(0), k), smart_extract(st, v, k, simplify(n - k))))]


@contract(r'^Vec::<u8>::len$', r'^core::slice::<impl \[u8\]>::len$', r'^(?:std::string::)?String::len$', r'^core::str::<impl str>::len$')
def c_len(ex, st, callee, a): return [(None, seq_len(st, as_bytes(st, a[0])))]


@contract(r'^core::slice::<impl \[u8\]>::is_empty$', r'^Vec::<u8>::is_empty$')
def c_is_empty(ex, st, callee, a): return [(None, simplify(seq_len(st, as_bytes(st, a[0])) == 0))]


@contract(r'^core::str::<impl str>::is_empty$', r'^(?:std::string::)?String::is_empty$')
def c_str_is_empty(ex, st, callee, a): return [(None, as_str(st, a[0]) == StringVal(''))]


@contract(r'copy_from_slice$')
def c_copy_from_slice(ex, st, callee, a):
    dst = as_bytes(st, a[0]); src = as_bytes(st, a[1])
    upd(st, a[0], src)
    ld, ls = seq_len(st, dst), seq_len(st, src)
    return [(simplify(ld != ls), Panic('copy_from_slice: length mismatch in ' + st.stack[-1]['fn'].name[-60:])), (simplify(ld == ls), UNIT)]


@contract(r'^std::slice::<impl \[u8\]>::to_vec$', r'^<Vec<u8> as From<&\[u8\]>>::from$', r'^<Vec<u8> as From<&\[u8; \d+\]>>::from$',
          r'^core::str::<impl str>::as_bytes$', r'^<std::string::String as AsRef<\[u8\]>>::as_ref$', r'^<str as AsRef<\[u8\]>>::as_ref$',
          r'^(?:std::string::)?String::as_bytes$', r'^(?:std::string::)?String::into_bytes$', r'^<Vec<u8> as From<&str>>::from$')
def c_to_bytes(ex, st, callee, a): return [(None, as_bytes(st, a[0]))]


@contract(r'^(?:std::vec::)?from_elem::<u8>$')
def c_from_elem(ex, st, callee, a):
    n = a[1]
    if is_int_value(n): return [(None, zeros(n.as_long()))]
    z = Const('zeros%d' % next(fresh), Bytes); st.pc.append(Length(z) == n); st.known_len[z.get_id()] = (z, simplify(n))
    return [(None, z)]


@contract(r'^Vec::<u8>::new$', r'^Vec::<u8>::with_capacity$')
def c_vec_new(ex, st, callee, a): return [(None, Empty(Bytes))]


@contract(r'^Vec::<u8>::extend_from_slice$', r'^<Vec<u8> as Extend<')
def c_extend(ex, st, callee, a):
    v = as_bytes(st, a[0]); upd(st, a[0], simplify(cat(v, as_bytes(st, a[1])))); return [(None, UNIT)]


@contract(r'^core::slice::<impl \[.*\]>::iter$')
def c_slice_iter(ex, st, callee, a): return [(None, deref(st, a[0]))]


@contract(r'^<&\[.*\] as IntoIterator>::into_iter$', r'^<&\[.*; \d+\] as IntoIterator>::into_iter$')
def c_slice_into_iter(ex, st, callee, a):
    arr = deref(st, a[0])
    if not (isinstance(arr, tuple) and arr[0] == 'array'): raise Unsupported('iteration over a slice that is not an aggregate of known length: ' + str(arr)[:50])
    ex.stats['bounds']['for loop over a piece array'] = max(ex.stats['bounds'].get('for loop over a piece array', 0), len(arr[1]))
    return [(None, ('aiter', tuple(arr[1]), 0))]


@contract(r'^<(?:std::slice::|core::slice::)?Iter<.*> as Iterator>::next$')
def c_slice_iter_next(ex, st, callee, a):
    it = deref(st, a[0])
    if isinstance(it, tuple) and it[0] == 'array': it = ('aiter', tuple(it[1]), 0)      # `.iter()` hands the aggregate itself
    if not (isinstance(it, tuple) and it[0] == 'aiter'): raise Unsupported('next() on ' + str(it)[:50])
    if it[2] >= len(it[1]): return [(None, NONE)]
    upd(st, a[0], ('aiter', it[1], it[2] + 1)); cell = st.new_cell(it[1][it[2]])
    return [(None, some(('ref', cell, ())))]


@contract(r'^<(?:std::slice::|core::slice::)?Iter<.*> as Iterator>::(find|position|any|all)::<')
def c_slice_iter_search(ex, st, callee, a):
    """find / position / any / all over an aggregate of known length with a crate closure: the closure is run on each element in order"""
    kind = re.search(r'Iterator>::(\w+)::<', callee).group(1)
    it = deref(st, a[0])
    if isinstance(it, tuple) and it[0] == 'array': it = ('aiter', tuple(it[1]), 0)
    if not (isinstance(it, tuple) and it[0] == 'aiter'): raise Unsupported('%s() over %s' % (kind, str(it)[:50]))
    elems = it[1][it[2]:]
    ex.stats['bounds']['iterator search over a table'] = max(ex.stats['bounds'].get('iterator search over a table', 0), len(elems))
    outs = []; frontier = [(st, [])]
    for i, el in enumerate(elems):
        nxt = []
        for s1, conds in frontier:
            cell = s1.new_cell(el); arg = ('ref', cell, ()) if kind == 'find' else el
            argcell = s1.new_cell(arg) if kind == 'find' else None
            for s2, b in call_closure(ex, s1, a[1], callee, [('ref', argcell, ()) if kind == 'find' else el]):
                b = b if is_expr(b) else BoolVal(bool(b))
                hit = b if kind != 'all' else Not(b)
                if not is_false(simplify(hit)):
                    res = {'find': some(('ref', cell, ())), 'position': some(IntVal(i)), 'any': BoolVal(True), 'all': BoolVal(False)}[kind]
                    outs.append((And(*(conds + [hit])) if conds + [hit] else None, res, s2.fork()))
                if not is_true(simplify(hit)): nxt.append((s2, conds + [Not(hit)]))
        frontier = nxt
    for s1, conds in frontier:
        res = {'find': NONE, 'position': NONE, 'any': BoolVal(False), 'all': BoolVal(True)}[kind]
        outs.append((And(*conds) if conds else None, res, s1))
    return outs


@contract(r'^<\{closure@.*\} as Fn(Mut|Once)?<\(.*\)>>::call(_mut|_once)?$', r'^<&\{closure@.*\} as Fn(Mut|Once)?<\(.*\)>>::call(_mut|_once)?$')
def c_direct_closure_call(ex, st, callee, a):
    """a local closure bound to a variable and called like a function"""
    clo = a[0]
    while isinstance(clo, tuple) and clo[0] == 'ref': clo = deref(st, clo)
    args = list(a[1][1]) if isinstance(a[1], tuple) and a[1][0] == 'tup' else [a[1]]
    return [(None, v, s2) for s2, v in call_closure(ex, st, clo, callee, args)]


@contract(r' as Iterator>::fold::<')
def c_fold(ex, st, callee, a):
    arr, acc = a[0], a[1]
    if not (isinstance(arr, tuple) and arr[0] == 'array'): raise Unsupported('fold over ' + str(arr)[:50])
    f = closure_fn(ex, callee); ex.stats['inlined'].add(f.name)
    ex.stats['bounds']['fold over piece array'] = max(ex.stats['bounds'].get('fold over piece array', 0), len(arr[1]))
    cur = [(st, acc)]
    for el in arr[1]:
        nxt = []
        for s1, acc1 in cur:
            cell = s1.new_cell(el)
            for s2, v in ex.run_sub(f, [('zst', 'closure'), acc1, ('ref', cell, ())], s1, inherit_subst=True): nxt.append((s2, v))
        cur = nxt
    return [(None, v, s2) for s2, v in cur]


@contract(r'^<&\[u8; (\d+)\] as TryFrom<&\[u8\]>>::try_from$', r'^<\[u8; (\d+)\] as TryFrom<&\[u8\]>>::try_from$', r'^<\[u8; (\d+)\] as TryFrom<&mut \[u8\]>>::try_from$')
def c_array_ref_try_from(ex, st, callee, a):
    n = int(re.search(r'u8; (\d+)\]', callee).group(1)); v = as_bytes(st, a[0])
    return [(Length(v) != n, err(adt('TryFromSliceError', None))), (Length(v) == n, ok(v))]


@contract(r'^GenericArray::<u8, .*>::from_slice$', r'^GenericArray::<u8, .*>::from_mut_slice$')
def c_generic_array_from_slice(ex, st, callee, a):
    n = typenum(callee); v = as_bytes(st, a[0])
    return [(Length(v) != n, Panic('GenericArray::from_slice: length != %d in %s' % (n, st.stack[-1]['fn'].name[-60:]))), (Length(v) == n, a[0] if 'mut' in callee else v)]


@contract(r'^<&\[u8\] as Into<&GenericArray<u8, ')
def c_slice_into_generic_array(ex, st, callee, a):
    n = typenum(callee); v = as_bytes(st, a[0])
    return [(Length(v) != n, Panic('<&[u8] as Into<&GenericArray>>: length != %d' % n)), (Length(v) == n, v)]


@contract(r'^ring::deprecated_constant_time::verify_slices_are_equal$', r'verify_slices_are_equal$')
def c_cteq(ex, st, callee, a):
    x, y = as_bytes(st, a[0]), as_bytes(st, a[1]); st.log.append(('compare', x, y))
    return [(x == y, ok(UNIT)), (x != y, err(adt('Unspecified', None)))]


# ----------------------------------------------------------------------------- std: strings, formatting
@contract(r'^<&?(str|std::string::String) as PartialEq(<&?(str|std::string::String)>)?>::eq$')
def c_str_eq(ex, st, callee, a): return [(None, simplify(as_str(st, a[0]) == as_str(st, a[1])))]


@contract(r'^<&?(str|std::string::String) as PartialEq(<&?(str|std::string::String)>)?>::ne$')
def c_string_ne(ex, st, callee, a): return [(None, simplify(as_str(st, a[0]) != as_str(st, a[1])))]


@contract(r'^from_utf8$', r'^core::str::from_utf8$', r'^std::str::from_utf8$')
def c_from_utf8(ex, st, callee, a):
    b = as_bytes(st, a[0]); st.log.append(('from_utf8', b))
    s = from_utf8_f(b)
    return [(And(is_utf8(b), utf8(s) == b), ok(s)), (Not(is_utf8(b)), err(adt('Utf8Error', None)))]


@contract(r'^(?:std::string::)?String::from_utf8$')
def c_string_from_utf8(ex, st, callee, a):
    b = as_bytes(st, a[0]); st.log.append(('from_utf8', b))
    s = from_utf8_f(b)
    return [(And(is_utf8(b), utf8(s) == b), ok(s)), (Not(is_utf8(b)), err(adt('FromUtf8Error', None)))]


def char_boundary(s_, i):
    """str::is_char_boundary: 0, len, or a byte that is not a UTF-8 continuation byte (10xxxxxx)"""
    b = utf8(s_); n = Length(b)
    return Or(i == 0, i == n, And(i > 0, i < n, Extract(7, 6, b[i]) != BitVecVal(2, 2)))


@contract(r'^core::str::<impl str>::is_char_boundary$')
def c_is_char_boundary(ex, st, callee, a): return [(None, char_boundary(as_str(st, a[0]), a[1]))]


@contract(r'^<str as (std::ops::)?Index<(std::ops::)?Range(To|From|Full)?<usize>>>::index$', r'^<std::string::String as (std::ops::)?Index<(std::ops::)?Range(To|From|Full)?<usize>>>::index$',
          r'^core::str::<impl str>::get::<(std::ops::)?Range(To|From)?<usize>>$')
def c_str_index(ex, st, callee, a):
    s_ = as_str(st, a[0]); b = utf8(s_); n = Length(b)
    lo, hi = _range(a[1], n)
    okc = And(lo >= 0, lo <= hi, hi <= n, char_boundary(s_, lo), char_boundary(s_, hi))
    r = String('substr%d' % next(fresh)); st.pc.append(Length(utf8(r)) < 2**40)
    res = And(okc, utf8(r) == Extract(b, lo, hi - lo))
    st.log.append(('str_index', s_, lo, hi))
    if '::get::' in callee: return [(res, some(r)), (Not(okc), NONE)]
    return [(Not(okc), Panic('byte index is out of bounds or not a char boundary (str slicing) in ' + st.stack[-1]['fn'].name[-60:])), (res, r)]


@contract(r'^core::str::<impl str>::split::<char>$')
def c_split(ex, st, callee, a): return [(None, ('split', as_str(st, a[0]), a[1]))]


def _flatten_concat(t):
    if is_app(t) and t.decl().kind() == Z3_OP_SEQ_CONCAT:
        out = []
        for c in t.children(): out += _flatten_concat(c)
        return out
    return [t]


def dotfree(t, st):
    """syntactically dot-free piece: application of b64, or a variable registered as dot-free"""
    if is_app(t) and t.decl().name() == 'b64': return True
    return any(t.eq(x) for x in st.dotfree)


@contract(r'^<std::str::Split<.*> as Iterator>::collect::<Vec<&str>>$')
def c_collect(ex, st, callee, a):
    _, tok_, sep = a[0]
    sepc = sep.as_string() if is_string_value(sep) else None
    pieces = _flatten_concat(simplify(tok_)) if sepc else None
    if pieces is not None and all(is_string_value(p) or dotfree(p, st) for p in pieces) and len(pieces) >= 1:
        # structured token: split computed structurally (b64 output and registered segments contain no separator)
        parts = [[]]
        for p in pieces:
            if is_string_value(p):
                segs = p.as_string().split(sepc)
                for i, sg in enumerate(segs):
                    if i > 0: parts.append([])
                    if sg: parts[-1].append(StringVal(sg))
            else: parts[-1].append(p)
        vals = tuple((Concat(*ps) if len(ps) > 1 else (ps[0] if ps else StringVal(''))) for ps in parts)
        st.log.append(('split', 'structured', len(vals)))
        return [(None, ('vecstr', vals, IntVal(len(vals))))]
    outs = []
    for k in (1, 2, 3, 4, 5):
        ps = [String('part%d_%d_%d' % (k, i, next(fresh))) for i in range(min(k, 4))]
        cons = [Not(Contains(p, sep)) for p in ps]
        if k < 5:
            cons.append(tok_ == (Concat(*sum([[p, sep] for p in ps], [])[:-1]) if k > 1 else ps[0])); ln = IntVal(k)
        else:
            rest = String('rest_%d' % next(fresh)); ln = Int('nparts_%d' % next(fresh))
            cons += [tok_ == Concat(*sum([[p, sep] for p in ps], []), rest), ln >= 5]
        outs.append((And(*cons), ('vecstr', tuple(ps), ln)))
    st.log.append(('split', 'generic', 0))
    ex.stats['bounds']['split part-count cases'] = '1,2,3,4,>=5'
    return outs


hex_ok = Function('hex_ok', S, BoolSort())
hexdec = Function('hexdec', S, Bytes)


@contract(r'^hex::decode::<')
def c_hex_decode(ex, st, callee, a):
    s_ = as_str(st, a[0]); x = hexdec(s_)
    return [(And(hex_ok(s_), 2 * Length(x) == Length(s_)), ok(x)), (Or(Not(hex_ok(s_)), 2 * Length(x) != Length(s_)), err(adt('FromHexError', None)))]


@contract(r'^Vec::<&str>::len$')
def c_vecstr_len(ex, st, callee, a): return [(None, deref(st, a[0])[2])]


@contract(r'^<Vec<&str> as std::ops::Index<usize>>::index$')
def c_vecstr_index(ex, st, callee, a):
    v = deref(st, a[0]); i = a[1].as_long()
    return [(v[2] <= i, Panic('index out of bounds: Vec<&str>[%d]' % i)), (v[2] > i, v[1][i] if i < len(v[1]) else String('late_part'))]


@contract(r'Argument::<.*>::new_display::<')
def c_new_display(ex, st, callee, a):
    ty = re.search(r'new_display::<(.*)>$', callee).group(1); return [(None, ('fmtarg', a[0], ty))]


@contract(r'^Arguments::<.*>::new::<')
def c_arguments_new(ex, st, callee, a): return [(None, ('fmtargs', a[0][1], deref(st, a[1])[1]))]


@contract(r'^Arguments::<.*>::from_str$', r'^Arguments::<.*>::new_const')
def c_arguments_const(ex, st, callee, a):
    v = deref(st, a[0])
    if is_expr(v): return [(None, ('fmtconst', v))]
    if isinstance(v, tuple) and v[0] == 'array' and len(v[1]) == 1: return [(None, ('fmtconst', deref(st, v[1][0])))]
    raise Unsupported('const format arguments ' + str(v)[:60])


def render(ex, st, fa):
    """interpret the format template; Display of crate types runs their own fmt MIR against a buffer cell"""
    if fa[0] == 'fmtconst': return [(st, fa[1])]
    _, tmpl, args = fa; i = 0; ai = 0; states = [(st, StringVal(''))]
    while tmpl[i] != 0:
        op = tmpl[i]
        if op < 0x80:
            lit_ = tmpl[i + 1:i + 1 + op].decode(); i += 1 + op
            states = [(s1, Concat(acc, StringVal(lit_))) for s1, acc in states]
        elif op == 0xC0:
            _, ref, ty = args[ai]; ai += 1; i += 1; nxt = []
            for s1, acc in states:
                v = deref(s1, ref)
                if is_expr(v) and is_string(v): nxt.append((s1, Concat(acc, v))); continue
                tyn = re.sub(r'^&+', '', ty)
                cal = '<%s as std::fmt::Display>::fmt' % tyn
                for g, gt in s1.stack[-1].get('subst', {}).items(): cal = re.sub(r'\b%s\b' % re.escape(g), gt, cal)
                f = ex.find(cal)
                if f is None: raise Unsupported('no Display impl for ' + cal)
                ex.stats['inlined'].add(f.name)
                buf = s1.new_cell(('fmtbuf', acc)); target = ref
                while True:
                    t_ = get_path(s1.store[target[1]], target[2])
                    if isinstance(t_, tuple) and t_[0] == 'ref': target = t_
                    else: break
                for s2, r in ex.run_sub(f, [target, ('ref', buf, ())], s1): nxt.append((s2, s2.store[buf][1]))
            states = nxt
        else: raise Unsupported('format template op %x' % op)
    return states


@contract(r'^format$', r'^std::fmt::format$', r'^alloc::fmt::format$')
def c_format(ex, st, callee, a): return [(None, simplify(acc), s1) for s1, acc in render(ex, st, a[0])]


@contract(r'^std::fmt::Formatter::<.*>::write_fmt$')
def c_write_fmt(ex, st, callee, a):
    outs = []
    for s1, acc in render(ex, st, a[1]):
        cur = deref(s1, a[0]); upd(s1, a[0], ('fmtbuf', Concat(cur[1], acc))); outs.append((None, ok(UNIT), s1))
    return outs


@contract(r'^std::fmt::Formatter::<.*>::write_str$')
def c_write_str(ex, st, callee, a):
    cur = deref(st, a[0]); upd(st, a[0], ('fmtbuf', Concat(cur[1], as_str(st, a[1])))); return [(None, ok(UNIT))]


# ----------------------------------------------------------------------------- base64
b64dec_lenient_ok = Function('b64dec_lenient_ok', S, BoolSort())    # some other (non-canonical) engine configuration
b64dec_lenient = Function('b64dec_lenient', S, Bytes)


def _engine(st, v):
    e = deref(st, v) if isinstance(v, tuple) and v[0] == 'ref' else v
    name = e[1] if isinstance(e, tuple) and e[0] in ('extern_const', 'extern_static') else str(e)[:60]
    st.log.append(('b64_engine', name))
    return name.split('::')[-1] in ('URL_SAFE_NO_PAD', 'BASE64_URL_SAFE_NO_PAD')


b64_other = Function('b64_other_engine', S, Bytes, S)     # an engine configuration other than URL_SAFE_NO_PAD: nothing is known about its output


def _b64_enc(st, eng, data):
    if _engine(st, eng): return b64(as_bytes(st, data))
    name = [e for e in st.log if e[0] == 'b64_engine'][-1][1]
    return b64_other(StringVal(name), as_bytes(st, data))


@contract(r'^<GeneralPurpose as base64::Engine>::encode::<')
def c_b64_encode(ex, st, callee, a): return [(None, _b64_enc(st, a[0], a[1]))]


@contract(r'^<GeneralPurpose as base64::Engine>::encode_string::<')
def c_b64_encode_string(ex, st, callee, a):
    cur = deref(st, a[2]); enc = _b64_enc(st, a[0], a[1])
    upd(st, a[2], enc if (is_string_value(cur) and cur.as_string() == '') else Concat(cur, enc)); return [(None, UNIT)]


@contract(r'^(?:std::string::)?String::push_str$', r'^(?:std::string::)?String::push$', r'^<std::string::String as std::ops::AddAssign<&str>>::add_assign$')
def c_string_push(ex, st, callee, a):
    cur = deref(st, a[0]); x = as_str(st, a[1])
    upd(st, a[0], x if (is_string_value(cur) and cur.as_string() == '') else simplify(Concat(cur, x))); return [(None, UNIT)]


@contract(r'^(?:std::string::)?String::clear$')
def c_string_clear(ex, st, callee, a): upd(st, a[0], StringVal('')); return [(None, UNIT)]


@contract(r'^(?:std::string::)?String::with_capacity$')
def c_string_with_capacity(ex, st, callee, a): return [(None, StringVal(''))]


from_utf8_lossy_f = Function('from_utf8_lossy', Bytes, S)      # total; equals from_utf8 on valid input (not needed by any obligation so far)


@contract(r'^(?:std::string::)?String::from_utf8_lossy$')
def c_from_utf8_lossy(ex, st, callee, a): return [(None, from_utf8_lossy_f(as_bytes(st, a[0])))]


@contract(r'^<(?:std::borrow::)?Cow<.*str> as (Deref|AsRef<str>|ToString|Into<std::string::String>|Clone)>::(deref|as_ref|to_string|into|clone)$', r'^(?:std::borrow::)?Cow::<.*str>::(into_owned|to_mut)$')
def c_cow_str(ex, st, callee, a):
    d = deref(st, a[0]); return [(None, d if is_expr(d) else a[0])]


@contract(r'^core::num::<impl (usize|u64|u32|u8)>::saturating_sub$')
def c_saturating_sub(ex, st, callee, a): return [(None, If(a[0] >= a[1], a[0] - a[1], IntVal(0)))]


@contract(r'^core::num::<impl (usize|u64|u32|u8)>::checked_sub$')
def c_checked_sub(ex, st, callee, a): return [(a[0] >= a[1], some(a[0] - a[1])), (a[0] < a[1], NONE)]


@contract(r'^core::num::<impl (usize|u64|u32|u8)>::(min|max)$', r'^<(usize|u64|u32|u8) as Ord>::(min|max)$', r'^(?:std::cmp::|core::cmp::)?(min|max)::<(usize|u64|u32|u8)>$')
def c_minmax(ex, st, callee, a):
    mn = 'min' in callee.split('::')[-1] or callee.split('::<')[0].endswith('min')
    return [(None, If(a[0] <= a[1], a[0], a[1]) if mn else If(a[0] >= a[1], a[0], a[1]))]


@contract(r'^core::num::<impl usize>::div_ceil$', r'^usize::div_ceil$')
def c_div_ceil(ex, st, callee, a):
    return [(a[1] == 0, Panic('attempt to divide by zero')), (a[1] != 0, (a[0] + a[1] - 1) / a[1])]


@contract(r'^<T as AsRef<\[u8\]>>::as_ref$')
def c_generic_as_ref_bytes(ex, st, callee, a):
    # the type parameter of a trait's provided method, unresolved in the MIR of the default body: every implementor in reach is str / String / [u8] / Vec<u8>
    return [(None, as_bytes(st, a[0]))]


@contract(r'^<GeneralPurpose as base64::Engine>::decode::<')
def c_b64_decode(ex, st, callee, a):
    s_ = as_str(st, a[1])
    if not _engine(st, a[0]):
        # unknown engine configuration: nothing is known about what it accepts; what it accepts of a canonical encoding decodes to the encoded bytes
        st.log.append(('b64dec', s_, b64dec_lenient(s_)))
        return [(b64dec_lenient_ok(s_), ok(b64dec_lenient(s_))), (Not(b64dec_lenient_ok(s_)), err(adt('DecodeError', None)))]
    if is_app(s_) and s_.decl().name() == 'b64':       # decode(b64(x)) = Ok(x): inverse contract applied directly
        return [(None, ok(s_.arg(0)))]
    st.log.append(('b64dec', s_, b64dec(s_)))
    return [(b64dec_ok(s_), ok(b64dec(s_))), (Not(b64dec_ok(s_)), err(adt('DecodeError', None)))]


# ----------------------------------------------------------------------------- crate-specific shortcuts (summaries checked by Kani leaves)
@contract(r'PreAuthenticationEncoding::le64$')
def c_le64(ex, st, callee, a):
    st.pc.append(Length(le64(a[0])) == 8); return [(None, le64(a[0]))]


# ----------------------------------------------------------------------------- BLAKE2b MAC (blake2 crate)
@contract(r'^<Blake2bMac<.*> as (KeyInit|Mac)>::new_from_slice$')
def c_blake_new(ex, st, callee, a):
    n = typenum(callee); k = as_bytes(st, a[0])
    return [(Length(k) > 64, err(adt('InvalidLength', None))), (Length(k) <= 64, ok(adt('Blake2bMac', None, IntVal(n), k, Empty(Bytes))))]


@contract(r'^<Blake2bMac<.*> as (Update|Mac)>::update$')
def c_blake_update(ex, st, callee, a):
    m = deref(st, a[0]); upd(st, a[0], adt('Blake2bMac', None, m[3][0], m[3][1], simplify(cat(m[3][2], as_bytes(st, a[1]))))); return [(None, UNIT)]


def _blake_out(st, m):
    out = blake2b(m[3][0], m[3][1], m[3][2]); st.pc.append(Length(out) == m[3][0]); st.log.append(('mac', 'blake2b', m[3][1], m[3][2], out))
    return out


@contract(r'^<Blake2bMac<.*> as FixedOutput>::finalize_fixed$')
def c_blake_final(ex, st, callee, a): return [(None, _blake_out(st, deref(st, a[0])))]


@contract(r'^<Blake2bMac<.*> as FixedOutput>::finalize_into$')
def c_blake_final_into(ex, st, callee, a):
    out = _blake_out(st, deref(st, a[0])); dst = as_bytes(st, a[1]); upd(st, a[1], out)
    return [(Length(dst) != Length(out), Panic('finalize_into: output buffer length')), (Length(dst) == Length(out), UNIT)]


# ----------------------------------------------------------------------------- HMAC-SHA384 / SHA-384 (hmac, sha2 crates)
@contract(r'^<CoreWrapper<HmacCore<.*OidSha384>>>> as (Mac|KeyInit)>::new_from_slice$')
def c_hmac_new(ex, st, callee, a): return [(None, ok(adt('HmacSha384', None, as_bytes(st, a[0]), Empty(Bytes))))]


@contract(r'^<CoreWrapper<HmacCore<.*OidSha384>>>> as (Mac|Update)>::update$')
def c_hmac_update(ex, st, callee, a):
    m = deref(st, a[0]); upd(st, a[0], adt('HmacSha384', None, m[3][0], simplify(cat(m[3][1], as_bytes(st, a[1]))))); return [(None, UNIT)]


@contract(r'^<CoreWrapper<HmacCore<.*OidSha384>>>> as Mac>::finalize$')
def c_hmac_final(ex, st, callee, a):
    m = deref(st, a[0]); out = hmac384(m[3][0], m[3][1]); st.pc.append(Length(out) == 48); st.log.append(('mac', 'hmac384', m[3][0], m[3][1], out))
    return [(None, out)]


@contract(r'^CtOutput::<.*>::into_bytes$')
def c_ctoutput_into_bytes(ex, st, callee, a): return [(None, a[0])]


@contract(r'^<CoreWrapper<CtVariableCoreWrapper<Sha512VarCore, .*OidSha384>> as (Default>::default|blake2::Digest>::new|sha2::Digest>::new|Digest>::new)$')
def c_sha_new(ex, st, callee, a): return [(None, adt('Sha384', None, Empty(Bytes)))]


@contract(r'^<CoreWrapper<CtVariableCoreWrapper<Sha512VarCore, .*OidSha384>> as (blake2::Digest|sha2::Digest|Digest|Update)>::update')
def c_sha_update(ex, st, callee, a):
    m = deref(st, a[0]); upd(st, a[0], adt('Sha384', None, simplify(cat(m[3][0], as_bytes(st, a[1]))))); return [(None, UNIT)]


# ----------------------------------------------------------------------------- HKDF-SHA384 (ring)
@contract(r'^Salt::new$')
def c_salt_new(ex, st, callee, a):
    alg = deref(st, a[0]) if isinstance(a[0], tuple) and a[0][0] == 'ref' else a[0]
    name = alg[1] if isinstance(alg, tuple) and alg[0] == 'extern_static' else str(alg)
    if name != 'HKDF_SHA384': raise Unsupported('HKDF algorithm %s (only HKDF_SHA384 is modelled)' % name)
    st.log.append(('hkdf_alg', name))
    return [(None, adt('Salt', None, name, as_bytes(st, a[1])))]


@contract(r'^Salt::extract$')
def c_salt_extract(ex, st, callee, a):
    s_ = deref(st, a[0]); return [(None, adt('Prk', None, s_[3][0], s_[3][1], as_bytes(st, a[1])))]


@contract(r'^Prk::expand::<')
def c_prk_expand(ex, st, callee, a):
    prk = deref(st, a[0]); info = deref(st, a[1]); lt = a[2]
    if not (isinstance(info, tuple) and info[0] == 'array'): raise Unsupported('hkdf info ' + str(info)[:50])
    infob = cat(*[as_bytes(st, x) for x in info[1]])
    n = lt[3][0] if isinstance(lt, tuple) and lt[0] == 'adt' else lt
    # ring: expand fails iff len > 255 * hash_len
    return [(n > 255 * 48, err(adt('Unspecified', None))), (n <= 255 * 48, ok(adt('Okm', None, prk[3][1], prk[3][2], infob, n, lt)))]


@contract(r'^Okm::<.*>::len$')
def c_okm_len(ex, st, callee, a): return [(None, ('ref', st.new_cell(deref(st, a[0])[3][4]), ()))]


@contract(r'^Okm::<.*>::fill$')
def c_okm_fill(ex, st, callee, a):
    o = deref(st, a[0]); out = hkdf384(o[3][0], o[3][1], o[3][2], o[3][3]); dst = as_bytes(st, a[1])
    st.pc.append(Length(out) == o[3][3]); st.log.append(('kdf', 'hkdf384', o[3][0], o[3][1], o[3][2], out))
    upd(st, a[1], out)
    return [(Length(dst) != o[3][3], err(adt('Unspecified', None))), (Length(dst) == o[3][3], ok(UNIT))]


# ----------------------------------------------------------------------------- stream ciphers / AEAD
@contract(r'^<StreamCipherCoreWrapper<XChaChaCore<.*>> as KeyIvInit>::new$')
def c_xchacha_new(ex, st, callee, a): return [(None, adt('StreamCipher', None, 'xchacha20', as_bytes(st, a[0]), as_bytes(st, a[1])))]


@contract(r'^<Aes256Ctr as NewCipher>::new$')
def c_aesctr_new(ex, st, callee, a): return [(None, adt('StreamCipher', None, 'aes256ctr', as_bytes(st, a[0]), as_bytes(st, a[1])))]


@contract(r' as (chacha20::cipher::|aes::cipher::)?StreamCipher>::apply_keystream$')
def c_apply_keystream(ex, st, callee, a):
    c = deref(st, a[0]); buf = as_bytes(st, a[1])
    f = ks_xchacha if c[3][0] == 'xchacha20' else ks_aesctr
    k = f(c[3][1], c[3][2], Length(buf)); st.log.append(('keystream', c[3][0], c[3][1], c[3][2], buf))
    out = xor(buf, k); st.pc.append(Length(out) == Length(buf)); upd(st, a[1], out); return [(None, UNIT)]


@contract(r'^<ChaChaPoly1305<.*> as KeyInit>::new_from_slice$')
def c_aead_new(ex, st, callee, a):
    k = as_bytes(st, a[0])
    return [(Length(k) != 32, err(adt('InvalidLength', None))), (Length(k) == 32, ok(adt('XChaCha20Poly1305', None, k)))]


def _aead_payload(st, p):
    p = deref(st, p)
    if isinstance(p, tuple) and p[0] == 'adt' and p[1] == 'Payload' and len(p[3]) == 2: return as_bytes(st, p[3][0]), as_bytes(st, p[3][1])
    raise Unsupported('aead payload ' + str(p)[:60])


@contract(r'^<ChaChaPoly1305<.*> as Aead>::encrypt::<')
def c_aead_encrypt(ex, st, callee, a):
    c = deref(st, a[0]); n = as_bytes(st, a[1]); msg, aad = _aead_payload(st, a[2])
    out = aead_enc(c[3][0], n, aad, msg); st.pc.append(Length(out) == Length(msg) + 16)
    st.log.append(('aead_enc', c[3][0], n, aad, msg, out))
    return [(None, ok(out))]


@contract(r'^<ChaChaPoly1305<.*> as Aead>::decrypt::<')
def c_aead_decrypt(ex, st, callee, a):
    c = deref(st, a[0]); n = as_bytes(st, a[1]); ct, aad = _aead_payload(st, a[2])
    okc = aead_dec_ok(c[3][0], n, aad, ct); m = aead_dec(c[3][0], n, aad, ct)
    st.log.append(('aead_dec', c[3][0], n, aad, ct))
    return [(And(okc, Length(m) + 16 == Length(ct)), ok(m)), (Not(okc), err(adt('AeadError', None)))]


# ----------------------------------------------------------------------------- Ed25519 (ed25519-dalek)
@contract(r'^SigningKey::from_keypair_bytes$')
def c_ed_from_keypair(ex, st, callee, a):
    kp = as_bytes(st, a[0]); seed = Extract(kp, 0, 32); pub = Extract(kp, 32, 32)
    good = And(Length(kp) == 64, pub == ed_pk(seed))
    return [(good, ok(adt('EdSigningKey', None, seed))), (Not(good), err(adt('SignatureError', None)))]


@contract(r'^VerifyingKey::from_bytes$')
def c_ed_vk_from_bytes(ex, st, callee, a):
    b = as_bytes(st, a[0])
    return [(ed_pk_valid(b), ok(adt('EdVerifyingKey', None, b))), (Not(ed_pk_valid(b)), err(adt('SignatureError', None)))]


@contract(r'^<SigningKey as Signer<ed25519_dalek::Signature>>::sign$')
def c_ed_sign(ex, st, callee, a):
    k = deref(st, a[0]); msg = as_bytes(st, a[1]); s = ed_sig(k[3][0], msg); st.pc.append(Length(s) == 64)
    st.log.append(('sign', 'ed25519', k[3][0], msg, s)); return [(None, adt('EdSignature', None, s))]


@contract(r'^ed25519_dalek::Signature::to_bytes$')
def c_ed_sig_to_bytes(ex, st, callee, a): return [(None, deref(st, a[0])[3][0])]


@contract(r'^<ed25519_dalek::Signature as TryFrom<&\[u8\]>>::try_from$')
def c_ed_sig_try_from(ex, st, callee, a):
    b = as_bytes(st, a[0])
    return [(Length(b) != 64, err(adt('SignatureError', None))), (Length(b) == 64, ok(adt('EdSignature', None, b)))]


@contract(r'^<VerifyingKey as Verifier<ed25519_dalek::Signature>>::verify$')
def c_ed_verify(ex, st, callee, a):
    vk = deref(st, a[0]); msg = as_bytes(st, a[1]); sg = deref(st, a[2])[3][0]
    c = ed_ver(vk[3][0], msg, sg); st.log.append(('verify', 'ed25519', vk[3][0], msg, sg))
    return [(c, ok(UNIT)), (Not(c), err(adt('SignatureError', None)))]


# ----------------------------------------------------------------------------- ECDSA P-384 (p384 crate)
@contract(r'^ecdsa::signing::SigningKey::<NistP384>::from_bytes$')
def c_p384_sk_from_bytes(ex, st, callee, a):
    b = as_bytes(st, a[0]); good = And(Length(b) == 48, p384_sk_ok(b))
    return [(good, ok(adt('P384SigningKey', None, b))), (Not(good), err(adt('SignatureError', None)))]


@contract(r'^<ecdsa::verifying::VerifyingKey<NistP384> as From<&ecdsa::signing::SigningKey<NistP384>>>::from$')
def c_p384_vk_from_sk(ex, st, callee, a):
    sk = deref(st, a[0]); pk = p384_pk(sk[3][0]); st.pc.append(Length(pk) == 49); return [(None, adt('P384VerifyingKey', None, pk))]


@contract(r'^ecdsa::verifying::VerifyingKey::<NistP384>::to_encoded_point$', r'^<p384::elliptic_curve::PublicKey<NistP384> as ToEncodedPoint<NistP384>>::to_encoded_point$')
def c_p384_to_encoded_point(ex, st, callee, a):
    k = deref(st, a[0]); compress = a[1]
    if not (is_expr(compress) and is_true(simplify(compress))): raise Unsupported('to_encoded_point(compress = %s)' % compress)
    return [(None, k[3][0])]


@contract(r'^p384::elliptic_curve::PublicKey::<NistP384>::from_sec1_bytes$')
def c_p384_pk_from_sec1(ex, st, callee, a):
    b = as_bytes(st, a[0]); c = p384_compress(b); st.pc.append(Length(c) == 49)
    return [(p384_point_ok(b), ok(adt('P384PublicKey', None, c))), (Not(p384_point_ok(b)), err(adt('EcError', None)))]


@contract(r'^ecdsa::verifying::VerifyingKey::<NistP384>::from_sec1_bytes$')
def c_p384_vk_from_sec1(ex, st, callee, a):
    b = as_bytes(st, a[0]); c = p384_compress(b); st.pc.append(Length(c) == 49)
    return [(p384_point_ok(b), ok(adt('P384VerifyingKey', None, c))), (Not(p384_point_ok(b)), err(adt('SignatureError', None)))]


@contract(r'^<ecdsa::Signature<NistP384> as TryFrom<&\[u8\]>>::try_from$')
def c_p384_sig_try_from(ex, st, callee, a):
    b = as_bytes(st, a[0]); good = And(Length(b) == 96, p384_sig_ok(b))
    return [(good, ok(adt('P384Signature', None, b))), (Not(good), err(adt('SignatureError', None)))]


@contract(r'^ecdsa::Signature::<NistP384>::to_bytes$')
def c_p384_sig_to_bytes(ex, st, callee, a): return [(None, deref(st, a[0])[3][0])]


@contract(r'^<ecdsa::signing::SigningKey<NistP384> as DigestSigner<.*>>::try_sign_digest$')
def c_p384_sign_digest(ex, st, callee, a):
    sk = deref(st, a[0]); d = deref(st, a[1]); s = p384_sig(sk[3][0], d[3][0]); st.pc.append(And(Length(s) == 96, p384_sig_ok(s)))
    st.log.append(('sign', 'p384', sk[3][0], d[3][0], s))
    return [(None, ok(adt('P384Signature', None, s)))]


@contract(r'^<ecdsa::verifying::VerifyingKey<NistP384> as DigestVerifier<.*>>::verify_digest$')
def c_p384_verify_digest(ex, st, callee, a):
    vk = deref(st, a[0]); d = deref(st, a[1]); sg = deref(st, a[2])[3][0]
    c = p384_ver(vk[3][0], d[3][0], sg); st.log.append(('verify', 'p384', vk[3][0], d[3][0], sg))
    return [(c, ok(UNIT)), (Not(c), err(adt('SignatureError', None)))]


# ----------------------------------------------------------------------------- RSA-PSS (ring)
@contract(r'^ring::rsa::KeyPair::from_pkcs8$')
def c_rsa_from_pkcs8(ex, st, callee, a):
    b = as_bytes(st, a[0])
    return [(rsa_key_ok(b), ok(adt('RsaKeyPair', None, b))), (Not(rsa_key_ok(b)), err(adt('KeyRejected', None)))]


@contract(r'^SystemRandom::new$')
def c_system_random_new(ex, st, callee, a): return [(None, adt('SystemRandom', None))]


@contract(r'^ring::rsa::KeyPair::sign$')
def c_rsa_sign(ex, st, callee, a):
    kp = deref(st, a[0]); msg = as_bytes(st, a[3]); dst = as_bytes(st, a[4])
    r = Const('rsa_salt%d' % next(fresh), Bytes); st.log.append(('rng', r))
    s = rsa_sig(kp[3][0], msg, r); good = Length(dst) == rsa_modlen(kp[3][0])
    st.log.append(('sign', 'rsa', kp[3][0], msg, s))
    s2 = st.fork()
    upd(st, a[4], s); st.pc.append(Length(s) == Length(dst))
    return [(good, ok(UNIT), st), (Not(good), err(adt('Unspecified', None)), s2)]


@contract(r'^ring::signature::UnparsedPublicKey::<.*>::new$')
def c_unparsed_pk_new(ex, st, callee, a): return [(None, adt('UnparsedPublicKey', None, str(a[0])[-60:], as_bytes(st, a[1])))]


@contract(r'^ring::signature::UnparsedPublicKey::<.*>::verify$')
def c_unparsed_pk_verify(ex, st, callee, a):
    pk = deref(st, a[0]); msg = as_bytes(st, a[1]); sg = as_bytes(st, a[2])
    c = rsa_ver(pk[3][1], msg, sg); st.log.append(('verify', 'rsa', pk[3][1], msg, sg, pk[3][0]))
    return [(c, ok(UNIT)), (Not(c), err(adt('Unspecified', None)))]


# ----------------------------------------------------------------------------- RNG (ring)
@contract(r'^<SystemRandom as SecureRandom>::fill$')
def c_rng_fill(ex, st, callee, a):
    dst = as_bytes(st, a[1]); r = Const('rng%d' % next(fresh), Bytes)
    s2 = st.fork()
    st.pc.append(Length(r) == Length(dst)); st.log.append(('rng', r)); upd(st, a[1], r)
    return [(None, ok(UNIT), st), (None, err(adt('Unspecified', None)), s2)]


# ----------------------------------------------------------------------------- axiom instantiation over the terms of a query
def _walk(terms):
    seen = {}; stack = list(terms)
    while stack:
        t = stack.pop()
        if t.get_id() in seen: continue
        seen[t.get_id()] = t
        if is_app(t): stack.extend(t.children())
        elif is_quantifier(t): stack.append(t.body())
    return seen.values()


def applications(terms):
    apps = {}
    for t in _walk(terms):
        if is_app(t) and t.num_args() > 0 and t.decl().kind() == Z3_OP_UNINTERPRETED:
            apps.setdefault(t.decl().name(), []).append(t)
    return apps


def out_len(t):
    n = t.decl().name()
    if n in FIXED_LEN: return IntVal(FIXED_LEN[n])
    if n == 'blake2b': return t.arg(0)
    if n == 'hkdf_sha384': return t.arg(3)
    if n in ('xchacha20_keystream', 'aes256ctr_keystream'): return t.arg(2)
    if n == 'bytes_xor': return Length(t.arg(0))
    if n == 'xchacha20poly1305_encrypt': return Length(t.arg(3)) + 16
    return None


def instantiate(assertions, honest=None, secret_keys=(), rounds=2):
    """ground instances of the idealisation axioms for every application occurring in `assertions`.

    honest: dict with lists of honest-party oracle queries ('mac': [(name, key, data, out)], 'sign': [...], 'aead': [...])
    Returns (lemmas, count).  Applied repeatedly (rounds) because lemmas introduce new applications."""
    lem = []; seen_keys = set()
    def add(l):
        k = l.get_id()
        if k not in seen_keys: seen_keys.add(k); lem.append(l)
    cur = list(assertions)
    for _ in range(rounds):
        apps = applications(cur + lem)
        for name, ts in apps.items():
            for t in ts:
                ol = out_len(t)
                if ol is not None: add(Length(t) == ol)
            if name in INJECTIVE:
                for x, y in itertools.combinations(ts, 2):
                    add(Implies(x == y, And(*[x.arg(i) == y.arg(i) for i in range(x.num_args())])))
        for t in apps.get('utf8', []):
            add(is_utf8(t)); add(from_utf8_f(t) == t.arg(0)); add(Length(t) >= Length(t.arg(0))); add(Length(t) <= 4 * Length(t.arg(0)))
            add((Length(t) == 0) == (t.arg(0) == StringVal('')))
        for t in apps.get('from_utf8', []):
            add(Implies(is_utf8(t.arg(0)), utf8(t) == t.arg(0)))
        for t in apps.get('b64', []):
            add(Not(Contains(t, StringVal('.')))); add(b64dec_ok(t)); add(b64dec(t) == t.arg(0))
            add((t == StringVal('')) == (Length(t.arg(0)) == 0)); add(Length(t.arg(0)) <= Length(t)); add(Length(t) <= 2 * Length(t.arg(0)) + 2)      # ceil(4n/3) <= 2n + 2
        for t in apps.get('b64dec_lenient', []) + apps.get('b64dec_lenient_ok', []):
            x = t.arg(0)
            add(Length(b64dec_lenient(x)) <= Length(x))
            # an engine configuration the model does not know: whether it takes the canonical unpadded text at all is unknown (a padding-required engine does not);
            # if it does, it yields the encoded bytes
            if is_app(x) and x.decl().name() == 'b64': add(Implies(b64dec_lenient_ok(x), b64dec_lenient(x) == x.arg(0)))
        for t in apps.get('b64dec', []):
            add(Length(t) <= Length(t.arg(0)))
            add(Implies(b64dec_ok(t.arg(0)), b64(t) == t.arg(0)))
        for t in apps.get('b64dec_ok', []):
            add(Implies(t, b64(b64dec(t.arg(0))) == t.arg(0)))
        # xor with a keystream: involution and cancellation
        xs = apps.get('bytes_xor', [])
        for x in xs:
            add(Length(x.arg(1)) == Length(x.arg(0)) if False else BoolVal(True))
        for x, y in itertools.permutations(xs, 2):
            # y = xor(x, k) with the same k  ==>  y = x.arg(0)
            add(Implies(And(y.arg(0) == x, y.arg(1) == x.arg(1)), y == x.arg(0)))
        for x, y in itertools.combinations(xs, 2):
            add(Implies(And(x == y, x.arg(1) == y.arg(1)), x.arg(0) == y.arg(0)))
        # AEAD: correctness, and a successful decryption is the encryption of its result
        encs, decs = apps.get('xchacha20poly1305_encrypt', []), apps.get('xchacha20poly1305_decrypt_ok', [])
        for d in decs:
            k, n, aad, ct = d.children()
            add(Implies(d, ct == aead_enc(k, n, aad, aead_dec(k, n, aad, ct))))
            for e in encs:
                add(Implies(And(e.arg(0) == k, e.arg(1) == n, e.arg(2) == aad, e == ct), And(d, aead_dec(k, n, aad, ct) == e.arg(3))))
        # signatures: correctness
        for s in apps.get('ed25519_sign', []):
            add(ed_ver(ed_pk(s.arg(0)), s.arg(1), s)); add(ed_pk_valid(ed_pk(s.arg(0))))
        for s in apps.get('p384_ecdsa_sign_sha384', []):
            pk = p384_pk(s.arg(0))
            add(Implies(p384_sk_ok(s.arg(0)), And(p384_ver(pk, s.arg(1), s), p384_sig_ok(s), p384_point_ok(pk), p384_compress(pk) == pk)))
        for s in apps.get('rsa_pss_sha384_sign', []):
            add(Implies(rsa_key_ok(s.arg(0)), And(rsa_ver(rsa_pub(s.arg(0)), s.arg(1), s), Length(s) == rsa_modlen(s.arg(0)))))
        for c in apps.get('p384_compress', []):
            add(Implies(p384_point_ok(c.arg(0)), And(p384_point_ok(c), p384_compress(c) == c)))
    return lem


def unforgeability(assertions, honest, attacker_terms, mac_lengths=(32, 48)):
    """F_MAC / F_SIG / INT-CTXT instances.

    honest['mac']  = [(fname, key, data)] MAC/PRF queries made by the honest party under the secret key
    honest['sign'] = [(scheme, pk_term, msg)]
    honest['aead'] = [(key, nonce, aad, ct_term)]
    attacker_terms = byte-sequence terms under the adversary's control (P'); the MAC axiom is stated on every
    full-length seq.extract window of those terms occurring in the query and on the terms themselves."""
    lem = []
    apps = applications(assertions)
    windows = []
    for t in _walk(assertions):
        if is_app(t) and t.decl().kind() == Z3_OP_SEQ_EXTRACT and any(_mentions(t, a) for a in attacker_terms): windows.append(t)
    windows += list(attacker_terms)
    macs = [t for n in ('blake2b', 'hmac_sha384') for t in apps.get(n, [])]
    hk = honest.get('mac_keys', [])
    for m in macs:
        key = m.arg(1) if m.decl().name() == 'blake2b' else m.arg(0)
        data = m.arg(2) if m.decl().name() == 'blake2b' else m.arg(1)
        if not any(key.eq(k) for k in hk): continue          # only MACs keyed with a key derived from the secret key
        hq = [q for q in honest.get('mac', []) if q[0] == m.decl().name()]
        for w in windows:
            if any(w.eq(q[3]) for q in hq): continue
            lem.append(Implies(And(w == m, Length(w) == Length(m)), Or(*[And(key == q[1], data == q[2]) for q in hq]) if hq else BoolVal(False)))
    # the same idealisation on what the code actually compares: if one side of a comparison is (syntactically) a full MAC
    # application under a secret-derived key, equality means the other side is the output of an honest query on (key, data).
    # A comparison of truncated values is not of this form and gets no instance - acceptance is then unconstrained.
    for x, y in honest.get('compares', []):
        for m, w in ((x, y), (y, x)):
            if not (is_app(m) and m.decl().kind() == Z3_OP_UNINTERPRETED and m.decl().name() in ('blake2b', 'hmac_sha384')): continue
            key = m.arg(1) if m.decl().name() == 'blake2b' else m.arg(0)
            data = m.arg(2) if m.decl().name() == 'blake2b' else m.arg(1)
            if not any(key.eq(k) for k in hk): continue
            hq = [q for q in honest.get('mac', []) if q[0] == m.decl().name()]
            lem.append(Implies(w == m, Or(*[And(key == q[1], data == q[2]) for q in hq]) if hq else BoolVal(False)))
    for v in [t for n in ('ed25519_verify', 'p384_ecdsa_verify_sha384', 'rsa_pss_sha384_verify') for t in apps.get(n, [])]:
        hq = [q for q in honest.get('sign', []) if q[0] == v.decl().name()]
        pks = []
        for q in hq + [(v.decl().name(), pk, None) for pk in honest.get('honest_pks', [])]:
            if not any(q[1].eq(x) for x in pks): pks.append(q[1])
        for pk in pks:     # a signature that verifies under the honest public key was produced by the honest signer for that very message
            mine = [q for q in hq if q[1].eq(pk)]
            lem.append(Implies(And(v, v.arg(0) == pk), Or(*[v.arg(1) == q[2] for q in mine]) if mine else BoolVal(False)))
    for d in apps.get('xchacha20poly1305_decrypt_ok', []):
        hq = honest.get('aead', [])
        if not any(d.arg(0).eq(k) for k in honest.get('aead_keys', [])): continue
        lem.append(Implies(d, Or(*[And(d.arg(0) == q[0], d.arg(1) == q[1], d.arg(2) == q[2], d.arg(3) == q[3]) for q in hq]) if hq else BoolVal(False)))
    return lem


def _mentions(t, a):
    for x in _walk([t]):
        if x.eq(a): return True
    return False


# ----------------------------------------------------------------------------- further API surface seen in plausible rewrites
@contract(r'^<Vec<&str> as Deref>::deref$', r'^Vec::<&str>::as_slice$')
def c_vecstr_deref(ex, st, callee, a): return [(None, a[0])]


@contract(r'^<impl \[&str\]>::get::<usize>$', r'^Vec::<&str>::get::<usize>$')
def c_vecstr_get(ex, st, callee, a):
    v = deref(st, a[0]); i = a[1]
    if not (isinstance(v, tuple) and v[0] == 'vecstr') or not is_int_value(i): raise Unsupported('get on ' + str(v)[:40])
    i = i.as_long(); c = st.new_cell(v[1][i] if i < len(v[1]) else String('late_part%d' % next(fresh)))
    return [(v[2] > i, some(('ref', c, ()))), (v[2] <= i, NONE)]


@contract(r'^<impl \[&str\]>::len$', r'^<impl \[&str\]>::is_empty$')
def c_vecstr_slice_len(ex, st, callee, a):
    v = deref(st, a[0]); return [(None, v[2] if callee.endswith('len') else v[2] == 0)]


@contract(r'^GeneralPurposeConfig::new$', r'^GeneralPurposeConfig::with_', r'^GeneralPurpose::new$', r'^base64::engine::GeneralPurpose::new$', r'^base64::engine::GeneralPurposeConfig::')
def c_custom_b64_engine(ex, st, callee, a): return [(None, ('extern_const', 'custom base64 engine built by ' + callee.split('::')[-1]))]
