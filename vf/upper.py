"""Generic / prelude layer drivers (filled in progressively)."""

def roundtrip_jobs(protos, tier):
    return []

def panic_jobs(tier):
    return []

def tamper_jobs(tier):
    return []

def key_jobs(tier): return []
def footer_jobs(tier): return []
def assertion_jobs(tier): return []
def confusion_jobs(tier): return []
def spec_jobs(tier): return []
