"""Upper-layer (generic / prelude) clauses of the core properties C01-C09: which jobs each property adds on top of its core-layer queries."""
from z3 import *
from .upperprops import *


def job_builder_dataflow(ses, proto, prelude):
    """build / try_encrypt / try_sign: the caller's key, the builder's footer and implicit assertion reach the matching core entry point unchanged,
    the payload is the serialised claims, and the core's token is what is returned"""
    from .props import c13
    w = world(); ex = upper_executor(w); sb = SymBuilder(w); p = PROTOCOLS[proto]
    vt = w.type_text(proto); akind = 'some' if p['assertion'] else 'none'
    meth = 'build' if prelude else ('try_encrypt' if p['p'] == 'Local' else 'try_sign'); file = PB if prelude else GB
    fs = [g for g in w.fns if g.file == file and g.method == meth and g.impl and vt[0].split('::')[-1] in g.impl[1] and vt[1].split('::')[-1] in g.impl[1]]
    if len(fs) != 1: raise Unsupported('%s builder %s for %s: %d bodies' % ('prelude' if prelude else 'generic', meth, proto, len(fs)))
    Kb = Const('K', Bytes)
    key = sym_key_value(w, proto, Kb) if p['p'] == 'Local' else w.mk('PasetoAsymmetricPrivateKey', version=PHANTOM, purpose=PHANTOM, key=Kb)
    tag = '%s %s::%s' % (proto, 'PasetoBuilder' if prelude else 'GenericBuilder', meth); n_ok = 0
    combos = [('some', akind), ('none', 'none')] + ([('some', 'none'), ('none', 'some')] if akind == 'some' else [])      # every presence combination: a builder may treat (None, Some) differently from (Some, Some)
    for fk, ak in combos:
        st = new_state([Not(sb.DUP)] if prelude else []); cell = st.new_cell(sb.value(fk, ak) if prelude else sb.generic_value(fk, ak))
        for s2, r in ex.run(fs[0], [('ref', cell, ()), ('ref', st.new_cell(key), ())], st):
            if isinstance(r, Panic):
                if upper_obligation(ses, '%s: no panic (%s)' % (tag, r.msg[:50]), list(s2.pc)): ses.violation(tag + ' panics: ' + r.msg, {}, {'kind': 'c13', 'proto': proto})
                continue
            core = [e for e in s2.log if e[0] == 'core_build']
            if not is_ok(r): continue
            n_ok += 1
            if len(core) != 1: ses.violation('%s: Ok after %d core calls' % (tag, len(core)), {}, {'kind': 'c13', 'proto': proto}); continue
            c = core[0]
            wantF = sb.F if fk == 'some' else StringVal(''); wantA = sb.A if (ak == 'some') else StringVal('')
            if upper_obligation(ses, '%s (footer=%s, assertion=%s): key, footer and implicit assertion reach the %s core call unchanged' % (tag, fk, ak, proto),
                                list(s2.pc) + [Not(And(BoolVal(c[1] == proto), c[2] == Kb, c[5] == wantF, c[6] == wantA))]):
                ses.violation('%s: the core is called with another key / footer / assertion / protocol than the builder holds' % tag, {}, {'kind': 'c13', 'proto': proto})
            if not (is_expr(r[3][0]) and r[3][0].eq(c[7])): ses.violation('%s: the returned token is not the core\'s token' % tag, {}, {'kind': 'c13', 'proto': proto})
    if n_ok == 0: ses.undecided.append(tag + ': no Ok path')
    ses.absorb(ex)


def job_setters(ses):
    """set_footer / set_implicit_assertion of the four upper-layer types store exactly the value given (any value, including the empty string) and nothing else changes"""
    w = world(); ex = upper_executor(w)
    x = String('new_value'); n = 0
    for owner, file, prelude in (('GenericBuilder', GB, False), ('PasetoBuilder', PB, True), ('GenericParser', GP, False), ('PasetoParser', PP, True)):
        for meth, arg in (('set_footer', adt('Footer', None, x)), ('set_implicit_assertion', adt('ImplicitAssertion', None, x))):
            fs = [g for g in w.fns if g.file == file and g.method == meth and '{closure' not in g.name]
            if len(fs) != 1: ses.undecided.append('%s::%s: %d bodies' % (owner, meth, len(fs))); continue
            builder = 'Builder' in owner
            sym = SymBuilder(w) if builder else SymParser(w, 1, 1)
            st = new_state([] if builder else sym.assume)
            val = (sym.value() if prelude else sym.generic_value()) if builder else (sym.prelude_value() if prelude else sym.value())
            cell = st.new_cell(val)
            for s2, r in ex.run(fs[0], [('ref', cell, ()), arg], st, subst={'Version': 'v4::V4', 'Purpose': 'local::Local'}):
                if isinstance(r, Panic): ses.violation('%s::%s panics' % (owner, meth), {}, None); continue
                n += 1
                v = s2.store[cell]
                if prelude: v = dict(zip(w.fields(owner), v[3]))['builder' if builder else 'parser']
                g = dict(zip(w.fields('GenericBuilder' if builder else 'GenericParser'), v[3]))
                fld = g['footer' if meth == 'set_footer' else 'implicit_assertion']
                if builder: got_ok = opt_eq(fld, some(arg))
                else: got_ok = as_str_field(fld) == x
                other = g['implicit_assertion' if meth == 'set_footer' else 'footer']
                if builder: other_ok = opt_eq(other, assertion_opt(sym.A) if meth == 'set_footer' else footer_opt(sym.F))
                else: other_ok = as_str_field(other) == (sym.A if meth == 'set_footer' else sym.F)
                rec = upper_obligation(ses, '%s::%s(x) stores x (for every x, including "") and leaves the other setting alone' % (owner, meth), list(s2.pc) + [Not(And(got_ok, other_ok))], values=[x])
                if rec: ses.violation('%s::%s does not store the value it is given (value %r)' % (owner, meth, fmt_model(['x'], rec).get('x')), fmt_model(['value'], rec), {'kind': 'setter', 'owner': owner, 'method': meth})
    if n == 0: ses.undecided.append('setters: nothing executed')
    ses.absorb(ex)


def _protos(protos): return list(protos)


def roundtrip_jobs(protos, tier):
    from .props import c14, c13, c15
    js = [(c14.job_end_to_end, (p,)) for p in protos] + [(job_builder_dataflow, (p, pre)) for p in protos for pre in (False, True)]
    js += [(c15.job_parse, (p, pre, ('c15',))) for p in protos for pre in (False, True)] + [(job_setters, ())]
    js += [(c13.job_build, (p,)) for p in protos]          # build() leaves claims / footer / assertion untouched: the n-th token of a builder round-trips like the first
    return js


def panic_jobs(tier):
    from .props import c15, c11
    js = [(c15.job_verify_claims, (n, m, ('c15',))) for n, m in ((0, 0), (1, 1), (2, 2))]
    js += [(c15.job_parse, (p, pre, ('c15',))) for p in PROTOCOLS for pre in (False, True)]
    js += [(c11.job_default_validators, (k,)) for k in ('exp', 'nbf')]
    return js


def tamper_jobs(tier):
    from .props import c15
    return [(c15.job_parse, (p, pre, ('c16',))) for p in PROTOCOLS for pre in (False, True)]


def key_jobs(tier):
    from .props import c15
    return [(c15.job_parse, (p, pre, ('c15',))) for p in PROTOCOLS for pre in (False, True)] + [(job_builder_dataflow, (p, pre)) for p in PROTOCOLS for pre in (False, True)]


def footer_jobs(tier):
    from .props import c13
    return key_jobs(tier) + [(job_setters, ())] + [(c13.job_build, (p,)) for p in PROTOCOLS]
def assertion_jobs(tier):
    from .props import c15
    ps = [p for p in PROTOCOLS if PROTOCOLS[p]['assertion']]
    from .props import c13
    return [(c15.job_parse, (p, pre, ('c15',))) for p in ps for pre in (False, True)] + [(job_builder_dataflow, (p, pre)) for p in ps for pre in (False, True)] + [(job_setters, ())] + [(c13.job_build, (p,)) for p in ps]
def confusion_jobs(tier):
    from .props import c15
    return [(c15.job_parse, (p, pre, ('c15',))) for p in PROTOCOLS for pre in (False, True)]
def spec_jobs(tier): return []
