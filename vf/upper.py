"""Generic / prelude layer drivers (filled in progressively)."""

def roundtrip_jobs(protos, tier):
    return []
