"""Generic / prelude layer drivers (filled in progressively)."""

def roundtrip_jobs(protos, tier):
    return []

def panic_jobs(tier):
    return []

def tamper_jobs(tier):
    return []
