"""Drivers that run the core layer's entry points from their MIR (shared by the C01-C10 checks)."""
import os, re, glob, time, pickle
from z3 import *
from . import build
from .mirx import *
from . import coremodel as cm
from .coremodel import Bytes, S, lit, cat

REPO = build.REPO

PROTOCOLS = {
    'v1.local':  dict(v='V1', p='Local',  file='src/core/paseto_impl/v1_local.rs',  assertion=False, nonce_len=32, keykind='sym'),
    'v2.local':  dict(v='V2', p='Local',  file='src/core/paseto_impl/v2_local.rs',  assertion=False, nonce_len=24, keykind='sym'),
    'v3.local':  dict(v='V3', p='Local',  file='src/core/paseto_impl/v3_local.rs',  assertion=True,  nonce_len=32, keykind='sym'),
    'v4.local':  dict(v='V4', p='Local',  file='src/core/paseto_impl/v4_local.rs',  assertion=True,  nonce_len=32, keykind='sym'),
    'v1.public': dict(v='V1', p='Public', file='src/core/paseto_impl/v1_public.rs', assertion=False, keykind='rsa'),
    'v2.public': dict(v='V2', p='Public', file='src/core/paseto_impl/v2_public.rs', assertion=False, keykind='ed25519'),
    'v3.public': dict(v='V3', p='Public', file='src/core/paseto_impl/v3_public.rs', assertion=True,  keykind='p384'),
    'v4.public': dict(v='V4', p='Public', file='src/core/paseto_impl/v4_public.rs', assertion=True,  keykind='ed25519'),
}
LOCAL = [p for p in PROTOCOLS if p.endswith('local')]
PUBLIC = [p for p in PROTOCOLS if p.endswith('public')]
PHANTOM = adt('PhantomData', None)


class World:
    """parsed MIR of the working tree + struct layouts read from the source"""
    def __init__(self, overflow_checks=True, features=None):
        self.mir_path, self.mir_info = build.mir_dump(features or build.ALL_FEATURES, overflow_checks=overflow_checks)
        pk = self.mir_path + '.pickle'
        self.fns, self.consts, self.allocs = load(self.mir_path, REPO)
        self._fields = {}; self._constructed = {}; self.extra_fields = {}

    def executor(self, contracts=None, quick_ms=300):
        ex = Exec(self.fns, self.consts, self.allocs, contracts if contracts is not None else cm.CONTRACTS)
        ex.quick_ms = quick_ms; ex.world_fields = self.fields
        return ex

    def fn(self, file, method, nth=None):
        fs = [f for f in self.fns if f.file == file and f.method == method and '{closure' not in f.name]
        if nth is not None: return fs[nth]
        if len(fs) != 1: raise Unsupported('%d MIR bodies for %s in %s' % (len(fs), method, file))
        return fs[0]

    def fn_impl(self, file, method, impl_type_re):
        fs = [f for f in self.fns if f.file == file and f.method == method and '{closure' not in f.name and f.impl and re.search(impl_type_re, f.impl[1])]
        if len(fs) != 1: raise Unsupported('%d MIR bodies for %s in %s matching %s' % (len(fs), method, file, impl_type_re))
        return fs[0]

    def fields(self, struct):
        """declaration order of a struct's fields (MIR addresses fields by index)"""
        if struct in self._fields: return self._fields[struct]
        for f in glob.glob(REPO + '/src/**/*.rs', recursive=True):
            txt = open(f).read()
            m = re.search(r'\bstruct\s+%s\b[^;{(]*\{(.*?)\n\}' % struct, txt, re.S)
            if m:
                names = []
                body = re.sub(r'//[^\n]*', '', m.group(1))
                body = re.sub(r'#\[[^\]]*\]', '', body)
                for part in split_top(body):
                    fm = re.match(r'\s*(?:pub(?:\([^)]*\))?\s+)?(\w+)\s*:', part)
                    if fm: names.append(fm.group(1))
                self._fields[struct] = names; return names
            m = re.search(r'\bstruct\s+%s\b[^;{]*\((.*?)\)\s*;' % struct, txt, re.S)
            if m:
                self._fields[struct] = ['0']; return ['0']
        raise Unsupported('struct %s not found in the source' % struct)

    def mk(self, struct, **kw):
        names = self.fields(struct)
        missing = [n for n in kw if n not in names]
        if missing: raise Unsupported('struct %s has fields %s, harness needs %s' % (struct, names, missing))
        extra = [n for n in names if n not in kw]
        if extra:
            # the struct has fields the harness does not know (a changed tree): take their values from the type's own constructor `new()`
            base = self.constructed(struct)
            bf = dict(zip(names, base[3]))
            self.extra_fields.setdefault(struct, extra)
            return adt(struct, None, *[kw.get(n, bf[n]) for n in names])
        return adt(struct, None, *[kw[n] for n in names])

    def constructed(self, struct):
        if struct in self._constructed: return self._constructed[struct]
        fs = [f for f in self.fns if f.method == 'new' and f.impl and f.impl[0] is None and re.sub(r'<.*', '', f.impl[1]).strip() == struct and not f.params]
        if len(fs) != 1: raise Unsupported('struct %s has fields unknown to the harness and no unique new() to initialise them' % struct)
        from . import uppermodel as um
        ex = self.executor(um.CONTRACTS); ex.tolerate_unsupported = False
        gens = {g: {'Version': 'v4::V4', 'Purpose': 'local::Local'}.get(g, g) for g in fs[0].generics}
        res = ex.run(fs[0], [], State(), subst=gens)
        res = [(s, r) for s, r in res if not isinstance(r, Panic)]
        if len(res) != 1: raise Unsupported('%s::new() has %d paths' % (struct, len(res)))
        self._constructed[struct] = res[0][1]; return res[0][1]

    def type_text(self, proto):
        """the spelling of the Version / Purpose types in this dump (taken from the entry point's signature)"""
        f = self.entry(proto, 'dec')
        m = re.search(r'_2: &[\w:]+<(?:\'_, )?([\w:]+), ([\w:]+)>', f.sig)
        return m.group(1), m.group(2)

    def entry(self, proto, which):
        p = PROTOCOLS[proto]
        meth = {('Local', 'enc'): 'try_encrypt', ('Local', 'dec'): 'try_decrypt', ('Public', 'enc'): 'try_sign', ('Public', 'dec'): 'try_verify'}[(p['p'], which)]
        return self.fn(p['file'], meth)


def base_state():
    st = State()
    return st


def sym_bytes(name): return Const(name, Bytes)


def bound_len(st, *terms):
    for t in terms: st.pc.append(Length(t) < 2**40)    # isize::MAX is the real bound; 2^40 keeps usize sums far from overflow and is stated in evidence


def run_header_default(world, ex, st, proto):
    """executes Header::<V,P>::default from its MIR -> Header value"""
    f = world.fn('src/core/header.rs', 'default')
    vt, pt = world.type_text(proto)
    gen = f.generics or ['Version', 'Purpose']
    (s2, v), = ex.run_sub(f, [], st, subst={gen[0]: vt, gen[1]: pt})
    ex.stats['inlined'].add(f.name)
    st.store.update(s2.store); st.pc[:] = s2.pc
    return v


def sym_key_value(world, proto, K):
    return world.mk('PasetoSymmetricKey', version=PHANTOM, purpose=PHANTOM, key=adt('Key', None, K))


def run_encrypt(world, ex, proto, st, key_bytes, nonce_bytes, message, footer, assertion):
    """message: String term; footer/assertion: Option values (NONE or some(adt Footer))"""
    p = PROTOCOLS[proto]
    hdr = run_header_default(world, ex, st, proto)
    me = world.mk('Paseto', header=hdr, payload=adt('Payload', None, message), footer=footer, implicit_assertion=assertion)
    c1 = st.new_cell(me)
    from . import coreprops as _cp
    _cp.SELF_BEFORE[id(st)] = me
    f = world.entry(proto, 'enc')
    if p['p'] == 'Local':
        key = sym_key_value(world, proto, key_bytes)
        nonce = world.mk('PasetoNonce', version=PHANTOM, purpose=PHANTOM, key=nonce_bytes)
        args = [('ref', c1, ()), ('ref', st.new_cell(key), ()), ('ref', st.new_cell(nonce), ())]
    else:
        key = world.mk('PasetoAsymmetricPrivateKey', version=PHANTOM, purpose=PHANTOM, key=key_bytes)
        args = [('ref', c1, ()), ('ref', st.new_cell(key), ())]
    ex.stats['inlined'].add(f.name)
    return ex.run(f, args, st), c1


def run_decrypt(world, ex, proto, st, token, key_bytes, footer, assertion):
    p = PROTOCOLS[proto]
    f = world.entry(proto, 'dec')
    if p['p'] == 'Local': key = sym_key_value(world, proto, key_bytes)
    else: key = world.mk('PasetoAsymmetricPublicKey', version=PHANTOM, purpose=PHANTOM, key=key_bytes)
    args = [token, ('ref', st.new_cell(key), ()), footer]
    if p['assertion']: args.append(assertion)
    ex.stats['inlined'].add(f.name)
    return ex.run(f, args, st)


def footer_opt(term): return some(adt('Footer', None, term))
def assertion_opt(term): return some(adt('ImplicitAssertion', None, term))


def describe(r):
    if isinstance(r, Panic): return 'PANIC: ' + r.msg
    if r[0] == 'adt' and r[1] == 'Result':
        if r[2] == 'Ok': return 'Ok'
        e = r[3][0]
        if isinstance(e, tuple) and e[0] == 'adt':
            inner = ''
            if e[3] and isinstance(e[3][0], tuple) and e[3][0][0] == 'adt': inner = '(%s)' % (e[3][0][2] or e[3][0][1])
            return 'Err(%s%s)' % (e[2] or e[1], inner)
        return 'Err(?)'
    return str(r)[:60]
