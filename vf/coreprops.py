"""Shared machinery of the core-layer properties C01-C09: symbolic runs of the real entry points and the query builders."""
import re, itertools
from z3 import *
from .mirx import *
from . import coremodel as cm, solve
from .coremodel import Bytes, S, lit, cat, utf8, b64
from .core import *
from .session import Session, Undecided

SIGLEN = {'v1.public': 256, 'v2.public': 64, 'v3.public': 96, 'v4.public': 64}
b64len = Function('b64len', IntSort(), IntSort())


class Inputs:
    """the free symbols of one protocol instance"""
    def __init__(self, proto, tag=''):
        self.proto = proto; p = PROTOCOLS[proto]; self.p = p
        self.M = String('M' + tag); self.F = String('F' + tag); self.A = String('A' + tag)
        self.N = Const('N' + tag, Bytes)                      # nonce seed (local)
        self.K = Const('K' + tag, Bytes)                      # symmetric key / private key bytes
        self.assume = [Length(utf8(self.M)) < 2**40, Length(utf8(self.F)) < 2**40, Length(utf8(self.A)) < 2**40]
        if p['keykind'] == 'sym':
            self.assume += [Length(self.K) == 32, Length(self.N) == p['nonce_len']]
            self.PK = None
        elif p['keykind'] == 'ed25519':
            self.seed = Const('seed' + tag, Bytes)
            self.PK = cm.ed_pk(self.seed)
            self.assume += [Length(self.seed) == 32, self.K == cat(self.seed, self.PK), Length(self.PK) == 32, cm.ed_pk_valid(self.PK)]
        elif p['keykind'] == 'p384':
            self.PK = cm.p384_pk(self.K)
            self.assume += [Length(self.K) == 48, cm.p384_sk_ok(self.K), Length(self.PK) == 49, cm.p384_point_ok(self.PK), cm.p384_compress(self.PK) == self.PK]
        elif p['keykind'] == 'rsa':
            self.PK = cm.rsa_pub(self.K)
            self.assume += [cm.rsa_key_ok(self.K), cm.rsa_modlen(self.K) == 256, Length(self.K) < 2**20, Length(self.PK) < 2**20]

    def dec_key(self): return self.K if self.p['keykind'] == 'sym' else self.PK


def opt_footer(kind, term): return NONE if kind == 'none' else footer_opt(term)
def opt_assertion(kind, term): return NONE if kind == 'none' else assertion_opt(term)


def new_state(assume=(), dotfree=()):
    st = State(); st.pc += list(assume); st.dotfree = list(dotfree)
    for a in assume:      # facts of the form Length(x) == n become syntactic knowledge of the executor
        if is_eq(a) and is_app(a.arg(0)) and a.arg(0).decl().kind() == Z3_OP_SEQ_LENGTH and is_int_value(a.arg(1)):
            x = a.arg(0).arg(0); st.known_len[x.get_id()] = (x, a.arg(1))
    return st


def encrypt_paths(world, ex, inp, fkind='some', akind='some', extra=()):
    st = new_state(list(inp.assume) + list(extra))
    res, c1 = run_encrypt(world, ex, inp.proto, st, inp.K, inp.N, inp.M, opt_footer(fkind, inp.F),
                          opt_assertion(akind, inp.A) if inp.p['assertion'] else NONE)
    before = st0_value[0] if False else None
    for s2, _ in res:
        s2.self_cell = c1; s2.self_before = SELF_BEFORE.get(id(st))
    return res


SELF_BEFORE = {}


def same_value(a, b):
    """structural equality of two executor values (z3 terms compared syntactically after simplification)"""
    if is_expr(a) and is_expr(b): return a.eq(b) or simplify(a).eq(simplify(b))
    if isinstance(a, tuple) and isinstance(b, tuple):
        if len(a) != len(b): return False
        return all(same_value(x, y) for x, y in zip(a, b))
    if isinstance(a, (list,)) and isinstance(b, (list,)): return len(a) == len(b) and all(same_value(x, y) for x, y in zip(a, b))
    return a == b


def decrypt_paths(world, ex, proto, token, key_bytes, F, A, fkind='some', akind='some', assume=(), dotfree=()):
    st = new_state(assume, dotfree)
    return run_decrypt(world, ex, proto, st, token, key_bytes, opt_footer(fkind, F), opt_assertion(akind, A))


def is_ok(r): return (not isinstance(r, Panic)) and r[0] == 'adt' and r[1] == 'Result' and r[2] == 'Ok'
def is_err(r): return (not isinstance(r, Panic)) and r[0] == 'adt' and r[1] == 'Result' and r[2] == 'Err'


def honest_from_log(log, inp):
    """oracle queries the honest party made while producing the token (for the unforgeability instances)"""
    h = {'mac': [], 'mac_keys': [], 'sign': [], 'aead': [], 'aead_keys': []}
    for e in log:
        if e[0] == 'mac':
            name = {'blake2b': 'blake2b', 'hmac384': 'hmac_sha384'}[e[1]]
            # only MAC queries keyed with a key derived from the secret key are oracle queries of the functionality
            # (a MAC keyed with public data, e.g. the v1 nonce derivation HMAC(n, m), is something the adversary computes himself)
            if secret_derived(e[2], inp.K): h['mac'].append((name, e[2], e[3], e[4]))
        elif e[0] == 'sign':
            name = {'ed25519': 'ed25519_verify', 'p384': 'p384_ecdsa_verify_sha384', 'rsa': 'rsa_pss_sha384_verify'}[e[1]]
            h['sign'].append((name, inp.PK, e[3]))
        elif e[0] == 'aead_enc':
            h['aead'].append((e[1], e[2], e[3], e[5]))
    return h


def secret_derived(term, secret):
    """term is the secret key or a KDF/MAC output keyed (directly or transitively) by it"""
    if term.eq(secret): return True
    if is_app(term):
        n = term.decl().name()
        if n == 'blake2b': return secret_derived(term.arg(1), secret)
        if n == 'hmac_sha384': return secret_derived(term.arg(0), secret)
        if n == 'hkdf_sha384': return secret_derived(term.arg(1), secret)
        if term.decl().kind() == Z3_OP_SEQ_EXTRACT: return secret_derived(term.arg(0), secret)
    return False


def honest_for(enc_logs, inp, dec_pcs_and_logs=()):
    h = {'mac': [], 'mac_keys': [], 'sign': [], 'aead': [], 'aead_keys': [inp.K]}
    for lg in enc_logs:
        x = honest_from_log(lg, inp)
        for k in ('mac', 'sign', 'aead'): h[k] += x[k]
    return h


def with_compares(h, dlog):
    h['compares'] = [(e[1], e[2]) for e in dlog if e[0] == 'compare']
    return h


def mark_secret_mac_keys(h, assertions, secret):
    apps = cm.applications(assertions)
    keys = []
    for t in apps.get('blake2b', []):
        if secret_derived(t.arg(1), secret): keys.append(t.arg(1))
    for t in apps.get('hmac_sha384', []):
        if secret_derived(t.arg(0), secret): keys.append(t.arg(0))
    h['mac_keys'] = keys
    return h


# ----------------------------------------------------------------------------- token structure
def pieces(t):
    return cm._flatten_concat(simplify(t))


def segments(tok, dotfree_vars=()):
    """token term -> list of segments (each a list of pieces) or None when the structure is not syntactic"""
    ps = pieces(tok); segs = [[]]
    for p in ps:
        if is_string_value(p):
            parts = p.as_string().split('.')
            for i, sg in enumerate(parts):
                if i > 0: segs.append([])
                if sg: segs[-1].append(StringVal(sg))
        elif (is_app(p) and p.decl().name() == 'b64') or any(p.eq(v) for v in dotfree_vars): segs[-1].append(p)
        else: return None
    return segs


def seg_term(ps):
    if not ps: return StringVal('')
    return ps[0] if len(ps) == 1 else Concat(*ps)


def seg_eq(a, b):
    """equality of two dot-free segments as a formula that avoids string reasoning where it can (b64 is injective)"""
    if len(a) == 1 and len(b) == 1 and all(is_app(x) and x.decl().name() == 'b64' for x in (a[0], b[0])):
        return a[0].arg(0) == b[0].arg(0)
    if not a and not b: return BoolVal(True)
    if (not a) != (not b):
        x = a or b
        if len(x) == 1 and is_app(x[0]) and x[0].decl().name() == 'b64': return Length(x[0].arg(0)) == 0
        if all(is_string_value(y) for y in x): return BoolVal(all(y.as_string() == '' for y in x))
    if all(is_string_value(y) for y in a + b):
        return BoolVal(''.join(y.as_string() for y in a) == ''.join(y.as_string() for y in b))
    return seg_term(a) == seg_term(b)


def tok_eq(t1, t2, dotfree_vars=()):
    s1, s2 = segments(t1, dotfree_vars), segments(t2, dotfree_vars)
    if s1 is None or s2 is None: return t1 == t2
    # trailing empty segments are significant ("a." has 2 segments)
    if len(s1) != len(s2): return BoolVal(False)
    return And(*[seg_eq(a, b) for a, b in zip(s1, s2)]) if s1 else BoolVal(True)


def payload_of(tok):
    """the byte term under b64 in the third segment of a structured token"""
    sg = segments(tok)
    if sg is None or len(sg) < 3 or len(sg[2]) != 1 or not (is_app(sg[2][0]) and sg[2][0].decl().name() == 'b64'):
        raise Unsupported('token produced by the library is not of the form header.b64(payload)[.footer]: ' + str(simplify(tok))[:200])
    return sg[2][0].arg(0)


def fmt_model(names, rec):
    vals = solve.parse_values(rec.get('values') or '')
    out = {}
    for n, (_, v) in zip(names, vals):
        out[n] = v.hex() if isinstance(v, bytes) else v
    return out


# ----------------------------------------------------------------------------- parallel jobs (one forked worker per protocol / variant)
import multiprocessing as mp, traceback as _tb, os as _os

_WORLD = {}
FEATURES = None          # None: all protocols + batteries_included; otherwise the feature set whose MIR is to be executed (C20)
def world(overflow_checks=True):
    key = (overflow_checks, FEATURES)
    if key not in _WORLD: _WORLD[key] = World(overflow_checks=overflow_checks, features=FEATURES)
    return _WORLD[key]


def _job_entry(args):
    fn, jargs, tier, seed = args
    ses = Session(tier, seed)
    try:
        fn(ses, *jargs)
    except (Unsupported, Undecided) as e:
        ses.undecided.append('%s%s: %s: %s' % (fn.__name__, jargs, type(e).__name__, str(e)[:1500]))
    except Exception:
        ses.undecided.append('%s%s: internal error: %s' % (fn.__name__, jargs, _tb.format_exc()[-2500:]))
    d = ses.export(); d['solver_time'] = dict(solve.STATS['solver_time'])
    return d


def run_jobs(ses, jobs, procs=None, preload=True):
    """jobs: list of (function(ses, *args), args).  The MIR is parsed before forking."""
    if preload: world()
    procs = procs or min(len(jobs), max(1, (_os.cpu_count() or 4) // 2))
    ctx = mp.get_context('fork')
    with ctx.Pool(procs) as pool:
        for d in pool.imap_unordered(_job_entry, [(fn, a, ses.tier, ses.seed) for fn, a in jobs]):
            for k, v in d.pop('solver_time').items(): solve.STATS['solver_time'][k] = solve.STATS['solver_time'].get(k, 0) + v
            ses.merge(d)


def model_values(rec, names_terms):
    vals = solve.parse_values(rec.get('values') or '')
    out = {}
    for (n, _), (_, v) in zip(names_terms, vals): out[n] = v
    return out


def builder_frame_check(ses, w, E, tag, proto, fkind, akind):
    """the core builder object (self) is left as it was by try_encrypt / try_sign: a second token from the same builder is built from the same payload / footer / assertion"""
    for se, re_ in E:
        if is_ok(re_) and getattr(se, 'self_cell', None) is not None:
            after = se.store[se.self_cell]; names = w.fields('Paseto'); fa = dict(zip(names, after[3])); fb = dict(zip(names, se.self_before[3]))
            if after[1] == 'Havocked': fa = {n_: after for n_ in names}      # the function that received `&mut self` was abstracted: every field is unknown afterwards
            for fld in names:
                if fld in ('header',): continue
                if not same_value(fa[fld], fb[fld]):
                    ses.violation('%s: try_encrypt/try_sign changes the builder\'s `%s` (%s -> %s): the next token built from it differs' % (tag, fld, str(fb[fld])[:50], str(fa[fld])[:50]), {},
                                  {'kind': 'core_builder_reuse', 'proto': proto, 'fkind': fkind, 'akind': akind})
