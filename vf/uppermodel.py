"""Contracts for the generic / prelude layers: serde_json values, HashMap/HashSet, boxed validators, time, iso8601,
and *summaries* of the core entry points (their behaviour is what C01-C09 establish on the same tree; the upper-layer
runs use them as logged, uninterpreted calls so that the dataflow into and out of the core is what gets checked)."""
import re, itertools
from z3 import *
from .mirx import *
from . import coremodel as cm
from .coremodel import contract, deref, upd, as_str, as_bytes, S, Bytes, fresh, closure_fn, call_closure, CONTRACTS

I = IntSort()
# ----------------------------------------------------------------------------- serde_json::Value
JV = Datatype('JV')
JV.declare('Null'); JV.declare('Bool', ('b', BoolSort())); JV.declare('Num', ('n', I)); JV.declare('Str', ('s', S)); JV.declare('Arr', ('a', I)); JV.declare('Obj', ('o', I))
JV = JV.create()
VARIANTS = ['Null', 'Bool', 'Number', 'String', 'Array', 'Object']
jmember = Function('json_member', I, S, JV)          # member of object id; Null when absent
jhas = Function('json_has', I, S, BoolSort())
jlen = Function('json_len', I, I)
obj_of_map = Function('json_obj_of_map', ArraySort(S, BoolSort()), ArraySort(S, JV), I)     # object built from a key->value map
jtext = Function('json_text', JV, S)                   # serde_json::to_string
jparse_ok = Function('json_parse_ok', S, BoolSort())
jparse = Function('json_parse', S, JV)
EMPTY_OBJ = Const('json_empty_object', I)
json_of = Function('json_of_serializable', I, JV)      # JSON of an opaque user value (identified by an id)
rfc3339 = Function('rfc3339_parse', S, I)              # time::OffsetDateTime::parse(.., &Rfc3339): instant in ns
rfc3339_ok = Function('rfc3339_ok', S, BoolSort())
render3339 = Function('rfc3339_format', I, S)
iso8601_ok = Function('iso8601_datetime_ok', S, BoolSort())
validator_ok = Function('user_validator_ok', I, S, JV, BoolSort())    # verdict of user validator #id on (key, value)
core_token = Function('core_token', I, Bytes, Bytes, S, S, S, S)      # (protocol, key, nonce, payload, footer, assertion)
core_accepts = Function('core_accepts', I, S, Bytes, S, S, BoolSort())
core_plain = Function('core_plain', I, S, Bytes, S, S, S)
PROTO_ID = {'v1.local': 1, 'v2.local': 2, 'v3.local': 3, 'v4.local': 4, 'v1.public': 5, 'v2.public': 6, 'v3.public': 7, 'v4.public': 8}


def is_jv(v): return is_expr(v) and v.sort() == JV


def jindex(v, key):
    """serde_json's Index<&str>: Null for non-objects and missing members"""
    if is_app(v) and v.decl().name() == 'Obj' and is_app(v.arg(0)) and v.arg(0).decl().name() == 'json_obj_of_map':
        p, vals = v.arg(0).arg(0), v.arg(0).arg(1)
        return simplify(If(Select(p, key), Select(vals, key), JV.Null))
    return If(JV.is_Obj(v), jmember(JV.o(v), key), JV.Null)


def mk_obj(pres, vals): return JV.Obj(obj_of_map(pres, vals))


def disc_hook(v):
    if is_jv(v):
        return If(JV.is_Null(v), 0, If(JV.is_Bool(v), 1, If(JV.is_Num(v), 2, If(JV.is_Str(v), 3, If(JV.is_Arr(v), 4, 5)))))
    return None


def field_hook(v, variant, idx):
    if is_jv(v):
        if variant == 'Object': return ('jmapid', JV.o(v))
        if variant == 'String': return JV.s(v)
        if variant == 'Array': return ('jarrid', JV.a(v))
        if variant == 'Bool': return JV.b(v)
        if variant == 'Number': return ('jnum', JV.n(v))
    return None


HOOKS['discriminant'] = disc_hook
HOOKS['field'] = field_hook


def to_jv(st, v):
    """executor value -> JV term"""
    v = deref(st, v)
    if is_jv(v): return v
    if isinstance(v, tuple) and v[0] == 'adt' and v[2] is None and v[1] in ('Null', 'Object', 'String', 'Bool', 'Array', 'Number') :
        v = ('adt', 'Value', v[1], v[3])          # variant constructor printed without its enum path
    if isinstance(v, tuple):
        if v[0] == 'adt' and v[1] == 'Value':
            if v[2] == 'Null': return JV.Null
            if v[2] == 'Object': return JV.Obj(mapid(st, v[3][0]))
            if v[2] == 'String': return JV.Str(as_str(st, v[3][0]))
            if v[2] == 'Bool': return JV.Bool(v[3][0])
            if v[2] == 'Array': return JV.Arr(v[3][0][1] if isinstance(v[3][0], tuple) else v[3][0])
            if v[2] == 'Number': return JV.Num(v[3][0][1] if isinstance(v[3][0], tuple) else v[3][0])
        if v[0] == 'boxed': return to_jv(st, v[1])
        if v[0] == 'opaque_ser': return json_of(v[1])
    if is_expr(v) and is_string(v): return JV.Str(v)
    raise Unsupported('to_jv of ' + str(v)[:80])


def mapid(st, m):
    m = deref(st, m)
    if isinstance(m, tuple) and m[0] == 'jmapid': return m[1]
    if isinstance(m, tuple) and m[0] == 'hmap': return obj_of_map(m[1], m[2])
    raise Unsupported('json map ' + str(m)[:60])


# ----------------------------------------------------------------------------- serde_json contracts
@contract(r'^serde_json::from_str::<', r'^from_str::<')
def c_from_str(ex, st, callee, a):
    s_ = as_str(st, a[0]); st.log.append(('json_parse', s_))
    if is_app(s_) and s_.decl().name() == 'json_text': return [(None, ok(s_.arg(0)))]
    return [(jparse_ok(s_), ok(jparse(s_))), (Not(jparse_ok(s_)), err(adt('SerdeJsonError', None)))]


@contract(r'^from_slice::<', r'^serde_json::from_slice::<')
def c_from_slice(ex, st, callee, a):
    b = deref(st, a[0])
    if isinstance(b, tuple) and b[0] == 'jsonbuf': return [(None, ok(b[1]))]
    raise Unsupported('from_slice of a buffer that was not written by a serializer: ' + str(b)[:60])


@contract(r'^serde_json::Serializer::<&mut Vec<u8>>::new$')
def c_serializer_new(ex, st, callee, a): return [(None, ('serializer', a[0]))]


@contract(r'^erased_serde::serialize::<')
def c_erased_serialize(ex, st, callee, a):
    v = deref(st, a[0]); ser = deref(st, a[1]) if isinstance(a[1], tuple) and a[1][0] == 'ref' else a[1]
    outs = serialize_value(ex, st, v)
    res = []
    for s2, j in outs:
        if not (isinstance(ser, tuple) and ser[0] == 'serializer'): raise Unsupported('serializer ' + str(ser)[:40])
        upd(s2, ser[1], ('jsonbuf', j)); res.append((None, ok(UNIT), s2))
    return res


def serialize_value(ex, st, v):
    """JSON of a value: serde_json::Value as itself; the crate's own claim types by running their Serialize impl from MIR
    against an abstract serializer; anything else opaque."""
    v = deref(st, v)
    if isinstance(v, tuple) and v[0] == 'boxed': return serialize_value(ex, st, v[1])
    try: return [(st, to_jv(st, v))]
    except Unsupported: pass
    if isinstance(v, tuple) and v[0] == 'adt' and v[1].endswith('Claim'):
        f = [g for g in ex.fns if g.method == 'serialize' and g.impl and g.impl[0] and 'Serialize' in g.impl[0] and re.sub(r'<.*', '', g.impl[1]).strip().split('::')[-1] == v[1]]
        if len(f) != 1: raise Unsupported('Serialize impl of %s: %d candidates' % (v[1], len(f)))
        ex.stats['inlined'].add(f[0].name)
        cell = st.new_cell(v); outs = []
        for s2, r in ex.run_sub(f[0], [('ref', cell, ()), ('absser', None)], st):
            if isinstance(r, Panic): raise Unsupported('Serialize impl panics: ' + r.msg)
            if r[2] != 'Ok': continue
            outs.append((s2, r[3][0][1] if isinstance(r[3][0], tuple) and r[3][0][0] == 'absser_done' else to_jv(s2, r[3][0])))
        return outs
    raise Unsupported('serialize of ' + str(v)[:80])


@contract(r'^<S as serde::Serializer>::serialize_map$')
def c_ser_map(ex, st, callee, a): return [(None, ok(('absmap', K(S, False), K(S, JV.Null), None)))]


@contract(r'SerializeMap>::serialize_key::<', r'SerializeMap>::serialize_entry::<')
def c_ser_key(ex, st, callee, a):
    m = deref(st, a[0]); k = as_str(st, a[1])
    if 'serialize_entry' in callee:
        (s2, j), = serialize_value(ex, st, a[2])
        upd(s2, a[0], ('absmap', Store(m[1], k, True), Store(m[2], k, j), None)); return [(None, ok(UNIT), s2)]
    upd(st, a[0], ('absmap', m[1], m[2], k)); return [(None, ok(UNIT))]


@contract(r'SerializeMap>::serialize_value::<')
def c_ser_value(ex, st, callee, a):
    m = deref(st, a[0])
    if m[3] is None: raise Unsupported('serialize_value without serialize_key')
    res = []
    for s2, j in serialize_value(ex, st, a[1]):
        upd(s2, a[0], ('absmap', Store(m[1], m[3], True), Store(m[2], m[3], j), None)); res.append((None, ok(UNIT), s2))
    return res


@contract(r'SerializeMap>::end$')
def c_ser_end(ex, st, callee, a):
    m = deref(st, a[0]) if isinstance(a[0], tuple) and a[0][0] == 'ref' else a[0]
    return [(None, ok(('absser_done', mk_obj(m[1], m[2]))))]


@contract(r'^to_value::<', r'^serde_json::to_value::<')
def c_to_value(ex, st, callee, a):
    return [(None, ok(j), s2) for s2, j in serialize_value(ex, st, a[0])]


@contract(r'^serde_json::to_string::<', r'^to_string::<', r'^<serde_json::Value as ToString>::to_string$')
def c_to_string(ex, st, callee, a): return [(None, ok(jtext(to_jv(st, a[0]))) if 'ToString' not in callee else jtext(to_jv(st, a[0])))]


@contract(r'^<serde_json::Value as std::ops::Index<')
def c_value_index(ex, st, callee, a):
    v = to_jv(st, a[0]); k = as_str(st, a[1]); st.log.append(('json_index', v, k))
    return [(None, jindex(v, k))]


@contract(r'^<serde_json::Value as PartialEq>::(eq|ne)$', r'^<&serde_json::Value as PartialEq>::(eq|ne)$', r'^<&&serde_json::Value as PartialEq>::(eq|ne)$')
def c_value_eq(ex, st, callee, a):
    r = to_jv(st, a[0]) == to_jv(st, a[1]); return [(None, Not(r) if callee.endswith('::ne') else r)]


@contract(r'^serde_json::Value::as_str$')
def c_as_str(ex, st, callee, a):
    v = to_jv(st, a[0]); return [(JV.is_Str(v), some(JV.s(v))), (Not(JV.is_Str(v)), NONE)]


@contract(r'^serde_json::Value::is_null$')
def c_is_null(ex, st, callee, a): return [(None, JV.is_Null(to_jv(st, a[0])))]


@contract(r'^serde_json::Value::is_string$')
def c_is_string(ex, st, callee, a): return [(None, JV.is_Str(to_jv(st, a[0])))]


@contract(r'^serde_json::Map::<std::string::String, serde_json::Value>::len$')
def c_map_len(ex, st, callee, a): return [(None, jlen(mapid(st, a[0])))]


@contract(r'^serde_json::Map::<std::string::String, serde_json::Value>::is_empty$')
def c_map_is_empty(ex, st, callee, a): return [(None, jlen(mapid(st, a[0])) == 0)]


@contract(r'^serde_json::Map::<std::string::String, serde_json::Value>::contains_key::<')
def c_map_contains(ex, st, callee, a): return [(None, jhas(mapid(st, a[0]), as_str(st, a[1])))]


@contract(r'^serde_json::Map::<std::string::String, serde_json::Value>::remove::<')
def c_map_remove(ex, st, callee, a):
    o = mapid(st, a[0]); k = as_str(st, a[1])
    o2 = Const('json_map_after_remove%d' % next(fresh), I)
    st.facts += [Not(jhas(o2, k)), jlen(o2) == jlen(o) - If(jhas(o, k), 1, 0)]
    upd(st, a[0], ('jmapid', o2))
    return [(jhas(o, k), some(jmember(o, k))), (Not(jhas(o, k)), NONE)]


@contract(r'^serde_json::Map::<std::string::String, serde_json::Value>::new$')
def c_map_new(ex, st, callee, a): return [(None, ('jmapid', EMPTY_OBJ))]


@contract(r'^<serde_json::Map<std::string::String, serde_json::Value> as FromIterator<.*>>::from_iter::<HashMap<')
def c_map_from_hashmap(ex, st, callee, a):
    m = deref(st, a[0])
    if isinstance(m, tuple) and m[0] == 'hmap': return [(None, ('jmapid', obj_of_map(m[1], m[2])))]
    raise Unsupported('Map::from_iter of ' + str(m)[:60])


# lazy iterator pipelines over maps / vectors:  into_iter() -> map(closure) -> collect()
@contract(r'^<serde_json::Map<std::string::String, serde_json::Value> as IntoIterator>::into_iter$', r'^<HashMap<std::string::String, serde_json::Value> as IntoIterator>::into_iter$',
          r'^<Vec<serde_json::Value> as IntoIterator>::into_iter$', r'^HashMap::<std::string::String, Box<dyn erased_serde::Serialize>>::iter$',
          r'^<HashMap<std::string::String, Box<dyn erased_serde::Serialize>> as IntoIterator>::into_iter$')
def c_coll_into_iter(ex, st, callee, a): return [(None, ('lazyiter', deref(st, a[0]), None, 'ref' if callee.endswith('::iter') else 'val', ()))]


@contract(r' as Iterator>::map::<')
def c_iter_map(ex, st, callee, a):
    it = a[0]
    if not (isinstance(it, tuple) and it[0] == 'lazyiter'): raise Unsupported('map over ' + str(it)[:60])
    if it[2] is not None: raise Unsupported('two maps over one iterator')
    if len(it) > 4 and it[4]: raise Unsupported('map after filter')
    return [(None, ('lazyiter', it[1], (a[1], callee), it[3], ()))]


def apply_elem_fn(ex, st, fn, callee, args):
    """apply a closure value or a fn item (e.g. wrap_value) to a generic element"""
    f, cal = fn
    if isinstance(f, tuple) and f[0] == 'closure': return call_closure(ex, st, f, cal, args)
    if isinstance(f, tuple) and f[0] == 'fnitem':
        g = next((x for x in ex.fns if x.method == f[1] and not x.impl), None)
        if g is None: raise Unsupported('function item ' + f[1])
        if ex.ih.get(g.method): return [(st, ex.ih[g.method](*args))]
        ex.stats['inlined'].add(g.name); return ex.run_sub(g, list(args), st)
    if isinstance(f, tuple) and f[0] in ('zst', 'adt'):     # function item passed by name
        m = re.search(r'fn\([^)]*\) -> [^{}]* \{(\w+)\}', cal)
        if m:
            g = ex.find(m.group(1)) or next((x for x in ex.fns if x.method == m.group(1) and not x.impl), None)
            if g is None: raise Unsupported('function item ' + m.group(1))
            if ex.ih.get(g.method): return [(st, ex.ih[g.method](*args))]       # induction hypothesis for a recursive function
            ex.stats['inlined'].add(g.name)
            return ex.run_sub(g, list(args), st)
        return call_closure(ex, st, f, cal, args)
    raise Unsupported('element function ' + str(f)[:60])


@contract(r' as Iterator>::filter::<')
def c_iter_filter(ex, st, callee, a):
    it = a[0]
    if isinstance(it, tuple) and it[0] in ('hiter', 'hfilter'): return c_hiter_filter(ex, st, callee, a)
    if not (isinstance(it, tuple) and it[0] == 'lazyiter'): raise Unsupported('filter over ' + str(it)[:60])
    return [(None, ('lazyiter', it[1], it[2], it[3], tuple(it[4] if len(it) > 4 else ()) + ((a[1], callee),)))]


@contract(r' as Iterator>::collect::<')
def c_collect_lazy(ex, st, callee, a):
    it = a[0]
    if not (isinstance(it, tuple) and it[0] == 'lazyiter'): return cm.c_collect(ex, st, callee, a)
    src, fn, mode = it[1], it[2], it[3]
    kg = String('generic_key%d' % next(fresh))
    if isinstance(src, tuple) and src[0] in ('hmap', 'jmapid'):
        if src[0] == 'hmap': pres, elem = src[1], Select(src[2], kg) if is_expr(src[2]) else None
        else: pres, elem = None, jmember(src[1], kg)
        if elem is None: raise Unsupported('collect over a map with opaque values')
        if fn is None: k2, v2, s2 = kg, elem, st
        else:
            if mode == 'ref':
                kc, vc = st.new_cell(kg), st.new_cell(('boxed', elem)); arg = tup(('ref', kc, ()), ('ref', vc, ()))
            elif 'Box<dyn erased_serde::Serialize>' in callee and 'hash_map::IntoIter<std::string::String, Box<' in callee: arg = tup(kg, ('boxed', elem))
            else: arg = tup(kg, elem)
            outs = apply_elem_fn(ex, st, fn, callee, [arg])
            if len(outs) != 1: raise Unsupported('element closure forks (%d outcomes)' % len(outs))
            s2, r = outs[0]
            if isinstance(r, Panic): return [(None, r)]
            k2, v2 = deref(s2, r[1][0]), r[1][1]
            v2 = to_jv(s2, v2)
        if not (is_expr(k2) and simplify(k2 == kg).eq(BoolVal(True))): raise Unsupported('map-collect changes keys: ' + str(k2)[:60])
        keep = BoolVal(True)
        for flt in (it[4] if len(it) > 4 else ()):
            ec = s2.new_cell(tup(k2, v2))
            fo = apply_elem_fn(ex, s2, flt, callee, [('ref', ec, ())])
            if len(fo) != 1 or not is_expr(fo[0][1]): raise Unsupported('filter predicate forks')
            s2 = fo[0][0]; keep = And(keep, fo[0][1])
        if not is_true(simplify(keep)):
            if src[0] != 'hmap': raise Unsupported('filter over a JSON object')
            P2 = Const('filtered_present%d' % next(fresh), ArraySort(S, BoolSort())); s2.mapdefs.append((P2, kg, And(Select(src[1], kg), keep)))
            src = ('hmap', P2, src[2], None)
        same = is_expr(v2) and simplify(v2 == elem).eq(BoolVal(True))
        if src[0] == 'hmap':
            if same: out = ('hmap', src[1], src[2], src[3] if len(src) > 3 else None)
            else:
                A2 = Const('mapped_values%d' % next(fresh), ArraySort(S, JV)); s2.mapdefs.append((A2, kg, v2))
                out = ('hmap', src[1], A2, src[3] if len(src) > 3 else None)
            if 'serde_json::Map' in callee: out = ('jmapid', obj_of_map(out[1], out[2]))
        else:
            if same: out = ('jmapid', src[1])
            else:
                o2 = Const('json_map_mapped%d' % next(fresh), I); s2.objdefs.append((o2, src[1], kg, v2)); out = ('jmapid', o2)
        if s2 is not st: return [(None, out, s2)]
        return [(None, out)]
    if isinstance(src, tuple) and src[0] == 'jarrid':
        # arrays: element-wise map; with the induction hypothesis (identity) the array is unchanged
        eg = Const('generic_elem%d' % next(fresh), JV)
        if fn is None: return [(None, ('jarrid', src[1]))]
        outs = apply_elem_fn(ex, st, fn, callee, [eg])
        if len(outs) != 1: raise Unsupported('element closure forks')
        s2, r = outs[0]
        if is_expr(r) and simplify(r == eg).eq(BoolVal(True)): return [(None, ('jarrid', src[1]), s2)]
        raise Unsupported('array map with a non-identity element function')
    raise Unsupported('collect over ' + str(src)[:60])


# ----------------------------------------------------------------------------- HashMap / HashSet
def K(dom, val): return z3.K(dom, BoolVal(val)) if isinstance(val, bool) else z3.K(dom, val)


@contract(r'^HashSet::<std::string::String>::new$')
def c_hset_new(ex, st, callee, a): return [(None, ('hset', K(S, False)))]


@contract(r'^HashSet::<std::string::String>::insert$')
def c_hset_insert(ex, st, callee, a):
    s_ = deref(st, a[0]); k = as_str(st, a[1]); was = Select(s_[1], k)
    upd(st, a[0], ('hset', Store(s_[1], k, True))); st.log.append(('hset_insert', k))
    return [(None, Not(was))]


@contract(r'^HashSet::<std::string::String>::clear$')
def c_hset_clear(ex, st, callee, a): upd(st, a[0], ('hset', K(S, False))); return [(None, UNIT)]


@contract(r'^HashMap::<std::string::String, Box<dyn erased_serde::Serialize>>::clear$')
def c_hmap_clear(ex, st, callee, a): upd(st, a[0], ('hmap', K(S, False), K(S, JV.Null), ())); return [(None, UNIT)]


@contract(r'^HashSet::<std::string::String>::contains::<')
def c_hset_contains(ex, st, callee, a): return [(None, Select(deref(st, a[0])[1], as_str(st, a[1])))]


@contract(r'^HashSet::<std::string::String>::remove::<')
def c_hset_remove(ex, st, callee, a):
    s_ = deref(st, a[0]); k = as_str(st, a[1]); was = Select(s_[1], k)
    upd(st, a[0], ('hset', Store(s_[1], k, False))); return [(None, was)]


@contract(r'^HashMap::<std::string::String, Box<dyn erased_serde::Serialize>>::(new|with_capacity)$', r'^<HashMap<std::string::String, Box<dyn erased_serde::Serialize>> as Default>::default$')
def c_hmap_new(ex, st, callee, a): return [(None, ('hmap', K(S, False), K(S, JV.Null), ()))]


@contract(r'^HashMap::<std::string::String, Box<dyn for<.*>>::new$', r'^<HashMap<std::string::String, Box<dyn for<.*>> as Default>::default$',
          r'^HashMap::<std::string::String, serde_json::Value>::(new|with_capacity)$', r'^<HashMap<std::string::String, serde_json::Value> as Default>::default$')
def c_vmap_new(ex, st, callee, a): return [(None, ('vmap', K(S, False), ()))]


@contract(r'^HashMap::<std::string::String, Box<dyn erased_serde::Serialize>>::insert$')
def c_hmap_insert(ex, st, callee, a):
    m = deref(st, a[0]); k = as_str(st, a[1])
    res = []
    for s2, j in serialize_value(ex, st, a[2]):
        m2 = deref(s2, a[0]); keys = m2[3] if len(m2) > 3 else None
        if keys is not None and not any(k.eq(x) for x in keys): keys = None if len(keys) > 0 and not all(is_string_value(x) and is_string_value(k) for x in keys) else tuple(keys) + (k,)
        upd(s2, a[0], ('hmap', Store(m2[1], k, True), Store(m2[2], k, j), keys)); s2.log.append(('claims_insert', k, j))
        res.append((None, adt('Option', 'Some', ('boxed', Select(m2[2], k))) if False else NONE, s2))
    return res


@contract(r'^HashMap::<std::string::String, Box<dyn erased_serde::Serialize>>::len$', r'^HashMap::<std::string::String, Box<dyn for<.*>>::len$', r'^HashMap::<std::string::String, serde_json::Value>::len$')
def c_map_len(ex, st, callee, a):
    n = Int('map_len%d' % next(fresh)); st.pc.append(n >= 0); return [(None, n)]        # only used as a capacity hint by the code in reach; the count itself is not modelled


@contract(r'^HashMap::<std::string::String, Box<dyn erased_serde::Serialize>>::remove::<')
def c_hmap_remove(ex, st, callee, a):
    m = deref(st, a[0]); k = as_str(st, a[1])
    upd(st, a[0], ('hmap', Store(m[1], k, False), m[2], m[3] if len(m) > 3 else None)); st.log.append(('claims_remove', k))
    return [(None, NONE)]       # the removed value is dropped by every caller in the crate


@contract(r'^HashMap::<std::string::String, Box<dyn erased_serde::Serialize>>::contains_key::<', r'^HashMap::<std::string::String, Box<dyn for<.*>>::contains_key::<', r'^HashMap::<std::string::String, serde_json::Value>::contains_key::<')
def c_hmap_contains(ex, st, callee, a): return [(None, Select(deref(st, a[0])[1], as_str(st, a[1])))]


@contract(r'^<HashMap<std::string::String, Box<dyn erased_serde::Serialize>> as Extend<')
def c_hmap_extend(ex, st, callee, a):
    m = deref(st, a[0]); o = deref(st, a[1])
    if not (isinstance(o, tuple) and o[0] == 'hmap' and o[3] is not None): raise Unsupported('extend with a map whose keys are not enumerated')
    pres, vals = m[1], m[2]
    for k in o[3]:
        pres = If(Select(o[1], k), Store(pres, k, True), pres); vals = If(Select(o[1], k), Store(vals, k, Select(o[2], k)), vals)
    upd(st, a[0], ('hmap', pres, vals, None)); return [(None, UNIT)]


@contract(r'^HashMap::<std::string::String, Box<dyn for<.*>>::insert$', r'^HashMap::<std::string::String, serde_json::Value>::insert$')
def c_vmap_insert(ex, st, callee, a):
    m = deref(st, a[0]); k = as_str(st, a[1])
    upd(st, a[0], ('vmap', Store(m[1], k, True), tuple(e for e in m[2]) + ((k, a[2]),))); return [(None, NONE)]


@contract(r'^HashMap::<std::string::String, Box<dyn for<.*>>::remove::<', r'^HashMap::<std::string::String, serde_json::Value>::remove::<')
def c_vmap_remove(ex, st, callee, a):
    m = deref(st, a[0]); k = as_str(st, a[1])
    upd(st, a[0], ('vmap', Store(m[1], k, False), m[2])); return [(None, NONE)]       # the removed value is dropped by the callers this contract serves


@contract(r'^HashMap::<std::string::String, Box<dyn for<.*>>::entry$')
def c_vmap_entry(ex, st, callee, a): return [(None, ('ventry', a[0], as_str(st, a[1])))]


@contract(r'^std::collections::hash_map::Entry::<.*std::string::String, Box<dyn for<.*>>::or_insert$')
def c_vmap_or_insert(ex, st, callee, a):
    """entry(k).or_insert(v): an existing registration is kept"""
    _, mref, k = a[0]; m = deref(st, mref)
    s_abs = st.fork(); upd(s_abs, mref, ('vmap', Store(m[1], k, True), tuple(m[2]) + ((k, a[1]),)))
    return [(Select(m[1], k), UNIT, st), (Not(Select(m[1], k)), UNIT, s_abs)]       # the returned &mut V is dropped by the callers this contract serves


@contract(r'^<HashMap<std::string::String, Box<dyn for<.*>> as Extend<')
def c_vmap_extend(ex, st, callee, a):
    m = deref(st, a[0]); o = deref(st, a[1]); pres = m[1]
    for k, _ in o[2]: pres = If(Select(o[1], k), Store(pres, k, True), pres)
    upd(st, a[0], ('vmap', pres, tuple(m[2]) + tuple(o[2]))); return [(None, UNIT)]


def vmap_lookup(m, k):
    """validator stored under key k: later entries win; returns list of (condition, validator)"""
    outs = []; later = []
    for kk, v in reversed(m[2]):
        outs.append((And(kk == k, *[Not(x == k) for x in later]), v)); later.append(kk)
    return outs


@contract(r'^<HashMap<std::string::String, Box<dyn for<.*>> as std::ops::Index<', r'^<HashMap<std::string::String, serde_json::Value> as std::ops::Index<')
def c_vmap_index(ex, st, callee, a):
    m = deref(st, a[0]); k = as_str(st, a[1])
    outs = [(Not(Select(m[1], k)), Panic('HashMap index: key not found (claim_validators)'))]
    for c, v in vmap_lookup(m, k): outs.append((And(Select(m[1], k), c), v))
    return outs


@contract(r'^<&HashMap<std::string::String, Box<dyn erased_serde::Serialize>> as IntoIterator>::into_iter$')
def c_hmap_ref_iter(ex, st, callee, a):
    m = deref(st, a[0])
    if len(m) < 4 or m[3] is None:
        # an explicit loop over an arbitrary claims map: the map is restricted to at most two entries with symbolic keys (a stated bound; the lazy
        # iter().map().collect() pipelines of the unchanged code need no such bound)
        n_ = next(fresh); k1, k2 = String('loop_key%d_a' % n_), String('loop_key%d_b' % n_); b1, b2 = Bool('loop_has%d_a' % n_), Bool('loop_has%d_b' % n_)
        st.pc.append(And(k1 != k2, m[1] == Store(Store(K(S, False), k1, b1), k2, b2)))
        m = ('hmap', m[1], m[2], (k1, k2)); upd(st, a[0], m)
        ex.stats['bounds']['claims map iterated by an explicit loop'] = 'at most 2 entries (symbolic keys)'
    ex.stats['bounds']['entries of an iterated claims map'] = max(ex.stats['bounds'].get('entries of an iterated claims map', 0), len(m[3]))
    return [(None, ('hiter', a[0], m[3], 0, 'claims'))]


@contract(r'^<&HashMap<std::string::String, Box<dyn for<.*>> as IntoIterator>::into_iter$', r'^<&HashMap<std::string::String, serde_json::Value> as IntoIterator>::into_iter$',
          r'^HashMap::<std::string::String, Box<dyn for<.*>>::iter$', r'^HashMap::<std::string::String, serde_json::Value>::iter$')
def c_vmap_ref_iter(ex, st, callee, a):
    m = deref(st, a[0])
    # distinct keys in insertion order
    ks = []
    for k, _ in m[2]:
        if not any(k.eq(x) for x in ks): ks.append(k)
    ex.stats['bounds']['entries of an iterated validator map'] = max(ex.stats['bounds'].get('entries of an iterated validator map', 0), len(ks))
    return [(None, ('hiter', a[0], tuple(ks), 0, 'validators'))]


@contract(r'^<std::collections::hash_map::Iter<.*> as Iterator>::filter::<')
def c_hiter_filter(ex, st, callee, a):
    it = a[0]
    if not (isinstance(it, tuple) and it[0] in ('hiter', 'hfilter')): raise Unsupported('filter over ' + str(it)[:60])
    return [(None, ('hfilter', it, a[1], callee))]


@contract(r'^<std::iter::Filter<std::collections::hash_map::Iter<.*>, .*> as Iterator>::(try_for_each|for_each)::<', r'^<std::collections::hash_map::Iter<.*> as Iterator>::(try_for_each|for_each)::<')
def c_hiter_for_each(ex, st, callee, a):
    """for_each / try_for_each over the (enumerated) entries of a map iterator, with the crate's filter predicates: the loop is unrolled over the entries"""
    it = deref(st, a[0]) if isinstance(a[0], tuple) and a[0][0] == 'ref' else a[0]; preds = []
    while isinstance(it, tuple) and it[0] == 'hfilter': preds.insert(0, (it[2], it[3])); it = it[1]
    if not (isinstance(it, tuple) and it[0] == 'hiter'): raise Unsupported('for_each over ' + str(it)[:60])
    is_try = 'try_for_each' in callee
    done = []; frontier = [(st, it)]
    for _round in range(len(it[2]) + 1):
        nxt = []
        for s1, cur in frontier:
            c = s1.new_cell(cur)
            for o in c_hiter_next(ex, s1, callee, [('ref', c, ())]):
                cond, val = o[0], o[1]; s2 = o[2] if len(o) > 2 else s1.fork()
                if cond is not None:
                    if not ex.feasible(s2, cond): continue
                    s2.pc.append(cond)
                if val[2] == 'None': done.append((s2, ok(UNIT) if is_try else UNIT)); continue
                elem = val[3][0]; cur2 = s2.store[c]
                paths = [(s2, True)]
                for clo, cal in preds:       # Filter passes `&Self::Item`
                    np_ = []
                    for s3, keep in paths:
                        if keep is not True: np_.append((s3, keep)); continue
                        ec = s3.new_cell(elem)
                        for s4, b in cm.call_closure(ex, s3, clo, cal, [('ref', ec, ())]):
                            b = b if is_expr(b) else BoolVal(bool(b))
                            if ex.feasible(s4, b): s5 = s4.fork(); s5.pc.append(b); np_.append((s5, True))
                            if ex.feasible(s4, Not(b)): s6 = s4.fork(); s6.pc.append(Not(b)); np_.append((s6, False))
                    paths = np_
                for s3, keep in paths:
                    if keep is not True: nxt.append((s3, cur2)); continue
                    for s4, r in cm.call_closure(ex, s3, a[1], callee, [elem]):
                        if isinstance(r, Panic): done.append((s4, r)); continue
                        if is_try and isinstance(r, tuple) and r[0] == 'adt' and r[2] == 'Err': done.append((s4, r)); continue
                        if is_try and isinstance(r, tuple) and r[0] == 'adt' and r[1] == 'ControlFlow' and r[2] == 'Break': done.append((s4, r)); continue
                        nxt.append((s4, cur2))
        frontier = nxt
        if not frontier: break
    if frontier: raise Unsupported('for_each: entries not exhausted after unrolling')
    return [(None, r, s2) for s2, r in done]


@contract(r'^<std::collections::hash_map::Iter<.*> as Iterator>::next$')
def c_hiter_next(ex, st, callee, a):
    """next present entry; keys that were removed (or are listed twice) are skipped.  Outcomes carry their own states."""
    outs = []
    def go(s0, conds):
        it = deref(s0, a[0]); mref, keys, pos, kind = it[1], it[2], it[3], it[4]
        if pos >= len(keys):
            outs.append((And(*conds) if conds else None, NONE, s0)); return
        m = deref(s0, mref); k = keys[pos]
        dup = Or(*[keys[j] == k for j in range(pos)]) if pos else BoolVal(False)
        present = simplify(And(Select(m[1], k), Not(dup)))
        s_yes = s0.fork(); upd(s_yes, a[0], ('hiter', mref, keys, pos + 1, kind))
        if not is_false(present):
            if kind == 'claims':
                kc, vc = s_yes.new_cell(k), s_yes.new_cell(('boxed', Select(m[2], k)))
                outs.append((And(*(conds + [present])), some(tup(('ref', kc, ()), ('ref', vc, ()))), s_yes))
            else:
                for c, v in vmap_lookup(m, k):
                    s3 = s_yes.fork(); kc, vc = s3.new_cell(k), s3.new_cell(v)
                    outs.append((And(*(conds + [present, c])), some(tup(('ref', kc, ()), ('ref', vc, ()))), s3))
        if not is_true(present):
            s_no = s0.fork(); upd(s_no, a[0], ('hiter', mref, keys, pos + 1, kind))
            go(s_no, conds + [Not(present)])
    go(st, [])
    return outs


@contract(r'^Box::<.*>::new$')
def c_box_new(ex, st, callee, a): return [(None, ('boxed', a[0]))]


@contract(r'^<Box<dyn .*> as AsRef<dyn ')
def c_box_as_ref(ex, st, callee, a):
    v = deref(st, a[0]); return [(None, v[1] if isinstance(v, tuple) and v[0] == 'boxed' else v)]


@contract(r'^<dyn for<.* as Fn<\(&str, &serde_json::Value\)>>::call$', r'^<&dyn for<.* as Fn<\(&str, &serde_json::Value\)>>::call$',
          r'^<Box<dyn for<.*>> as Fn<\(&str, &serde_json::Value\)>>::call$', r'^<&Box<dyn for<.*>> as Fn<\(&str, &serde_json::Value\)>>::call$')
def c_validator_call(ex, st, callee, a):
    v = a[0]
    while isinstance(v, tuple) and v[0] in ('ref', 'boxed'): v = deref(st, v) if v[0] == 'ref' else v[1]
    args = a[1]; k = as_str(st, args[1][0]); val = to_jv(st, args[1][1])
    if isinstance(v, tuple) and v[0] == 'user_validator':
        st.log.append(('validator_call', v[1], k, val))
        c = validator_ok(IntVal(v[1]), k, val)
        return [(c, ok(UNIT)), (Not(c), err(adt('PasetoClaimError', 'CustomValidation', k)))]
    if isinstance(v, tuple) and v[0] == 'closure':
        st.log.append(('validator_call', v[1], k, val))
        kc, vc = st.new_cell(k), st.new_cell(val)
        return [(None, r, s2) for s2, r in call_closure(ex, st, v, callee, [k, ('ref', vc, ())])]
    if isinstance(v, tuple) and (v[0] == 'fnitem' or (v[0] == 'adt' and v[2] is None and not v[3] and v[1][:1].islower())):
        # a named crate function used as the validator (instead of a closure): its MIR body is run
        name = v[1]; fs = [g for g in ex.fns if g.method == name and not g.impl and '{closure' not in g.name]
        if len(fs) != 1: raise Unsupported('validator function %s: %d bodies' % (name, len(fs)))
        st.log.append(('validator_call', name, k, val)); ex.stats['inlined'].add(fs[0].name)
        vc = st.new_cell(val)
        return [(None, r, s2) for s2, r in ex.run_sub(fs[0], [k, ('ref', vc, ())], st)]
    raise Unsupported('validator value ' + str(v)[:80])


@contract(r'^std::mem::take::<')
def c_mem_take(ex, st, callee, a):
    v = deref(st, a[0])
    if isinstance(v, tuple) and v[0] == 'hmap': d = ('hmap', K(S, False), K(S, JV.Null), ())
    elif isinstance(v, tuple) and v[0] == 'tup' and len(v[1]) == 2 and is_expr(v[1][0]) and is_bool(v[1][0]): d = tup(BoolVal(False), StringVal(''))
    elif is_expr(v) and is_bool(v): d = BoolVal(False)
    elif is_expr(v) and is_string(v): d = StringVal('')
    elif isinstance(v, tuple) and v[0] == 'adt' and v[1] == 'Option': d = NONE
    else: raise Unsupported('mem::take of ' + str(v)[:60])
    upd(st, a[0], d); return [(None, v)]


@contract(r'^<std::string::String as Default>::default$', r'^<&str as Default>::default$')
def c_string_default(ex, st, callee, a): return [(None, StringVal(''))]


# ----------------------------------------------------------------------------- time / iso8601
rfc3339_off = Function('rfc3339_offset_seconds', S, I)


@contract(r'^OffsetDateTime::now_utc$')
def c_now(ex, st, callee, a):
    t = Int('now%d' % next(fresh)); st.log.append(('now', t)); st.pc.append(And(t > 0, t < 2**70)); return [(None, ('instant', t, IntVal(0)))]


def _off(v): return v[2] if len(v) > 2 else IntVal(0)


@contract(r'^OffsetDateTime::replace_offset$')
def c_replace_offset(ex, st, callee, a):
    """keeps the local date-time, swaps the offset: the instant moves by the difference of the offsets"""
    v = deref(st, a[0]); o = deref(st, a[1]); new = o[1] if isinstance(o, tuple) and o[0] == 'utcoffset' else None
    if isinstance(o, tuple) and o[0] == 'extern_const' and o[1].endswith('UtcOffset::UTC'): new = IntVal(0)
    if new is None: raise Unsupported('replace_offset(%s)' % str(o)[:40])
    return [(None, ('instant', v[1] + (_off(v) - new) * 10**9, new))]


@contract(r'^OffsetDateTime::to_offset$')
def c_to_offset(ex, st, callee, a):
    v = deref(st, a[0]); o = deref(st, a[1]); new = IntVal(0) if (isinstance(o, tuple) and o[0] == 'extern_const') else (o[1] if isinstance(o, tuple) and o[0] == 'utcoffset' else None)
    if new is None: raise Unsupported('to_offset(%s)' % str(o)[:40])
    # time documents: panics when the local date-time in the new offset is outside -9999-01-01 ..= 9999-12-31 (default feature set of the time crate)
    local = v[1] + new * 10**9; inside = And(local >= -377705116800 * 10**9, local < 253402300800 * 10**9)
    return [(Not(inside), Panic('OffsetDateTime::to_offset: local datetime out of valid range')), (inside, ('instant', v[1], new))]


@contract(r'^OffsetDateTime::unix_timestamp$')
def c_unix_ts(ex, st, callee, a):
    v = deref(st, a[0]); q = Int('unix_ts%d' % next(fresh)); st.pc.append(And(q * 10**9 <= v[1], v[1] < (q + 1) * 10**9)); return [(None, q)]


@contract(r'^OffsetDateTime::unix_timestamp_nanos$')
def c_unix_ns(ex, st, callee, a): return [(None, deref(st, a[0])[1])]


@contract(r'^(time::)?(Signed)?Duration::(seconds|minutes|days|weeks|milliseconds)$')
def c_duration(ex, st, callee, a):
    unit = {'seconds': 10**9, 'minutes': 60 * 10**9, 'days': 86400 * 10**9, 'weeks': 7 * 86400 * 10**9, 'milliseconds': 10**6}[callee.split('::')[-1]]
    return [(None, ('duration', a[0] * unit))]


@contract(r'^<OffsetDateTime as Sub<')
def c_instant_sub(ex, st, callee, a):
    x, y = deref(st, a[0]), deref(st, a[1])
    if y[0] == 'duration': return [(None, ('instant', x[1] - y[1], _off(x)))]
    return [(None, ('duration', x[1] - y[1]))]


@contract(r'^SignedDuration::hours$', r'^time::Duration::hours$', r'^Duration::hours$')
def c_hours(ex, st, callee, a): return [(None, ('duration', a[0] * 3600 * 10**9))]


@contract(r'^<OffsetDateTime as Add<')
def c_instant_add(ex, st, callee, a):
    x, y = deref(st, a[0]), deref(st, a[1])
    if x[0] == 'duration': x, y = y, x
    return [(None, ('instant', x[1] + y[1], _off(x)))]


@contract(r'^OffsetDateTime::format::<Rfc3339>$')
def c_format3339(ex, st, callee, a):
    t = deref(st, a[0])[1]; return [(None, ok(render3339(t)))]      # formatting a valid UTC instant does not fail


@contract(r'^OffsetDateTime::parse::<Rfc3339>$')
def c_parse3339(ex, st, callee, a):
    s_ = as_str(st, a[0]); st.log.append(('rfc3339_parse', s_))
    return [(rfc3339_ok(s_), ok(('instant', rfc3339(s_), rfc3339_off(s_)))), (Not(rfc3339_ok(s_)), err(adt('TimeParseError', None)))]


@contract(r'^<OffsetDateTime as PartialOrd>::(le|lt|ge|gt)$', r'^<OffsetDateTime as PartialEq>::(eq|ne)$')
def c_instant_cmp(ex, st, callee, a):
    x, y = deref(st, a[0])[1], deref(st, a[1])[1]; op = callee[-3:-1] if False else callee.split('::')[-1]
    return [(None, {'le': x <= y, 'lt': x < y, 'ge': x >= y, 'gt': x > y, 'eq': x == y, 'ne': x != y}[op])]


@contract(r'^<OffsetDateTime as ToString>::to_string$')
def c_instant_to_string(ex, st, callee, a): return [(None, String('datetime_text%d' % next(fresh)))]


@contract(r'^datetime$', r'^iso8601::datetime$')
def c_iso8601(ex, st, callee, a):
    s_ = as_str(st, a[0]); st.log.append(('iso8601', s_))
    return [(iso8601_ok(s_), ok(adt('Iso8601DateTime', None))), (Not(iso8601_ok(s_)), err(StringVal('iso8601 parse error')))]


# ----------------------------------------------------------------------------- summaries of the core entry points
CORE_RE = r"<impl paseto::Paseto<'_, ([\w:]+), ([\w:]+)>>::try_(encrypt|sign|decrypt|verify)"


def proto_of(callee):
    m = re.search(CORE_RE, callee); v = m.group(1).split('::')[-1].lower(); p = m.group(2).split('::')[-1].lower()
    return '%s.%s' % (v, p), m.group(3)


def opt_str(st, o, what):
    o = deref(st, o)
    if isinstance(o, tuple) and o[0] == 'adt' and o[1] == 'Option': return StringVal('') if o[2] == 'None' else as_str(st, o[3][0])
    return as_str(st, o)     # a Footer / ImplicitAssertion passed directly (impl Into<Option<..>>)


@contract(CORE_RE)
def c_core(ex, st, callee, a):
    proto, op = proto_of(callee); pid = IntVal(PROTO_ID[proto])
    if op in ('encrypt', 'sign'):
        me = deref(st, a[0]); key = as_bytes(st, a[1])
        names = ex.world_fields('Paseto'); f = dict(zip(names, me[3]))
        payload = as_str(st, f['payload']); footer = opt_str(st, f['footer'], 'footer'); assertion = opt_str(st, f['implicit_assertion'], 'assertion')
        nonce = as_bytes(st, a[2]) if op == 'encrypt' else Empty(Bytes)
        tokn = core_token(pid, key, nonce, payload, footer, assertion)
        st.log.append(('core_build', proto, key, nonce, payload, footer, assertion, tokn))
        s2 = st.fork()
        return [(None, ok(tokn), st), (None, err(adt('PasetoError', 'Cryption')), s2)]
    tok = as_str(st, a[0]); key = as_bytes(st, a[1]); footer = opt_str(st, a[2], 'footer'); assertion = opt_str(st, a[3], 'assertion') if len(a) > 3 else StringVal('')
    st.log.append(('core_parse', proto, tok, key, footer, assertion))
    acc = core_accepts(pid, tok, key, footer, assertion)
    return [(acc, ok(core_plain(pid, tok, key, footer, assertion))), (Not(acc), err(adt('PasetoError', 'InvalidSignature')))]


def core_lemmas(assertions):
    """C01-C06 as a summary: a token built by the core is accepted exactly under the same key / footer / assertion and yields its payload"""
    apps = cm.applications(assertions); lem = []
    toks = apps.get('core_token', [])
    for acc in apps.get('core_accepts', []):
        pid, tok, key, f, a_ = acc.children()
        for t in toks:
            same = And(t.arg(0) == pid, t.arg(1) == key, t.arg(4) == f, t.arg(5) == a_)
            lem.append(Implies(tok == t, acc == same))
            lem.append(Implies(And(tok == t, acc), core_plain(pid, tok, key, f, a_) == t.arg(3)))
    for x, y in itertools.combinations(toks, 2):
        lem.append(Implies(x == y, And(*[x.arg(i) == y.arg(i) for i in range(6)])))
    return lem


def json_lemmas(assertions):
    apps = cm.applications(assertions); lem = []
    for t in apps.get('json_text', []):
        lem.append(And(jparse_ok(t), jparse(t) == t.arg(0)))
    for x, y in itertools.combinations(apps.get('json_text', []), 2): lem.append(Implies(x == y, x.arg(0) == y.arg(0)))
    for t in apps.get('rfc3339_format', []):
        lem.append(And(rfc3339_ok(t), rfc3339(t) == t.arg(0), iso8601_ok(t)))
    for x, y in itertools.combinations(apps.get('rfc3339_format', []), 2): lem.append(Implies(x == y, x.arg(0) == y.arg(0)))
    ids = set()
    for n in ('json_member', 'json_has', 'json_len'):
        for t in apps.get(n, []): ids.add(t.arg(0))
    for o in ids:
        lem.append(jlen(o) >= 0); lem.append(Implies(jlen(o) == 0, o == EMPTY_OBJ))
    lem.append(jlen(EMPTY_OBJ) == 0)
    for t in apps.get('json_has', []):
        lem.append(Implies(Not(t), jmember(t.arg(0), t.arg(1)) == JV.Null)); lem.append(Implies(t, jlen(t.arg(0)) >= 1))
        lem.append(Implies(t.arg(0) == EMPTY_OBJ, Not(t)))
    for t in apps.get('json_obj_of_map', []):
        # size of a map written as a chain of stores over the empty map (at most 3 stores)
        p = t.arg(0); ks = []
        while is_app(p) and p.decl().kind() == Z3_OP_STORE and len(ks) < 4:
            ks.append((p.arg(1), p.arg(2))); p = p.arg(0)
        if is_app(p) and p.decl().kind() == Z3_OP_CONST_ARRAY and is_false(p.arg(0)) and ks and all(is_true(v) for _, v in ks):
            if len(ks) == 1: lem.append(jlen(t) == 1)
            elif len(ks) == 2: lem.append(jlen(t) == If(ks[0][0] == ks[1][0], 1, 2))
            elif len(ks) == 3:
                a_, b_, c_ = ks[0][0], ks[1][0], ks[2][0]
                lem.append(jlen(t) == If(And(a_ == b_, b_ == c_), 1, If(Or(a_ == b_, b_ == c_, a_ == c_), 2, 3)))
        elif is_app(p) and p.decl().kind() == Z3_OP_CONST_ARRAY and is_false(p.arg(0)) and not ks: lem.append(jlen(t) == 0)
    for t in apps.get('json_obj_of_map', []):
        for u in apps.get('json_has', []) + apps.get('json_member', []):
            k = u.arg(1)
            lem.append(Implies(u.arg(0) == t, And(jhas(t, k) == Select(t.arg(0), k), jmember(t, k) == If(Select(t.arg(0), k), Select(t.arg(1), k), JV.Null))))
    return lem


@contract(r'^<std::option::Option<.*> as Default>::default$')
def c_option_default(ex, st, callee, a): return [(None, NONE)]


@contract(r'^<PhantomData<.*> as Default>::default$', r'^<std::marker::PhantomData<.*> as Default>::default$')
def c_phantom_default(ex, st, callee, a): return [(None, adt('PhantomData', None))]


UPPER_CONTRACTS = CONTRACTS


# ----------------------------------------------------------------------------- abstract claim values handed to set_claim / check_claim
@contract(r' as claims::traits::PasetoClaim>::get_key$', r' as PasetoClaim>::get_key$')
def c_claim_get_key(ex, st, callee, a):
    v = deref(st, a[0])
    if isinstance(v, tuple) and v[0] == 'opaque_claim': return [(None, v[1])]
    if isinstance(v, tuple) and v[0] == 'adt':      # a claim type of the crate: run its own get_key
        f = [g for g in ex.fns if g.method == 'get_key' and g.impl and g.impl[0] and 'PasetoClaim' in g.impl[0] and re.sub(r'<.*', '', g.impl[1]).strip().split('::')[-1] == v[1]]
        if len(f) == 1:
            ex.stats['inlined'].add(f[0].name)
            return [(None, r, s2) for s2, r in ex.run_sub(f[0], [a[0]], st)]
    raise Unsupported('get_key of ' + str(v)[:60])


_old_serialize_value = serialize_value
def serialize_value(ex, st, v):
    d = deref(st, v)
    if isinstance(d, tuple) and d[0] == 'opaque_claim':
        # contract of the PasetoClaim + Serialize pair for a user type: a one-entry map {get_key(): value}
        return [(st, mk_obj(Store(K(S, False), d[1], True), Store(K(S, JV.Null), d[1], d[2])))]
    return _old_serialize_value(ex, st, v)


# ----------------------------------------------------------------------------- further std / serde_json API surface (used by plausible rewrites of the crate)
def _enumerated_present(m):
    if len(m) > 3 and m[3] is not None: return [Select(m[1], k) for k in m[3]]
    if m[0] == 'vmap': return [Select(m[1], k) for k, _ in m[2]]
    raise Unsupported('size of a map whose keys are not enumerated')


@contract(r'^HashMap::<std::string::String, Box<dyn .*>>::is_empty$')
def c_hm_is_empty(ex, st, callee, a):
    ps = _enumerated_present(deref(st, a[0])); return [(None, Not(Or(*ps)) if ps else BoolVal(True))]


@contract(r'^HashMap::<std::string::String, Box<dyn .*>>::len$')
def c_hm_len(ex, st, callee, a):
    m = deref(st, a[0]); keys = list(m[3]) if (len(m) > 3 and m[0] == 'hmap') else [k for k, _ in m[2]]
    tot = IntVal(0)
    for i, k in enumerate(keys): tot = tot + If(And(Select(m[1], k), *[keys[j] != k for j in range(i)]), 1, 0)
    return [(None, tot)]


@contract(r'^HashMap::<std::string::String, Box<dyn erased_serde::Serialize>>::get::<')
def c_hmap_get(ex, st, callee, a):
    m = deref(st, a[0]); k = as_str(st, a[1])
    vc = st.new_cell(('boxed', Select(m[2], k)))
    return [(Select(m[1], k), some(('ref', vc, ()))), (Not(Select(m[1], k)), NONE)]


@contract(r'^HashMap::<std::string::String, Box<dyn for<.*>>::get::<', r'^HashMap::<std::string::String, serde_json::Value>::get::<')
def c_vmap_get(ex, st, callee, a):
    m = deref(st, a[0]); k = as_str(st, a[1])
    outs = [(Not(Select(m[1], k)), NONE)]
    for c, v in vmap_lookup(m, k):
        s2 = st.fork(); vc = s2.new_cell(v); outs.append((And(Select(m[1], k), c), some(('ref', vc, ())), s2))
    return outs


jpointer_special = Function('json_pointer_result', JV, S, JV)


@contract(r'^serde_json::Value::pointer$')
def c_value_pointer(ex, st, callee, a):
    """RFC 6901 pointer: "/" + key addresses member `key` only when key contains neither '/' nor '~'"""
    v = to_jv(st, a[0]); p = as_str(st, a[1])
    key = SubString(p, 1, Length(p) - 1)
    plain = And(PrefixOf(StringVal('/'), p), Not(Contains(key, StringVal('/'))), Not(Contains(key, StringVal('~'))))
    hit = And(JV.is_Obj(v), jhas(JV.o(v), key))
    r = jpointer_special(v, p); anyres = Bool('pointer_some%d' % next(fresh))
    vc1 = st.new_cell(jindex(v, key)); vc2 = st.new_cell(r)
    return [(And(plain, hit), some(('ref', vc1, ()))), (And(plain, Not(hit)), NONE),
            (And(Not(plain), anyres), some(('ref', vc2, ()))), (And(Not(plain), Not(anyres)), NONE)]


@contract(r'^serde_json::Value::get::<&?(str|std::string::String|&std::string::String)>$', r'^serde_json::Value::get::<')
def c_value_get(ex, st, callee, a):
    v = to_jv(st, a[0]); k = as_str(st, a[1]); hit = And(JV.is_Obj(v), jhas(JV.o(v), k))
    vc = st.new_cell(jindex(v, k))
    return [(hit, some(('ref', vc, ()))), (Not(hit), NONE)]


@contract(r'^serde_json::Value::is_object$')
def c_is_object(ex, st, callee, a): return [(None, JV.is_Obj(to_jv(st, a[0])))]


@contract(r'^<serde_json::Value as Clone>::clone$')
def c_value_clone(ex, st, callee, a): return [(None, to_jv(st, a[0]))]


# ----------------------------------------------------------------------------- slices of &str, iterator predicates, ASCII case, trim (C18)
ascii_lower = Function('ascii_lowercase', S, S)
str_trim = Function('str_trim', S, S)


def _str_array(st, v):
    v = deref(st, v)
    while isinstance(v, tuple) and v[0] == 'ref': v = deref(st, v)
    if isinstance(v, tuple) and v[0] == 'array': return [deref(st, x) for x in v[1]]
    raise Unsupported('array of strings: ' + str(v)[:60])


@contract(r'^core::slice::<impl \[&str\]>::contains$')
def c_str_slice_contains(ex, st, callee, a):
    xs = _str_array(st, a[0]); k = as_str(st, a[1])
    ex.stats['bounds']['elements of a searched &str array'] = len(xs)
    return [(None, Or(*[k == x for x in xs]) if xs else BoolVal(False))]


@contract(r'^core::slice::<impl \[&str\]>::iter$')
def c_str_slice_iter(ex, st, callee, a): return [(None, ('striter', tuple(_str_array(st, a[0]))))]


@contract(r'^<std::slice::Iter<\'_, &str> as Iterator>::any::<')
def c_str_iter_any(ex, st, callee, a):
    it = deref(st, a[0]); xs = it[1]; states = [(st, BoolVal(False))]
    for x in xs:
        nxt = []
        for s1, acc in states:
            xc = s1.new_cell(x)
            for s2, r in call_closure(ex, s1, a[1], callee, [('ref', xc, ())]): nxt.append((s2, Or(acc, r)))
        states = nxt
    return [(None, simplify(acc), s2) for s2, acc in states]


@contract(r'^core::str::<impl str>::eq_ignore_ascii_case$')
def c_eq_ignore_case(ex, st, callee, a): return [(None, ascii_lower(as_str(st, a[0])) == ascii_lower(as_str(st, a[1])))]


@contract(r'^core::str::<impl str>::(to_ascii_lowercase|to_lowercase)$')
def c_to_lower(ex, st, callee, a): return [(None, ascii_lower(as_str(st, a[0])))]


@contract(r'^core::str::<impl str>::(trim|trim_start|trim_end)$')
def c_trim(ex, st, callee, a):
    x = as_str(st, a[0])
    if is_string_value(x) and all(ord(c) < 128 for c in x.as_string()):       # a literal: computed (ASCII white space as in Rust's White_Space restricted to ASCII)
        t = x.as_string(); ws = ' \t\n\r\x0b\x0c'; kind = callee.split('::')[-1]
        return [(None, StringVal(t.strip(ws) if kind == 'trim' else (t.lstrip(ws) if kind == 'trim_start' else t.rstrip(ws))))]
    return [(None, str_trim(x))]


def text_lemmas(assertions):
    apps = cm.applications(assertions); lem = []
    for t in apps.get('ascii_lowercase', []):
        x = t.arg(0)
        if is_string_value(x): lem.append(t == StringVal(x.as_string().lower()))
        lem.append(ascii_lower(t) == t); lem.append(Length(t) == Length(x))
    for t in apps.get('str_trim', []):
        lem.append(Length(t) <= Length(t.arg(0))); lem.append(str_trim(t) == t)
    return lem


@contract(r'^serde_json::Value::(as_object|as_object_mut)$')
def c_as_object(ex, st, callee, a):
    v = to_jv(st, a[0]); c = st.new_cell(('jmapid', JV.o(v)))
    return [(JV.is_Obj(v), some(('ref', c, ()))), (Not(JV.is_Obj(v)), NONE)]


@contract(r'^serde_json::Value::take$')
def c_value_take(ex, st, callee, a):
    v = to_jv(st, a[0]); upd(st, a[0], JV.Null); return [(None, v)]


@contract(r'^serde_json::Value::pointer_mut$')
def c_value_pointer_mut(ex, st, callee, a):
    outs = c_value_pointer(ex, st, callee, a)
    return outs
