"""A checking session: symbolic runs + solver queries + bookkeeping for the evidence file."""
import time, json, os, re, traceback
from z3 import *
from . import solve, coremodel as cm
from .mirx import Unsupported, Panic


class Undecided(Exception):
    """the technique could not decide (unsupported construct, solver unknown/timeout/disagreement, replay did not reproduce)"""


class Session:
    def __init__(self, tier='quick', seed=0):
        self.tier, self.seed = tier, seed
        self.timeout = 120.0 if tier == 'quick' else 600.0      # clean-tree queries take at most a few seconds; the margin is for slower or loaded machines
        self.confirm = tier != 'quick'
        self.queries = []          # dicts: name, verdict, expected, solver, time
        self.violations = []       # dicts: what, detail, replay (recipe)
        self.notes = []; self.abstracted = []
        self.samples = []
        self.functions = set(); self.contracts = set(); self.bounds = {}
        self.paths = 0; self.blocks = 0
        self.witnesses = []        # vacuity witnesses (name, verdict)
        self.native_runs = 0
        self.undecided = []

    # ------------------------------------------------------------------ bookkeeping
    def absorb(self, ex):
        self.functions |= set(ex.stats['inlined']); self.contracts |= set(ex.stats['contracts'])
        for k, v in ex.stats['bounds'].items(): self.bounds[k] = v
        self.paths += ex.stats['paths']; self.blocks += ex.stats.get('blocks', 0)
        ex.stats['paths'] = 0; ex.stats['blocks'] = 0
        for u in ex.stats.pop('unsupported', []): self.undecided.append('path abandoned: ' + u)
        for u in ex.stats.pop('abstracted', []):
            if u not in self.abstracted: self.abstracted.append(u); self.notes.append('abstraction: ' + u)

    # ------------------------------------------------------------------ queries
    def ask(self, name, assertions, expect, honest=None, attacker=(), values=None, extra_lemmas=(), timeout=None):
        """expect: 'unsat' (obligation) or 'sat' (vacuity witness).  Returns (verdict, record).
        Lemma instances of the idealisation axioms are added for the terms of this very query."""
        base = list(assertions)
        lem = cm.instantiate(base + list(extra_lemmas))
        if honest is not None: lem += cm.unforgeability(base + lem, honest, list(attacker))
        lem2 = cm.instantiate(base + lem + list(extra_lemmas), rounds=1)
        full = base + list(extra_lemmas) + lem + [l for l in lem2 if all(not l.eq(x) for x in lem[:0])]
        rec = solve.check(full, timeout=timeout or self.timeout, name=name, confirm=(self.confirm and expect == 'unsat'), get_values=values)
        rec['expected'] = expect; rec['lemma_instances'] = len(lem) + len(lem2)
        v = rec['verdict']
        self.queries.append({k: rec[k] for k in ('name', 'verdict', 'expected', 'solver', 'agree', 'time_s', 'lemma_instances', 'per_solver')})
        if v not in ('sat', 'unsat'):
            self.undecided.append('%s: %s %s' % (name, v, rec.get('per_solver')))
        return v, rec

    def obligation(self, name, assertions, **kw):
        """assertions must be unsatisfiable; returns None if discharged, the solver record (with values) if sat"""
        v, rec = self.ask(name, assertions, 'unsat', **kw)
        if v == 'unsat': return None
        if v == 'sat': return rec
        return None     # undecided: recorded in self.undecided, turns the whole check into exit 2

    def witness(self, name, assertions, **kw):
        v, rec = self.ask(name, assertions, 'sat', **kw)
        self.witnesses.append((name, v))
        if v == 'unsat': self.undecided.append('vacuity witness %s is unsat: the harness does not reach its assertion' % name)
        return v == 'sat', rec

    def violation(self, what, detail, replay=None):
        self.violations.append({'what': what, 'detail': detail, 'replay': replay})

    def merge(self, d):
        """merge a plain-dict result produced by a worker process"""
        self.queries += d['queries']; self.violations += d['violations']; self.notes += d['notes']; self.samples += d['samples']
        self.functions |= set(d['functions']); self.contracts |= set(d['contracts']); self.bounds.update(d['bounds'])
        self.paths += d['paths']; self.blocks += d['blocks']; self.witnesses += d['witnesses']; self.undecided += d['undecided']
        self.native_runs += d.get('native_runs', 0)
        self.abstracted += [a for a in d.get('abstracted', []) if a not in self.abstracted]

    def export(self):
        return {'queries': self.queries, 'violations': self.violations, 'notes': self.notes, 'samples': self.samples,
                'functions': sorted(self.functions), 'contracts': sorted(self.contracts), 'bounds': self.bounds,
                'paths': self.paths, 'blocks': self.blocks, 'witnesses': self.witnesses, 'undecided': self.undecided, 'native_runs': self.native_runs, 'abstracted': self.abstracted}


def model_bytes(rec, terms):
    """concrete python values for `terms` from a solver record obtained with get_values=terms (same order)"""
    vals = solve.parse_values(rec.get('values') or '')
    out = [v for _, v in vals]
    return out if len(out) == len(terms) else [None] * len(terms)
