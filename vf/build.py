"""Regenerates everything the checks consume from /repo's *current working tree*.

Nothing here copies or edits /repo: rustc is driven through cargo with an external target directory
(/verif/.cache/..., git-ignored) and -Zunpretty=mir / rustdoc JSON go to files under /verif/.cache keyed by a
content hash of the working tree (src/**, Cargo.toml, Cargo.lock, build.rs) plus the flags.  A changed tree
therefore always produces a fresh dump; an unchanged tree re-uses the dump the previous check produced
(20 checks on one tree pay for one dump).
"""
import hashlib, os, subprocess, sys, time, glob, json, shutil, fcntl

REPO = os.environ.get('VF_REPO', '/repo')
VERIF = os.path.dirname(os.path.dirname(os.path.abspath(__file__)))
CACHE = os.path.join(VERIF, '.cache')
ALL_PROTOCOLS = ['v1_local', 'v2_local', 'v3_local', 'v4_local', 'v1_public', 'v2_public', 'v3_public', 'v4_public']
ALL_FEATURES = ','.join(ALL_PROTOCOLS + ['batteries_included'])
ENV = dict(os.environ, CARGO_NET_OFFLINE='true', RUSTUP_TOOLCHAIN_NIGHTLY='nightly')


def tree_hash(extra=''):
    h = hashlib.sha256()
    files = sorted(glob.glob(REPO + '/src/**/*.rs', recursive=True)) + [REPO + '/Cargo.toml', REPO + '/Cargo.lock', REPO + '/build.rs']
    for f in files:
        if os.path.isfile(f):
            h.update(f[len(REPO):].encode()); h.update(b'\0'); h.update(open(f, 'rb').read()); h.update(b'\0')
    h.update(extra.encode())
    return h.hexdigest()[:20]


class Lock:
    def __init__(self, name):
        os.makedirs(CACHE, exist_ok=True); self.path = os.path.join(CACHE, name + '.lock')
    def __enter__(self):
        self.f = open(self.path, 'w'); fcntl.flock(self.f, fcntl.LOCK_EX); return self
    def __exit__(self, *a):
        fcntl.flock(self.f, fcntl.LOCK_UN); self.f.close()


def _prune(dirpath, keep=6):
    fs = sorted(glob.glob(dirpath + '/*'), key=os.path.getmtime)
    for f in fs[:-keep]:
        try: shutil.rmtree(f) if os.path.isdir(f) else os.unlink(f)
        except OSError: pass


def mir_dump(features=ALL_FEATURES, overflow_checks=True):
    """returns (path of MIR text, info dict).  Raises RuntimeError when the tree does not compile."""
    flags = '-Zunpretty=mir -C debug-assertions=off -C overflow-checks=%s' % ('on' if overflow_checks else 'off')
    key = tree_hash(features + flags)
    d = os.path.join(CACHE, 'mir'); os.makedirs(d, exist_ok=True)
    path = os.path.join(d, key + '.mir')
    info = {'features': features, 'rustc_flags': flags, 'tree_hash': key, 'cached': True}
    with Lock('mir'):
        if os.path.exists(path) and os.path.getsize(path) > 1000:
            os.utime(path); return path, info
        t0 = time.time()
        cmd = ['cargo', '+nightly', 'rustc', '--offline', '--lib', '--no-default-features', '--features', features, '--',
               '--cfg', 'vf_nonce_%s' % key] + flags.split()
        env = dict(ENV, CARGO_TARGET_DIR=os.path.join(CACHE, 'tgt-mir'))
        p = subprocess.run(cmd, cwd=REPO, env=env, capture_output=True, text=True)
        if p.returncode != 0 or len(p.stdout) < 1000:
            raise RuntimeError('MIR dump failed (features %s):\n%s' % (features, p.stderr[-3000:]))
        tmp = path + '.tmp%d' % os.getpid(); open(tmp, 'w').write(p.stdout); os.replace(tmp, path)
        info['cached'] = False; info['dump_s'] = round(time.time() - t0, 1)
        _prune(d)
    return path, info


def rustdoc_json(features=ALL_FEATURES):
    key = tree_hash('rustdoc' + features)
    d = os.path.join(CACHE, 'rustdoc'); os.makedirs(d, exist_ok=True)
    path = os.path.join(d, key + '.json')
    info = {'features': features, 'tree_hash': key, 'cached': True}
    with Lock('rustdoc'):
        if os.path.exists(path) and os.path.getsize(path) > 1000:
            os.utime(path); return path, info
        t0 = time.time()
        tgt = os.path.join(CACHE, 'tgt-doc')
        cmd = ['cargo', '+nightly', 'rustdoc', '--offline', '--lib', '--no-default-features', '--features', features, '--',
               '-Z', 'unstable-options', '--output-format', 'json', '--document-private-items', '--cfg', 'vf_nonce_%s' % key]
        p = subprocess.run(cmd, cwd=REPO, env=dict(ENV, CARGO_TARGET_DIR=tgt), capture_output=True, text=True)
        out = os.path.join(tgt, 'doc', 'rusty_paseto.json')
        if p.returncode != 0 or not os.path.exists(out):
            raise RuntimeError('rustdoc JSON failed (features %s):\n%s' % (features, p.stderr[-3000:]))
        shutil.copy(out, path); os.unlink(out)
        info['cached'] = False; info['dump_s'] = round(time.time() - t0, 1)
        _prune(d)
    return path, info


def cargo_check(features, default=False):
    """plain `cargo check` of the working tree for one feature set (stable toolchain of the repo)"""
    cmd = ['cargo', 'check', '--offline', '--lib'] + ([] if default else ['--no-default-features']) + (['--features', features] if features else [])
    with Lock('check'):
        p = subprocess.run(cmd, cwd=REPO, env=dict(ENV, CARGO_TARGET_DIR=os.path.join(CACHE, 'tgt-check')), capture_output=True, text=True)
    return p.returncode == 0, p.stderr


def replay_binary():
    """builds /verif/replay against the working tree (path dependency on /repo); returns the binary path"""
    src, tgt = crate_for_repo('replay')
    with Lock('replay'):
        p = subprocess.run(['cargo', 'build', '--offline', '--release'], cwd=src, env=dict(ENV, CARGO_TARGET_DIR=tgt), capture_output=True, text=True)
    if p.returncode != 0: raise RuntimeError('verif-replay does not build against the working tree:\n' + p.stderr[-3000:])
    return os.path.join(tgt, 'release', 'verif-replay')


def crate_for_repo(name):
    """the replay crates depend on the repository by path; when the checks are pointed at another checkout (VF_REPO) a copy of the crate with that
    path is used so that natively replayed code is always the code whose MIR was analysed"""
    src = os.path.join(VERIF, name); tgt = os.path.join(CACHE, 'tgt-' + name)
    if REPO == '/repo': return src, tgt
    tag = hashlib.sha1(REPO.encode()).hexdigest()[:8]
    dst = os.path.join(CACHE, '%s-src-%s' % (name, tag))
    subprocess.run(['rsync', '-a', '--delete', '--exclude', 'target', src + '/', dst + '/'], check=True)
    t = open(os.path.join(dst, 'Cargo.toml')).read().replace('path = "/repo"', 'path = "%s"' % REPO)
    open(os.path.join(dst, 'Cargo.toml'), 'w').write(t)
    if name == 'replay_cfg':      # include_bytes! of the RSA fixtures is relative to the sibling crate
        m = os.path.join(dst, 'src', 'main.rs'); txt = open(m).read(); open(m, 'w').write(txt.replace('../../replay/keys/', os.path.join(VERIF, 'replay', 'keys') + '/'))
    return dst, tgt + '-' + tag


def dependency_fingerprint():
    """the [dependencies] table of the working tree's Cargo.toml (version requirement, features, default-features, optional) and the versions Cargo.lock resolves them to.
    The contracts of vf/coremodel.py and vf/uppermodel.py describe those crates as built with exactly these settings."""
    import re as _re
    txt = open(os.path.join(REPO, 'Cargo.toml')).read()
    m = _re.search(r'^\[dependencies\]\n(.*?)(?=^\[)', txt + '\n[', _re.S | _re.M)
    deps = {}
    for line in (m.group(1) if m else '').split('\n'):
        line = line.split('#')[0].strip()
        mm = _re.match(r'([\w-]+)\s*=\s*(.*)$', line)
        if mm: deps[mm.group(1)] = _re.sub(r'\s+', ' ', mm.group(2)).strip()
    for sec in _re.finditer(r'^\[dependencies\.([\w-]+)\]\n(.*?)(?=^\[)', txt + '\n[', _re.S | _re.M):
        deps[sec.group(1)] = _re.sub(r'\s+', ' ', ' '.join(l.split('#')[0].strip() for l in sec.group(2).split('\n') if l.strip()))
    def canon(spec):
        # `"0.22"` and `{ version = "0.22", optional = false }` say the same thing: normalise to (version, sorted features, default-features, optional, anything else)
        spec = spec.strip()
        if spec.startswith('"'): return {'version': spec.strip('"'), 'features': [], 'default-features': True, 'optional': False}
        out = {'version': None, 'features': [], 'default-features': True, 'optional': False}
        body = spec.strip('{} ')
        for mm in _re.finditer(r'([\w-]+)\s*=\s*(\[[^\]]*\]|"[^"]*"|true|false|[^,]+)', body):
            k, v = mm.group(1), mm.group(2).strip()
            if v in ('true', 'false'): v = (v == 'true')
            elif v.startswith('['): v = sorted(x.strip().strip('"') for x in v.strip('[]').split(',') if x.strip())
            else: v = v.strip('"')
            out[k.replace('default_features', 'default-features')] = v
        return out
    deps = {k: canon(v) for k, v in deps.items()}
    lock = {}
    lp = os.path.join(REPO, 'Cargo.lock')
    if os.path.exists(lp):
        for pk in _re.finditer(r'\[\[package\]\]\nname = "([^"]+)"\nversion = "([^"]+)"', open(lp).read()):
            if pk.group(1) in deps: lock.setdefault(pk.group(1), []).append(pk.group(2))
    return {'dependencies': deps, 'resolved': {k: sorted(v) for k, v in lock.items()}}
