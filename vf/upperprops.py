"""Drivers for the generic / prelude layers: symbolic builder and parser states, step functions run from MIR."""
import re
from z3 import *
from .mirx import *
from . import coremodel as cm, uppermodel as um, solve
from .uppermodel import JV, S, K
from .core import *
from .coreprops import world, run_jobs, is_ok, is_err, new_state, fmt_model, describe
from .session import Session

PB = 'src/prelude/paseto_builder.rs'; GB = 'src/generic/builders/generic_builder.rs'
GP = 'src/generic/parsers/generic_parser.rs'; PP = 'src/prelude/paseto_parser.rs'
VT = {'v1': 'version::v1::V1', 'v2': 'v2::V2', 'v3': 'v3::V3', 'v4': 'v4::V4'}


def upper_executor(w):
    ex = w.executor(um.CONTRACTS)
    ex.ih['wrap_value'] = lambda v: v        # wrap_value(v) == v: inductive step discharged in C14 (job_wrap_value_step)
    return ex


def upper_ask(ses, name, assertions, expect='unsat', values=None, extra=()):
    base = list(assertions)
    lem = um.core_lemmas(base) + um.json_lemmas(base) + um.text_lemmas(base)
    lem += um.json_lemmas(base + lem)
    v, rec = ses.ask(name, base, expect, values=values, extra_lemmas=lem + list(extra))
    return v, rec


def upper_obligation(ses, name, assertions, values=None, extra=()):
    v, rec = upper_ask(ses, name, assertions, 'unsat', values, extra)
    return rec if v == 'sat' else None


class SymBuilder:
    """an arbitrary PasetoBuilder / GenericBuilder state"""
    def __init__(self, w, tag=''):
        self.w = w
        self.P = Const('claims_present' + tag, ArraySort(S, BoolSort())); self.V = Const('claims_value' + tag, ArraySort(S, JV))
        self.TL = Const('top_level' + tag, ArraySort(S, BoolSort()))
        self.DUP = Bool('dup_found' + tag); self.DUPK = String('dup_key' + tag); self.NE = Bool('non_expiring' + tag)
        self.F = String('b_footer' + tag); self.A = String('b_assertion' + tag); self.hasF = Bool('b_has_footer' + tag); self.hasA = Bool('b_has_assertion' + tag)

    # --- the harness names the fields it quantifies over.  A tree that re-represents a private field (a rename, another type) has a layout the arbitrary-state
    # construction cannot produce: the builder is then built through the public API instead (default()/new() + the setters, executed from MIR) - a reachable state,
    # not an arbitrary one - and the jobs that reason about the named fields step aside for the layout-independent histories.
    def layout_ok(self, prelude=True):
        if not hasattr(self, '_layout'):
            self._layout = {}
            for pre in (False, True):
                try:
                    names = self.w.fields('PasetoBuilder' if pre else 'GenericBuilder')
                    need = ('version', 'purpose', 'builder', 'top_level_claims', 'dup_top_level_found', 'non_expiring_token') if pre else ('version', 'purpose', 'claims', 'footer', 'implicit_assertion')
                    self._layout[pre] = all(n in names for n in need)
                except Unsupported: self._layout[pre] = False
        return self._layout[prelude] and (self._layout[False] if prelude else True)

    def api_value(self, prelude, fkind, akind):
        w = self.w; ex = upper_executor(w); ex.tolerate_unsupported = False
        file = PB if prelude else GB
        f0 = [g for g in w.fns if g.file == file and g.method == ('default' if prelude else 'new') and '{closure' not in g.name]
        if len(f0) != 1: raise Unsupported('%s constructor: %d bodies' % ('PasetoBuilder' if prelude else 'GenericBuilder', len(f0)))
        sub = {'Version': 'v4::V4', 'Purpose': 'local::Local'}
        res = [(s_, r) for s_, r in ex.run(f0[0], [], new_state([]), subst=sub) if not isinstance(r, Panic)]
        if len(res) > 1:      # paths the in-process pruning could not refute: decided with the lemma instances (as the history jobs do)
            keep = []
            for s_, r in res:
                base = list(s_.pc); lem = um.core_lemmas(base) + um.json_lemmas(base); lem += um.json_lemmas(base + lem)
                if solve.check(base + lem, timeout=30, name='feasibility of a constructor path')['verdict'] != 'unsat': keep.append((s_, r))
            res = keep
        if len(res) != 1: raise Unsupported('builder constructor has %d paths' % len(res))
        st, v = res[0]; cell = st.new_cell(v)
        for kind, meth, arg in ((fkind, 'set_footer', adt('Footer', None, self.F)), (akind, 'set_implicit_assertion', adt('ImplicitAssertion', None, self.A))):
            if kind != 'some': continue
            fs = [g for g in w.fns if g.file == file and g.method == meth and '{closure' not in g.name]
            if len(fs) != 1: raise Unsupported('%s: %d bodies' % (meth, len(fs)))
            outs = [(s_, r) for s_, r in ex.run(fs[0], [('ref', cell, ()), arg], st, subst=sub) if not isinstance(r, Panic)]
            if len(outs) != 1: raise Unsupported('%s has %d paths' % (meth, len(outs)))
            st = outs[0][0]
        self.api_pc = list(st.pc)
        return st.store[cell]

    def generic_value(self, fkind='some', akind='some'):
        w = self.w
        if not self.layout_ok(False): return self.api_value(False, fkind, akind)
        return w.mk('GenericBuilder', version=PHANTOM, purpose=PHANTOM, claims=('hmap', self.P, self.V, None),
                    footer=(footer_opt(self.F) if fkind == 'some' else NONE), implicit_assertion=(assertion_opt(self.A) if akind == 'some' else NONE))

    def value(self, fkind='some', akind='some'):
        w = self.w
        if not self.layout_ok(True): return self.api_value(True, fkind, akind)
        return w.mk('PasetoBuilder', version=PHANTOM, purpose=PHANTOM, builder=self.generic_value(fkind, akind), top_level_claims=('hset', self.TL),
                    dup_top_level_found=tup(self.DUP, self.DUPK), non_expiring_token=self.NE)


LAYOUT_NOTE = 'the builder stores its state in fields this harness does not know (a private field was renamed or re-typed): the per-operation frame conditions over an arbitrary state do not apply; the layout-independent call histories from the real constructor decide instead (bounded)'


def read_builder(w, st, cell):
    """post-state of a PasetoBuilder cell -> dict of terms"""
    v = st.store[cell]
    if isinstance(v, tuple) and len(v) > 1 and v[1] == 'Havocked': raise Unsupported('the builder was handed by `&mut` to a function whose body was abstracted: its state is unknown afterwards')
    f = dict(zip(w.fields('PasetoBuilder'), v[3]))
    g = dict(zip(w.fields('GenericBuilder'), f['builder'][3]))
    return {'P': g['claims'][1], 'V': g['claims'][2], 'TL': f['top_level_claims'][1], 'DUP': f['dup_top_level_found'][1][0], 'DUPK': f['dup_top_level_found'][1][1],
            'NE': f['non_expiring_token'], 'footer': g['footer'], 'assertion': g['implicit_assertion']}


def read_generic_builder(w, st, cell):
    v = st.store[cell]
    if isinstance(v, tuple) and len(v) > 1 and v[1] == 'Havocked': raise Unsupported('the builder was handed by `&mut` to a function whose body was abstracted: its state is unknown afterwards')
    g = dict(zip(w.fields('GenericBuilder'), v[3]))
    return {'P': g['claims'][1], 'V': g['claims'][2], 'footer': g['footer'], 'assertion': g['implicit_assertion']}


def opt_eq(a, b):
    """equality of two executor-level Option<Footer/ImplicitAssertion> values as a formula (None vs Some is False)"""
    if a[2] != b[2]: return BoolVal(False)
    if a[2] == 'None': return BoolVal(True)
    x, y = a[3][0], b[3][0]
    sx = x[3][0] if isinstance(x, tuple) else x; sy = y[3][0] if isinstance(y, tuple) else y
    return sx == sy


class SymParser:
    """a GenericParser state with n expected claims (enumerated, distinct keys) and m user validators (distinct keys)"""
    def __init__(self, w, n=2, m=2, tag=''):
        self.w = w
        self.keys = [String('ek%d%s' % (i, tag)) for i in range(n)]; self.exp = [Const('ev%d%s' % (i, tag), JV) for i in range(n)]
        self.vkeys = [String('vk%d%s' % (j, tag)) for j in range(m)]
        self.F = String('p_footer' + tag); self.A = String('p_assertion' + tag)
        P = K(S, False); V = K(S, JV.Null)
        for k, e in zip(self.keys, self.exp):
            P = Store(P, k, True); V = Store(V, k, um.mk_obj(Store(K(S, False), k, True), Store(K(S, JV.Null), k, e)))    # to_value(expected claim) = {k: e}
        self.P, self.V = P, V
        VP = K(S, False)
        for k in self.vkeys: VP = Store(VP, k, True)
        self.VP = VP
        self.assume = ([Distinct(*self.keys)] if n > 1 else []) + ([Distinct(*self.vkeys)] if m > 1 else [])

    def value(self):
        w = self.w
        return w.mk('GenericParser', version=PHANTOM, purpose=PHANTOM, claims=('hmap', self.P, self.V, tuple(self.keys)),
                    claim_validators=('vmap', self.VP, tuple((k, ('boxed', ('user_validator', j))) for j, k in enumerate(self.vkeys))),
                    footer=adt('Footer', None, self.F), implicit_assertion=adt('ImplicitAssertion', None, self.A))

    def prelude_value(self):
        return self.w.mk('PasetoParser', version=PHANTOM, purpose=PHANTOM, parser=self.value())

    def has_validator(self, k): return Or(*[k == v for v in self.vkeys]) if self.vkeys else BoolVal(False)

    def unchanged(self, st, cell, prelude=False):
        """frame condition: the parser state after the call equals the state before (claims, validators, footer, assertion)"""
        v = st.store[cell]
        if prelude: v = dict(zip(self.w.fields('PasetoParser'), v[3]))['parser']
        g = dict(zip(self.w.fields('GenericParser'), v[3])); kq = String('k_frame')
        same_validators = len(g['claim_validators'][2]) == len(self.vkeys) and all(a[0].eq(b) for a, b in zip(g['claim_validators'][2], self.vkeys))
        # fields the harness does not know (a changed tree): they must not be written by a parse either
        from .coreprops import same_value
        before = dict(zip(self.w.fields('GenericParser'), self.value()[3]))
        self.changed_extra = [f for f in self.w.extra_fields.get('GenericParser', []) if not same_value(g[f], before[f])]
        return And(Select(g['claims'][1], kq) == Select(self.P, kq), Select(g['claims'][2], kq) == Select(self.V, kq), Select(g['claim_validators'][1], kq) == Select(self.VP, kq),
                   BoolVal(same_validators), as_str_field(g['footer']) == self.F, as_str_field(g['implicit_assertion']) == self.A), kq


def as_str_field(v):
    return v[3][0] if isinstance(v, tuple) and v[0] == 'adt' else v


def parse_fn(w, proto, prelude=False):
    vt = w.type_text(proto); file = PP if prelude else GP
    fs = [g for g in w.fns if g.file == file and g.method == 'parse' and g.impl and vt[0].split('::')[-1] in g.impl[1] and vt[1].split('::')[-1] in g.impl[1]]
    if len(fs) != 1: raise Unsupported('%s::<%s>::parse: %d bodies' % ('PasetoParser' if prelude else 'GenericParser', proto, len(fs)))
    return fs[0]


def parser_key(w, proto, Kb):
    return sym_key_value(w, proto, Kb) if PROTOCOLS[proto]['p'] == 'Local' else w.mk('PasetoAsymmetricPublicKey', version=PHANTOM, purpose=PHANTOM, key=Kb)
