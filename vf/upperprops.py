"""Drivers for the generic / prelude layers: symbolic builder and parser states, step functions run from MIR."""
import re
from z3 import *
from .mirx import *
from . import coremodel as cm, uppermodel as um, solve
from .uppermodel import JV, S, K
from .core import *
from .coreprops import world, run_jobs, is_ok, is_err, new_state, fmt_model, describe
from .session import Session

PB = 'src/prelude/paseto_builder.rs'; GB = 'src/generic/builders/generic_builder.rs'
GP = 'src/generic/parsers/generic_parser.rs'; PP = 'src/prelude/paseto_parser.rs'
VT = {'v1': 'version::v1::V1', 'v2': 'v2::V2', 'v3': 'v3::V3', 'v4': 'v4::V4'}


def upper_executor(w):
    ex = w.executor(um.CONTRACTS)
    ex.ih['wrap_value'] = lambda v: v        # wrap_value(v) == v: inductive step discharged in C14 (job_wrap_value_step)
    return ex


def upper_ask(ses, name, assertions, expect='unsat', values=None, extra=()):
    base = list(assertions)
    lem = um.core_lemmas(base) + um.json_lemmas(base)
    lem += um.json_lemmas(base + lem)
    v, rec = ses.ask(name, base, expect, values=values, extra_lemmas=lem + list(extra))
    return v, rec


def upper_obligation(ses, name, assertions, values=None, extra=()):
    v, rec = upper_ask(ses, name, assertions, 'unsat', values, extra)
    return rec if v == 'sat' else None


class SymBuilder:
    """an arbitrary PasetoBuilder / GenericBuilder state"""
    def __init__(self, w, tag=''):
        self.w = w
        self.P = Const('claims_present' + tag, ArraySort(S, BoolSort())); self.V = Const('claims_value' + tag, ArraySort(S, JV))
        self.TL = Const('top_level' + tag, ArraySort(S, BoolSort()))
        self.DUP = Bool('dup_found' + tag); self.DUPK = String('dup_key' + tag); self.NE = Bool('non_expiring' + tag)
        self.F = String('b_footer' + tag); self.A = String('b_assertion' + tag); self.hasF = Bool('b_has_footer' + tag); self.hasA = Bool('b_has_assertion' + tag)

    def generic_value(self, fkind='some', akind='some'):
        w = self.w
        return w.mk('GenericBuilder', version=PHANTOM, purpose=PHANTOM, claims=('hmap', self.P, self.V, None),
                    footer=(footer_opt(self.F) if fkind == 'some' else NONE), implicit_assertion=(assertion_opt(self.A) if akind == 'some' else NONE))

    def value(self, fkind='some', akind='some'):
        w = self.w
        return w.mk('PasetoBuilder', version=PHANTOM, purpose=PHANTOM, builder=self.generic_value(fkind, akind), top_level_claims=('hset', self.TL),
                    dup_top_level_found=tup(self.DUP, self.DUPK), non_expiring_token=self.NE)


def read_builder(w, st, cell):
    """post-state of a PasetoBuilder cell -> dict of terms"""
    v = st.store[cell]; f = dict(zip(w.fields('PasetoBuilder'), v[3]))
    g = dict(zip(w.fields('GenericBuilder'), f['builder'][3]))
    return {'P': g['claims'][1], 'V': g['claims'][2], 'TL': f['top_level_claims'][1], 'DUP': f['dup_top_level_found'][1][0], 'DUPK': f['dup_top_level_found'][1][1],
            'NE': f['non_expiring_token'], 'footer': g['footer'], 'assertion': g['implicit_assertion']}


def read_generic_builder(w, st, cell):
    v = st.store[cell]; g = dict(zip(w.fields('GenericBuilder'), v[3]))
    return {'P': g['claims'][1], 'V': g['claims'][2], 'footer': g['footer'], 'assertion': g['implicit_assertion']}


def opt_eq(a, b):
    """equality of two executor-level Option<Footer/ImplicitAssertion> values as a formula (None vs Some is False)"""
    if a[2] != b[2]: return BoolVal(False)
    if a[2] == 'None': return BoolVal(True)
    x, y = a[3][0], b[3][0]
    sx = x[3][0] if isinstance(x, tuple) else x; sy = y[3][0] if isinstance(y, tuple) else y
    return sx == sy
