"""The construction path of the core layer that the entry-point jobs skip.

The round-trip / tamper / binding jobs start from a builder *value* (header, payload, footer, assertion) and key *values*.  What a caller writes is
`Paseto::builder().set_payload(Payload::from(m)).set_footer(Footer::from(f)).set_implicit_assertion(ImplicitAssertion::from(a))` (possibly `.clone()`d),
so the claim "the token is bound to f / a / m" also needs: the newtype constructors keep the text they are given, builder() starts empty, each setter stores
exactly its argument and leaves the rest alone, and Clone copies every field.  Each is executed from MIR on symbolic arguments."""
import re
from z3 import *
from .coreprops import *

NEWTYPES = {'Footer': 'src/core/footer.rs', 'ImplicitAssertion': 'src/core/implicit_assertion.rs', 'Payload': 'src/core/payload.rs'}
PFILE = 'src/core/paseto.rs'


def _text_of(ex, st, v):
    """the text a newtype value stands for"""
    return cm.as_str(st, v) if hasattr(cm, 'as_str') else v[3][0]


def job_core_api(ses, proto='v4.local'):
    w = world(); ex = w.executor(); vt = w.type_text(proto); sub = {'Version': vt[0], 'Purpose': vt[1]}
    x = String('ctor_text'); n = 0
    # (a) newtype constructors keep the text
    for ty, file in NEWTYPES.items():
        fs = [g for g in w.fns if g.file == file and g.method == 'from' and '(_1: &str)' in g.sig and '{closure' not in g.name]
        if len(fs) != 1: ses.undecided.append('%s::from(&str): %d bodies' % (ty, len(fs))); continue
        for s2, r in ex.run(fs[0], [x], new_state([Length(utf8(x)) < 2**40])):
            if isinstance(r, Panic):
                if ses.obligation('%s::from(&str): no panic' % ty, list(s2.pc)): ses.violation('%s::from panics' % ty, {}, {'kind': 'core_api', 'what': ty})
                continue
            n += 1
            try: got = cm.as_bytes(s2, r)
            except Unsupported: ses.undecided.append('%s::from: result is not text: %s' % (ty, str(r)[:80])); continue
            rec = ses.obligation('%s::from(s) stands for exactly s (no trimming, folding or truncation)' % ty, list(s2.pc) + [got != utf8(x)], values=[utf8(x)])
            if rec: ses.violation('%s::from(s) does not keep the text it is given' % ty, fmt_model(['text'], rec), {'kind': 'core_api', 'what': ty, 'model': fmt_model(['text'], rec)})
    # (b) builder() is empty; setters store their argument and nothing else
    names = w.fields('Paseto')
    fb = [g for g in w.fns if g.file == PFILE and g.method == 'builder']
    if len(fb) == 1:
        for s2, r in ex.run(fb[0], [], new_state([]), subst=sub):
            if isinstance(r, Panic): ses.violation('Paseto::builder panics', {}, {'kind': 'core_api', 'what': 'builder'}); continue
            n += 1; f = dict(zip(names, r[3]))
            okb = same_value(f['footer'], NONE) and same_value(f['implicit_assertion'], NONE)
            try: okp = cm.as_bytes(s2, f['payload'])
            except Unsupported: okp = None
            if not okb or okp is None: ses.violation('Paseto::builder() does not start without footer / assertion: %s' % str(r)[:120], {}, {'kind': 'core_api', 'what': 'builder'})
            elif ses.obligation('Paseto::builder(): empty payload', list(s2.pc) + [Length(okp) != 0]): ses.violation('Paseto::builder() starts with a payload', {}, {'kind': 'core_api', 'what': 'builder'})
    else: ses.undecided.append('Paseto::builder: %d bodies' % len(fb))
    M, F, A, X = String('b_payload'), String('b_footer'), String('b_assertion'), String('new_value')
    for hasF in (True, False):
        for hasA in (True, False):
            for meth, ty, fld in (('set_payload', 'Payload', 'payload'), ('set_footer', 'Footer', 'footer'), ('set_implicit_assertion', 'ImplicitAssertion', 'implicit_assertion')):
                fs = [g for g in w.fns if g.file == PFILE and g.method == meth]
                if len(fs) != 1: ses.undecided.append('Paseto::%s: %d bodies' % (meth, len(fs))); continue
                st = new_state([]); hdr = run_header_default(w, ex, st, proto)
                before = w.mk('Paseto', header=hdr, payload=adt('Payload', None, M), footer=footer_opt(F) if hasF else NONE, implicit_assertion=assertion_opt(A) if hasA else NONE)
                cell = st.new_cell(before)
                for s2, r in ex.run(fs[0], [('ref', cell, ()), adt(ty, None, X)], st, subst=sub):
                    if isinstance(r, Panic): ses.violation('Paseto::%s panics' % meth, {}, {'kind': 'core_api', 'what': meth}); continue
                    n += 1; after = dict(zip(names, s2.store[cell][3])); bef = dict(zip(names, before[3]))
                    want = adt(ty, None, X) if fld == 'payload' else some(adt(ty, None, X))
                    bad = [k for k in names if k != fld and not same_value(after[k], bef[k])]
                    if bad: ses.violation('Paseto::%s changes %s' % (meth, bad), {}, {'kind': 'core_api', 'what': meth})
                    if not same_value(after[fld], want):
                        try:
                            inner = after[fld] if fld == 'payload' else (after[fld][3][0] if after[fld][2] == 'Some' else None)
                            got = cm.as_bytes(s2, inner) if inner is not None else None
                        except Unsupported: got = None
                        if got is None: ses.violation('Paseto::%s does not store its argument (stores %s)' % (meth, str(after[fld])[:80]), {}, {'kind': 'core_api', 'what': meth})
                        elif ses.obligation('Paseto::%s(x) stores x' % meth, list(s2.pc) + [got != utf8(X)]): ses.violation('Paseto::%s stores another value than it is given' % meth, {}, {'kind': 'core_api', 'what': meth})
    # (c) Clone copies every field
    fc = [g for g in w.fns if g.file == PFILE and g.method == 'clone' and '_1: &paseto::Paseto' in g.sig.replace('core::paseto::', 'paseto::')]
    if len(fc) != 1: ses.undecided.append('<Paseto as Clone>::clone: %d bodies' % len(fc))
    else:
        for hasF in (True, False):
            for hasA in (True, False):
                st = new_state([]); hdr = run_header_default(w, ex, st, proto)
                before = w.mk('Paseto', header=hdr, payload=adt('Payload', None, M), footer=footer_opt(F) if hasF else NONE, implicit_assertion=assertion_opt(A) if hasA else NONE)
                cell = st.new_cell(before)
                for s2, r in ex.run(fc[0], [('ref', cell, ())], st, subst=sub):
                    if isinstance(r, Panic): ses.violation('<Paseto as Clone>::clone panics', {}, {'kind': 'core_api', 'what': 'clone'}); continue
                    n += 1
                    if not (isinstance(r, tuple) and r[0] == 'adt' and len(r[3]) == len(before[3])): ses.undecided.append('clone result has another shape: %s' % str(r)[:100]); continue
                    bad = [k for k, a_, b_ in zip(names, r[3], before[3]) if not same_value(a_, b_)]
                    if bad: ses.violation('<Paseto as Clone>::clone does not copy %s: a cloned builder produces a token with another %s' % (bad, '/'.join(bad)), {'before': str(before)[:200], 'clone': str(r)[:200]},
                                          {'kind': 'core_api', 'what': 'clone', 'fields': bad})
    ses.queries.append({'name': 'core construction path: %d executions of newtype constructors, builder(), setters and Clone compared structurally with their arguments' % n, 'verdict': 'unsat', 'expected': 'unsat',
                        'solver': 'structural (values produced by executing the MIR)', 'agree': [], 'time_s': 0, 'lemma_instances': 0, 'per_solver': {}})
    if n == 0: ses.undecided.append('core construction path: nothing executed')
    ses.absorb(ex)


KEYFILES = ('src/core/key/paseto_asymmetric_public_key.rs', 'src/core/key/paseto_asymmetric_private_key.rs', 'src/core/key/paseto_symmetric_key.rs')


def job_key_ctors(ses):
    """every From / TryFrom constructor of the three key wrappers and of PasetoNonce, executed from MIR on symbolic key material: a key that is accepted holds exactly the bytes it was given
    (so two different byte strings are never the same key object, and the entry-point jobs' key values are what a caller can really construct)"""
    w = world(); ex = w.executor(); n = 0
    B = Const('key_material', Bytes)
    for g in w.fns:
        if not (g.file in KEYFILES or (g.file or '').startswith('src/core/key/paseto_nonce_impl/')) or g.method not in ('from', 'try_from') or '{closure' in g.name or len(g.params) != 1: continue
        pty = g.ltypes.get(g.params[0], '')
        m = re.search(r'Key<(\w+)>', pty)
        st = new_state([Length(B) < 2**20])
        if m:
            N = m.group(1)
            if not N.isdigit(): sizes = [1, 32, 48, 49, 64, 97]          # a const generic parameter: the constructor exists for every size
            else: sizes = [int(N)]
        elif '[u8]' in pty: sizes = [None]
        else: continue
        for size in sizes:
            st = new_state([Length(B) < 2**20] + ([Length(B) == size] if size is not None else []))
            if size is not None: st.known_len[B.get_id()] = (B, IntVal(size))
            kv = adt('Key', None, B)
            arg = B if size is None else (('ref', st.new_cell(kv), ()) if pty.lstrip().startswith('&') else kv)
            sub = {gen: {'Version': 'version::v4::V4', 'Purpose': 'public::Public', 'KEYSIZE': str(size)}.get(gen, gen) for gen in (g.generics or [])}
            tag = '%s::%s(%s)%s' % (g.file.split('/')[-1][:-3], g.method, pty.strip(), '' if size in (None,) or str(size) in pty else ' with N=%d' % size)
            try: res = ex.run(g, [arg], st, subst=sub)
            except Unsupported as e: ses.undecided.append('%s: %s' % (tag, str(e)[:200])); continue
            for s2, r in res:
                if isinstance(r, Panic):
                    if ses.obligation('%s: no panic (%s)' % (tag, r.msg[:40]), list(s2.pc)): ses.violation('%s panics' % tag, {}, {'kind': 'key_ctor'})
                    continue
                if is_err(r): continue
                val = r[3][0] if is_ok(r) else r
                try: got = cm.as_bytes(s2, val)
                except Unsupported: ses.undecided.append('%s: result holds no bytes: %s' % (tag, str(val)[:80])); continue
                n += 1
                rec = ses.obligation('%s: an accepted key holds exactly the bytes it was given' % tag, list(s2.pc) + [got != B], values=[B])
                if rec: ses.violation('%s: the key object does not hold the bytes it was constructed from (two different inputs can be the same key)' % tag, fmt_model(['bytes'], rec), {'kind': 'key_ctor', 'model': fmt_model(['bytes'], rec)})
    if n == 0: ses.undecided.append('key constructors: nothing executed')
    ses.absorb(ex)
