"""/verif/check <ID> [--tier quick|thorough] [--replay file]

exit 0  property held on everything explored (KNOWN-FINDING lines allowed)
exit 1  VIOLATION property=<id> replay=<path>   (only after the counterexample reproduced natively)
exit 2  undecided: unsupported MIR construct / unmodelled call, solver unknown/timeout/disagreement, counterexample that
        did not reproduce, failed build.  Never success, never a violation.
"""
import sys, os, json, time, importlib, traceback, argparse, hashlib, re

VERIF = os.path.dirname(os.path.dirname(os.path.abspath(__file__)))
sys.path.insert(0, VERIF)
from vf import solve, build
from vf.session import Session, Undecided
from vf.mirx import Unsupported

LEVEL = {'C19': 'other', 'C20': 'other'}
PROPS = ['C%02d' % i for i in range(1, 21)]


def known_findings():
    path = os.path.join(VERIF, 'known_findings.txt'); out = []
    if os.path.exists(path):
        for l in open(path):
            l = l.strip()
            m = re.match(r'known: property=(C\d+) key=(\S+) (.*)$', l)
            if m: out.append({'property': m.group(1), 'key': m.group(2), 'what': m.group(3)})
    return out


def write_evidence(pid, tier, seed, ses, wall, extra_cov=None, violations=0, level=None):
    level = level or LEVEL.get(pid, 'model_checking')
    qs = ses.queries
    discharged = [q for q in qs if q['expected'] == 'unsat' and q['verdict'] == 'unsat']
    cov = {
        'states': max(1, ses.paths), 'transitions': max(1, ses.blocks),
        'traces_validated_against_impl': getattr(ses, 'native_runs', 0),
        'samples': (ses.samples[:12] or [{'query': q['name'], 'verdict': q['verdict']} for q in qs[:8]] or ['no query was generated']),
        'obligations': len([q for q in qs if q['expected'] == 'unsat']), 'discharged': len(discharged),
        'vacuity_witnesses': [{'name': n, 'verdict': v} for n, v in ses.witnesses],
        'functions_encoded': sorted(ses.functions), 'contracts_used': sorted(ses.contracts),
        'bounds': ses.bounds, 'solver_time_s': {k: round(v, 2) for k, v in solve.STATS['solver_time'].items()},
        'queries': qs[:400], 'queries_total': len(qs), 'undecided': ses.undecided[:50], 'notes': ses.notes[:50],
        'explanation': 'symbolic execution of the MIR of the listed functions; every obligation is an SMT query whose unsat verdict covers all inputs within the stated bounds',
        'trusted_base': getattr(ses, 'trusted_base', []),
    }
    if extra_cov: cov.update(extra_cov)
    ev = {'property_id': pid, 'tier': tier, 'seed': seed, 'level': level, 'coverage': cov,
          'assumptions': getattr(ses, 'assumptions', []), 'wall_s': round(wall, 2), 'violations': violations}
    # evidence/ describes runs against /repo itself; a run pointed at another checkout (VF_REPO: seeded changes in scratch worktrees) writes next to the caches instead
    edir = os.path.join(VERIF, 'evidence') if build.REPO == '/repo' else os.path.join(build.CACHE, 'evidence-' + hashlib.sha1(build.REPO.encode()).hexdigest()[:8])
    os.makedirs(edir, exist_ok=True)
    tmp = os.path.join(edir, pid + '.json.tmp%d' % os.getpid()); open(tmp, 'w').write(json.dumps(ev, indent=1, default=str)); os.replace(tmp, os.path.join(edir, pid + '.json'))


def main():
    ap = argparse.ArgumentParser(); ap.add_argument('prop'); ap.add_argument('--tier', default=os.environ.get('VERIF_TIER') or 'quick')
    ap.add_argument('--replay', default=None)
    a = ap.parse_args()
    pid = a.prop.upper(); tier = a.tier if a.tier in ('quick', 'thorough') else 'quick'
    seed = int(os.environ.get('VERIF_SEED', '0') or 0)
    if pid not in PROPS: print('unknown property', pid); return 2
    mod = importlib.import_module('vf.props.' + pid.lower())
    if a.replay:
        return mod.replay(a.replay)
    t0 = time.time(); ses = Session(tier, seed); code = 0
    # the contract tables describe the dependencies as configured at the time they were written and validated; a tree that configures them differently
    # (another version, another feature of serde_json / base64 / time / ...) is outside what the contracts are known to describe
    try:
        base = json.load(open(os.path.join(VERIF, 'contracts_baseline.json'))); cur = build.dependency_fingerprint()
        for k in sorted(set(base['dependencies']) | set(cur['dependencies'])):
            if base['dependencies'].get(k) != cur['dependencies'].get(k) or (cur['resolved'] and base['resolved'].get(k) != cur['resolved'].get(k)):
                ses.undecided.append('dependency `%s` is configured differently from the configuration the contracts were written for (%s / %s -> %s / %s): what the contracts say about it is not known to hold' % (
                    k, base['dependencies'].get(k), base['resolved'].get(k), cur['dependencies'].get(k), cur['resolved'].get(k)))
    except Exception as e: ses.notes.append('dependency fingerprint not compared: %s' % str(e)[:100])
    try:
        mod.run(ses)
    except (Unsupported, Undecided, RuntimeError) as e:
        ses.undecided.append('%s: %s' % (type(e).__name__, str(e)[:2000]))
    except Exception as e:
        ses.undecided.append('internal error: ' + traceback.format_exc()[-3000:])
    # native baseline: the concrete oracle that confirms this property's counterexamples is also run when the solver found nothing.  It validates the
    # oracle against the implementation on every run (an oracle that fires on a tree the solver accepts would make confirmations worthless) and
    # counts as traces validated against the implementation; a native-only finding is reported as undecided, never as a violation.
    if not ses.violations and not ses.undecided and getattr(mod, 'BASELINE', None):
        from vf import replay as _rp
        for kind in mod.BASELINE:
            v = {'what': 'native baseline (%s)' % kind, 'replay': {'kind': kind}}
            try: r = _rp.PY_CONFIRM[kind](ses, v)
            except Exception as e: r = None; ses.notes.append('native baseline %s failed to run: %s' % (kind, str(e)[:200]))
            if r: ses.undecided.append('the native oracle for %s observes a violation that no solver query returned: %s' % (kind, json.dumps(v.get('native'), default=str)[:400]))
            else: ses.samples.insert(0, {'native_baseline': kind, 'result': 'oracle agrees with the implementation on its whole scenario set'})
    # violations -> native replay -> known findings
    kf = [k for k in known_findings() if k['property'] == pid]
    confirmed = []
    for v in ses.violations:
        r = mod.confirm(ses, v) if hasattr(mod, 'confirm') else None
        if r is True: confirmed.append(v)
        elif r is False: ses.undecided.append('counterexample did not reproduce natively: %s' % v['what'])
        else: ses.undecided.append('no native replay available for: %s' % v['what'])
    new = []
    for v in confirmed:
        key = v.get('key') or hashlib.sha1(v['what'].encode()).hexdigest()[:10]
        hit = [k for k in kf if k['key'] == key]
        if hit: print('KNOWN-FINDING: property=%s %s' % (pid, hit[0]['what']))
        else: new.append(v)
    for i, v in enumerate(new):
        rdir = os.path.join(VERIF, 'replays') if build.REPO == '/repo' else os.path.join(build.CACHE, 'replays-' + hashlib.sha1(build.REPO.encode()).hexdigest()[:8])
        os.makedirs(rdir, exist_ok=True)
        path = os.path.join(rdir, '%s_%s_%d.json' % (pid, tier, i))
        json.dump({'property': pid, 'what': v['what'], 'detail': v['detail'], 'replay': v['replay'], 'key': v.get('key')}, open(path, 'w'), indent=1, default=str)
        print('VIOLATION property=%s replay=%s' % (pid, path)); print('   ', v['what'])
    if new: code = 1
    elif ses.undecided: code = 2
    write_evidence(pid, tier, seed, ses, time.time() - t0, violations=len(new))
    nq = len(ses.queries)
    print('%s %s: %d paths, %d obligations (%d discharged), %d witnesses, %d violations, %d undecided, %.1fs' % (
        pid, tier, ses.paths, len([q for q in ses.queries if q['expected'] == 'unsat']),
        len([q for q in ses.queries if q['expected'] == 'unsat' and q['verdict'] == 'unsat']), len(ses.witnesses), len(new), len(ses.undecided), time.time() - t0))
    for u in ses.undecided[:10]: print('  UNDECIDED:', u[:600])
    solve.cleanup()
    return code


if __name__ == '__main__':
    sys.exit(main())
