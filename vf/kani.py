"""Engine E1: Kani (CBMC) on leaf kernels of the real crate.

A scratch copy of /repo's working tree (outside /repo and /verif, removed afterwards) gets one extra line
`#[cfg(kani)] mod verif_harness;` in a module file plus the generated harness file next to it; `cargo kani` then
model-checks the compiled code bit-precisely.  /repo itself is never touched."""
import os, re, shutil, subprocess, tempfile, time, json
from . import build

SUPPORT = os.path.join(build.VERIF, 'kani', 'support.rs')


def purge_crate_artifacts(tgt):
    import glob as _glob
    for pat in ('kani/*/debug/build/rusty_paseto*', 'kani/*/debug/librusty_paseto*', 'kani/debug/librusty_paseto*', 'kani/*/debug/deps/*rusty_paseto*', 'kani/*/debug/.fingerprint/rusty_paseto*', 'kani/*/debug/incremental/rusty_paseto*',
                'kani/debug/build/rusty_paseto*', 'kani/debug/deps/*rusty_paseto*', 'kani/debug/.fingerprint/rusty_paseto*', 'kani/debug/incremental/rusty_paseto*'):
        for f in _glob.glob(os.path.join(tgt, pat)):
            try: shutil.rmtree(f) if os.path.isdir(f) else os.unlink(f)
            except OSError: pass


def run_kani(harness_rs, module_file, harnesses, timeout=600, unwind=None, extra_mod_decl='#[cfg(kani)]\nmod verif_harness;\n', support=False):
    """returns list of dicts {harness, status: SUCCESSFUL|FAILED|ERROR|TIMEOUT, time_s, failed_checks:[...], log_tail}"""
    scratch = tempfile.mkdtemp(prefix='vf-kani-')
    out = []
    try:
        dst = os.path.join(scratch, 'repo')
        subprocess.run(['rsync', '-a', '--exclude', 'target', '--exclude', '.git', build.REPO + '/', dst + '/'], check=True)
        mf = os.path.join(dst, module_file)
        open(mf, 'a').write('\n' + extra_mod_decl)
        if support:     # the exact stubs need `unsafe` (from_utf8_unchecked): relax the crate-level forbid in the scratch copy, under cfg(kani) only
            lib = os.path.join(dst, 'src/lib.rs'); t = open(lib).read()
            open(lib, 'w').write(t.replace('#![forbid(unsafe_code)]', '#![cfg_attr(not(kani), forbid(unsafe_code))]'))
        open(os.path.join(os.path.dirname(mf), 'verif_harness.rs'), 'w').write((open(SUPPORT).read() if support else '#![allow(dead_code, unused_imports)]') + '\n' + harness_rs)
        env = dict(os.environ, CARGO_NET_OFFLINE='true', CARGO_TARGET_DIR=os.path.join(build.CACHE, 'tgt-kani'))
        env.pop('RUSTUP_TOOLCHAIN', None)
        import hashlib
        cdir = os.path.join(build.CACHE, 'kani-results'); os.makedirs(cdir, exist_ok=True)
        sup_txt = open(SUPPORT).read() if support else ''
        for h in harnesses:
            t0 = time.time()
            # a harness that passed on exactly this tree (content hash of src/**, Cargo.toml, Cargo.lock) with exactly this harness text is not model-checked again:
            # the 20 checks of one run share their Kani leaves.  Only SUCCESSFUL verdicts are re-used; anything else is always re-run.
            ck = os.path.join(cdir, hashlib.sha256((build.tree_hash('kani') + h + harness_rs + sup_txt + module_file).encode()).hexdigest()[:24] + '.json')
            if os.path.exists(ck) and not os.environ.get('VF_NO_KANI_CACHE'):
                try:
                    r = json.load(open(ck)); r['cached_from_same_tree'] = True; out.append(r); os.utime(ck); continue
                except Exception: pass
            cmd = ['cargo', 'kani', '-Z', 'stubbing', '--harness', h, '--exact', '--output-format', 'terse', '--no-memory-safety-checks'] if False else \
                  ['cargo', 'kani', '-Z', 'stubbing', '--harness', h, '--exact', '--output-format', 'terse']
            try:
                with build.Lock('kani'):
                    # the shared target directory keeps the dependencies compiled; everything that belongs to the crate itself is removed first: cargo-kani collects the
                    # harness metadata it finds there, and artefacts left by ANOTHER tree (an earlier check of a changed checkout) were picked up in its place
                    # (seen twice: a benign tree "failed", a changed tree "passed").  Under the lock, so no other check builds at the same time.
                    purge_crate_artifacts(env['CARGO_TARGET_DIR'])
                    p = subprocess.run(cmd, cwd=dst, env=env, capture_output=True, text=True, timeout=timeout)
                txt = p.stdout + '\n' + p.stderr
                if 'VERIFICATION:- SUCCESSFUL' in txt: status = 'SUCCESSFUL'
                elif 'VERIFICATION:- FAILED' in txt: status = 'FAILED'
                else: status = 'ERROR'
            except subprocess.TimeoutExpired as e:
                txt = (e.stdout or b'').decode(errors='replace') if isinstance(e.stdout, bytes) else (e.stdout or ''); status = 'TIMEOUT'
            if status == 'FAILED' and not os.environ.get('VF_KANI_NO_RECHECK'):
                # a failure is re-examined in a private target directory before it is believed: the shared one is used by every check and every scratch tree,
                # and one failure that did not come back on an unchanged benign tree was seen under heavy parallel load
                priv = os.path.join(build.CACHE, 'tgt-kani-recheck-%d' % os.getpid())
                try:
                    p2 = subprocess.run(cmd, cwd=dst, env=dict(env, CARGO_TARGET_DIR=priv), capture_output=True, text=True, timeout=timeout + 300)
                    txt2 = p2.stdout + '\n' + p2.stderr
                    if 'VERIFICATION:- SUCCESSFUL' in txt2: status = 'ERROR'; txt = 'first run FAILED, the re-run in a private target directory was SUCCESSFUL: inconsistent, not used\n' + txt[-600:]
                    elif 'VERIFICATION:- FAILED' in txt2: txt = txt2
                    else: status = 'ERROR'; txt = 're-run of a failed harness did not finish\n' + txt2[-600:]
                except subprocess.TimeoutExpired: status = 'TIMEOUT'
                finally: shutil.rmtree(priv, ignore_errors=True)
            failed = re.findall(r'Failed Checks: (.*)', txt)
            out.append({'harness': h, 'status': status, 'time_s': round(time.time() - t0, 1), 'failed_checks': failed[:10], 'log_tail': ('\n'.join(l for l in txt.split('\n') if l.startswith('error') or '-->' in l)[:1500] + txt[-1500:])})
            if status == 'SUCCESSFUL':
                json.dump(out[-1], open(ck + '.tmp%d' % os.getpid(), 'w')); os.replace(ck + '.tmp%d' % os.getpid(), ck); build._prune(cdir, keep=80)
    finally:
        shutil.rmtree(scratch, ignore_errors=True)
    return out


def report(ses, results, what, prop_violation_text, replay_recipe=None):
    """turn Kani results into obligations / violations / undecided entries of the session"""
    for r in results:
        ses.queries.append({'name': 'kani harness %s (%s)' % (r['harness'], what), 'verdict': 'unsat' if r['status'] == 'SUCCESSFUL' else ('sat' if r['status'] == 'FAILED' else 'unknown'),
                            'expected': 'unsat', 'solver': 'kani 0.68 / cbmc 6.11 / cadical', 'agree': [], 'time_s': r['time_s'], 'lemma_instances': 0, 'per_solver': {}, 'reused_verdict_for_identical_tree': bool(r.get('cached_from_same_tree'))})
        if r['status'] == 'SUCCESSFUL': continue
        unwinding = any('unwinding assertion' in f or 'unwinding value' in f for f in r['failed_checks']) or 'unwinding value' in r['log_tail']
        unsupported = 'not currently supported by Kani' in r['log_tail'] or any('not currently supported' in f for f in r['failed_checks'])
        # a definite failed check next to an "unsupported construct reachable" failure is still a trace CBMC found; it is reported only through a native replay recipe
        real = [f for f in r['failed_checks'] if 'not currently supported' not in f and 'unwinding' not in f]
        if r['status'] == 'FAILED' and ((not unwinding and not unsupported) or (real and replay_recipe is not None and not unwinding)):
            v = {'what': '%s (Kani harness %s: %s)' % (prop_violation_text, r['harness'], '; '.join(r['failed_checks'])[:300]), 'detail': {'log_tail': r['log_tail'][-800:]},
                 'replay': replay_recipe or {'kani_confirmed': True, 'harness': r['harness']}, 'key': None}
            ses.violations.append(v)
        else:
            ses.undecided.append('kani harness %s: %s %s' % (r['harness'], r['status'], r['log_tail'][-400:]))
    ses.functions.add('kani: ' + what)


# ----------------------------------------------------------------------------- K1: le64
K1 = '''
use crate::core::common::PreAuthenticationEncoding;

#[kani::proof]
#[kani::unwind(9)]
fn k1_le64() {
    let x: u64 = kani::any();
    let v = PreAuthenticationEncoding::le64(x);
    assert!(v.len() == 8, "le64 returns 8 bytes");
    let b = x.to_le_bytes();
    let mut i = 0;
    while i < 8 {
        assert!(v[i] == b[i], "le64 is the little-endian encoding");
        i += 1;
    }
    kani::cover!(x > 0xffff_ffff, "large values reachable");
}
'''


def job_le64(ses):
    res = run_kani(K1, 'src/core/mod.rs', ['core::verif_harness::k1_le64'], timeout=600)
    report(ses, res, 'PreAuthenticationEncoding::le64 == u64::to_le_bytes for all 2^64 inputs', 'PAE length prefix le64 is not the 8-byte little-endian encoding the specification requires',
           replay_recipe={'kind': 'spec_local', 'proto': 'v4.local', 'fkind': 'some', 'akind': 'some', 'model': {'key': '07' * 32, 'nonce': '09' * 32, 'message': '6d', 'footer': '66', 'assertion': '69'}})
    ses.bounds['kani k1_le64'] = 'all u64 values, unwind 9'


# ----------------------------------------------------------------------------- K5: CustomClaim constructors over every UTF-8 key of <= 4 bytes
K5 = '''
use crate::generic::claims::CustomClaim;
use core::convert::TryFrom;

fn reserved(k: &str) -> bool { matches!(k, "iss" | "sub" | "aud" | "exp" | "nbf" | "iat" | "jti") }

macro_rules! k5 {
    ($name:ident, $n:expr) => {
        #[kani::proof]
        #[kani::unwind(9)]
        fn $name() {
            let bytes: [u8; $n] = kani::any();
            let k = match core::str::from_utf8(&bytes) { Ok(s) => s, Err(_) => return };
            let a = CustomClaim::<u8>::try_from((k, 7u8)).is_err();
            assert!(a == reserved(k), "tuple(&str, T) form: Err iff reserved");
            let b = CustomClaim::<&str>::try_from(k).is_err();
            assert!(b == reserved(k), "key-only form: Err iff reserved");
            kani::cover!(a, "a reserved key is reachable");
            kani::cover!(!a, "a free key is reachable");
        }
    };
}
k5!(k5_keys_len3, 3);
k5!(k5_keys_len4, 4);
k5!(k5_keys_len2, 2);
'''


def job_custom_claim_keys(ses):
    hs = ['generic::claims::verif_harness::k5_keys_len3', 'generic::claims::verif_harness::k5_keys_len4'] + (['generic::claims::verif_harness::k5_keys_len2'] if ses.tier == 'thorough' else [])
    res = run_kani(K5, 'src/generic/claims/mod.rs', hs, timeout=600)
    report(ses, res, 'CustomClaim::try_from (tuple and key-only forms) on every UTF-8 key of 2-4 bytes: Err iff the key is one of the seven reserved names',
           'CustomClaim constructor decides the reserved-key question wrongly for some short key', replay_recipe={'kind': 'c18', 'form': 'tuple_str', 'model': {}})
    ses.bounds['kani k5'] = 'keys of exactly 3 and 4 bytes (2 as well in thorough), all byte values, unwind 9'


# ----------------------------------------------------------------------------- K2: PAE::parse against the byte-level reference (small pieces, symbolic contents)
K2 = '''
use crate::core::common::PreAuthenticationEncoding;

fn reference(pieces: &[&[u8]]) -> Vec<u8> {
    let mut out: Vec<u8> = Vec::new();
    let n = pieces.len() as u64;
    let mut i = 0; while i < 8 { out.push(((n >> (8 * i)) & 0xff) as u8); i += 1; }
    let mut p = 0;
    while p < pieces.len() {
        let l = pieces[p].len() as u64;
        let mut i = 0; while i < 8 { out.push(((l >> (8 * i)) & 0xff) as u8); i += 1; }
        let mut j = 0; while j < pieces[p].len() { out.push(pieces[p][j]); j += 1; }
        p += 1;
    }
    out
}

#[kani::proof]
#[kani::unwind(48)]
fn k2_pae_3_pieces() {
    let a: [u8; 1] = kani::any(); let b: [u8; 2] = kani::any(); let c: [u8; 0] = [];
    let pieces: [&[u8]; 3] = [&a, &b, &c];
    let got = PreAuthenticationEncoding::parse(&pieces);
    let want = reference(&pieces);
    assert!(got.len() == want.len(), "PAE length");
    let mut i = 0;
    while i < want.len() { assert!(got[i] == want[i], "PAE byte"); i += 1; }
    std::mem::forget(got); std::mem::forget(want);
}

#[kani::proof]
#[kani::unwind(48)]
fn k2_pae_4_pieces() {
    let a: [u8; 2] = kani::any(); let b: [u8; 0] = []; let c: [u8; 1] = kani::any(); let d: [u8; 1] = kani::any();
    let pieces: [&[u8]; 4] = [&a, &b, &c, &d];
    let got = PreAuthenticationEncoding::parse(&pieces);
    let want = reference(&pieces);
    assert!(got.len() == want.len(), "PAE length");
    let mut i = 0;
    while i < want.len() { assert!(got[i] == want[i], "PAE byte"); i += 1; }
    std::mem::forget(got); std::mem::forget(want);
}
'''


def job_pae(ses):
    res = run_kani(K2, 'src/core/mod.rs', ['core::verif_harness::k2_pae_3_pieces', 'core::verif_harness::k2_pae_4_pieces'], timeout=900)
    report(ses, res, 'PreAuthenticationEncoding::parse == LE64(n) || (LE64(len) || piece)* on 3-4 pieces of 0-2 symbolic bytes (compiled code)',
           'the pre-authentication encoding differs from the specification\'s PAE',
           replay_recipe={'kind': 'spec_local', 'proto': 'v4.local', 'fkind': 'some', 'akind': 'some', 'model': {'key': '07' * 32, 'nonce': '09' * 32, 'message': '6d', 'footer': '66', 'assertion': '69'}})
    ses.bounds['kani k2_pae'] = '3 and 4 pieces of 0-2 bytes, contents symbolic, unwind 48'


# ----------------------------------------------------------------------------- K4: Key::<N>::try_from(&str) with the real hex crate
K4 = '''
use crate::core::Key;
use core::convert::TryFrom;

macro_rules! k4 {
    ($name:ident, $n:expr, $len:expr) => {
        #[kani::proof]
        #[kani::unwind(12)]
        fn $name() {
            let bytes: [u8; $len] = kani::any();
            let mut i = 0;
            while i < $len { kani::assume(bytes[i] < 0x80); i += 1; }
            let s = str_unchecked(&bytes);      // ASCII by assumption; std's from_utf8 on symbolic bytes is a known CBMC cliff
            let r = Key::<$n>::try_from(s);
            kani::cover!(r.is_ok(), "a key parses");
            std::mem::forget(r);
        }
    };
}
k4!(k4_key2_len0, 2, 0);
k4!(k4_key2_len2, 2, 2);
k4!(k4_key2_len4, 2, 4);
k4!(k4_key2_len6, 2, 6);
k4!(k4_key1_len3, 1, 3);
'''


def job_key_hex(ses, fast=False):
    hs = ['core::verif_harness::k4_key2_len0', 'core::verif_harness::k4_key2_len2', 'core::verif_harness::k4_key2_len4', 'core::verif_harness::k4_key2_len6', 'core::verif_harness::k4_key1_len3']
    if fast: hs = [h for h in hs if not h.endswith(('len4', 'len6'))]      # the two long strings take ~200 s each: thorough tier only
    res = run_kani(K4, 'src/core/mod.rs', hs, timeout=900, support=True)
    # native confirmation: hex strings of every length 0..=2N+3 for the key sizes of the crate (a decoder that miscounts does so at a particular length)
    sizes = (24, 32, 48, 49, 64); cases = [(n, c * L) for n in sizes for L in list(range(0, 8)) + list(range(2 * n - 3, 2 * n + 4)) for c in ('0', 'f', 'z')]
    report(ses, res, 'Key::<N>::try_from(&str) with the real hex crate never panics: N in {1,2}, every ASCII string of %s bytes' % ('0, 2, 3' if fast else '0-6'), 'Key::try_from(&str) panics on a hex string',
           replay_recipe={'steps': [{'op': 'key_hex', 'size': n, 'hex': h, 'out': 'R%d' % i} for i, (n, h) in enumerate(cases)],
                          'violated_if': [[{'var': 'R%d' % i, 'is': 'panic'}] for i in range(len(cases))]})
    ses.bounds['kani k4_key_hex'] = 'Key<1>, Key<2>; ASCII strings of length %s' % ('0,2,3 (quick)' if fast else '0,2,3,4,6')


# ----------------------------------------------------------------------------- K3: Footer::constant_time_equals == (base64url(footer) == segment), bit-precise on the compiled code
K3 = '''
use crate::core::{Footer, Base64Encodable};
use base64::prelude::*;

macro_rules! k3 {
    ($name:ident, $fl:expr, $sl:expr) => {
        #[kani::proof]
        #[kani::unwind(12)]
        #[kani::stub(ring::deprecated_constant_time::verify_slices_are_equal, ct_eq_stub)]
        fn $name() {
            let fb: [u8; $fl] = kani::any();
            let mut i = 0; while i < $fl { kani::assume(fb[i] < 0x80); i += 1; }
            let sb: [u8; $sl] = kani::any();
            let mut j = 0; while j < $sl { kani::assume(sb[j] < 0x80); j += 1; }
            let f = Footer::from(str_unchecked(&fb));
            let seg = str_unchecked(&sb);
            let want = BASE64_URL_SAFE_NO_PAD.encode(&fb);
            let wb = want.as_bytes();
            let mut same = wb.len() == $sl;
            let mut k = 0; while k < $sl && k < wb.len() { if wb[k] != sb[k] { same = false; } k += 1; }
            let got = f.constant_time_equals(seg);
            assert!(got == same, "constant_time_equals(footer, segment) == (base64url(footer) == segment)");
            kani::cover!(got, "equal case reachable");
            std::mem::forget(want);
        }
    };
}
k3!(k3_footer1_seg2, 1, 2);
k3!(k3_footer1_seg1, 1, 1);
k3!(k3_footer1_seg3, 1, 3);
k3!(k3_footer2_seg3, 2, 3);
k3!(k3_footer0_seg0, 0, 0);
k3!(k3_footer0_seg1, 0, 1);
k3!(k3_footer1_seg0, 1, 0);
'''


def job_footer_compare(ses):
    hs = ['core::verif_harness::k3_footer1_seg2', 'core::verif_harness::k3_footer1_seg1', 'core::verif_harness::k3_footer1_seg3', 'core::verif_harness::k3_footer0_seg0', 'core::verif_harness::k3_footer0_seg1', 'core::verif_harness::k3_footer1_seg0']
    if ses.tier == 'thorough': hs.append('core::verif_harness::k3_footer2_seg3')
    res = run_kani(K3, 'src/core/mod.rs', hs, timeout=900, support=True)
    report(ses, res, 'Footer::constant_time_equals(segment) == (base64url(footer) == segment) for footers of 0-1 (2) ASCII bytes and segments of 0-3 ASCII bytes, without panic, on the compiled code with the real base64 crate',
           'the footer comparison accepts a segment that is not the base64url encoding of the expected footer (or rejects the right one)',
           replay_recipe={'kind': 'footer_compare'})
    ses.bounds['kani k3_footer_compare'] = 'footer 0-1 bytes (2 in thorough), segment 0-3 bytes, ASCII, unwind 12'
