"""Native replay of counterexamples through the verif-replay binary (built from /repo's working tree)."""
import json, os, subprocess, tempfile
from . import build


def run_native(recipe, release=True):
    binp = build.replay_binary()
    p = subprocess.run([binp], input=json.dumps(recipe), capture_output=True, text=True, timeout=300)
    try: return json.loads(p.stdout.strip().split('\n')[-1])
    except Exception: return {'error': 'replay binary output not understood', 'stdout': p.stdout[-2000:], 'stderr': p.stderr[-2000:], 'rc': p.returncode}


def confirm(ses, v):
    """True: reproduced natively; False: did not reproduce; None: no recipe"""
    if not v.get('replay'): return None
    r = v['replay']
    if r.get('kani_confirmed'): return True      # Kani ran the compiled code of the real function bit-precisely; its trace is the counterexample
    if 'steps' not in r:
        if r.get('kind') not in SCRIPTS: return None
        r = SCRIPTS[r['kind']](r); v['replay'] = r
    out = run_native(r)
    ses.native_runs = getattr(ses, 'native_runs', 0) + 1
    v['native'] = out
    if 'violated' in out: return bool(out['violated'])
    return None


def replay_file(path):
    d = json.load(open(path))
    out = run_native(d['replay'])
    print(json.dumps(out, indent=1))
    if out.get('violated'):
        print('VIOLATION property=%s replay=%s' % (d['property'], path)); return 1
    return 0


# ----------------------------------------------------------------------------- recipes -> scripts
def _txt(hexs, fallback_char='a'):
    """model bytes for a string input -> a real string of the same byte length where possible"""
    if hexs is None: return ''
    b = bytes.fromhex(hexs) if isinstance(hexs, str) else b''
    try: return b.decode('utf-8')
    except UnicodeDecodeError: return fallback_char * len(b)


def _fix(hexs, n, fill='00'):
    h = hexs if isinstance(hexs, str) else ''
    h = (h + fill * n)[:2 * n]
    return h


def key_steps(proto, model, name='k'):
    """steps defining $<name>_sk / $<name>_pk with real key material (model values seed the real generators)"""
    if proto.endswith('local'):
        return [{'op': 'bytes', 'hex': _fix(model.get('key'), 32), 'out': name + '_sk'}, {'op': 'bytes', 'hex': _fix(model.get('key'), 32), 'out': name + '_pk'}]
    return [{'op': 'keys', 'proto': proto, 'seed': _fix(model.get('seed') or model.get('key'), 48, '07'), 'out': name}]


def build_step(proto, model, fkind, akind, out='T', key='$k_sk'):
    nl = 24 if (proto == 'v2.local' and isinstance(model.get('nonce'), str) and len(model['nonce']) == 48) else 32
    return {'op': 'build_core', 'proto': proto, 'key': key, 'nonce': _fix(model.get('nonce'), nl), 'message': _txt(model.get('message')),
            'footer': None if fkind == 'none' else _txt(model.get('footer')), 'assertion': None if akind == 'none' else _txt(model.get('assertion')), 'out': out}


def script_roundtrip(r):
    m = r['model']; proto = r['proto']
    msg = _txt(m.get('message'))
    steps = key_steps(proto, m) + [build_step(proto, m, r['fkind'], r['akind'])]
    steps.append({'op': 'parse_core', 'proto': proto, 'token': '$T', 'key': '$k_pk',
                  'footer': None if r['fkind'] == 'none' else _txt(m.get('footer')), 'assertion': None if r['akind'] == 'none' else _txt(m.get('assertion')), 'out': 'R'})
    return {'steps': steps, 'violated_if': [[{'var': 'T', 'is': 'not_ok'}], [{'var': 'R', 'is': 'not_ok_eq', 'value': msg}]]}


def script_v3_public_key_ctor(r):
    pk = r['model'].get('public_key') or '02'
    tag = int(pk[:2], 16) if len(pk) >= 2 else 2
    return {'steps': [{'op': 'keys', 'proto': 'v3.public', 'seed': '07' * 48, 'want_tag': tag if tag in (2, 3) else 3, 'out': 'k'},
                      {'op': 'v3_public_key_ctor', 'key': '$k_pk', 'out': 'R'}], 'violated_if': [[{'var': 'R', 'is': 'not_ok'}]]}


SCRIPTS = {'roundtrip': script_roundtrip, 'v3_public_key_ctor': script_v3_public_key_ctor}


def script_spec(r):
    """C08: library vs the independent native transcription of the specification, for the model's inputs and for lengths around the
    le64 / block boundaries (the solver's model fixes structure, not concrete crypto values)"""
    m = r.get('model') or {}; proto = r['proto']; fk, ak = r.get('fkind', 'some'), r.get('akind', 'none')
    if not PROTO_ASSERT.get(proto): ak = 'none'
    variants = [dict(m)]
    for n in (0, 1, 127, 128, 200, 256, 300):
        v = dict(m); v['message'] = ('61' * n); variants.append(v)
    v = dict(m); v['footer'] = '66' * 130; variants.append(v)
    if ak != 'none':
        v = dict(m); v['assertion'] = '69' * 129; variants.append(v)
    steps = key_steps(proto, m); alts = []
    for j, mv in enumerate(variants):
        msg = _txt(mv.get('message')); f = None if fk == 'none' else _txt(mv.get('footer')); a = None if ak == 'none' else _txt(mv.get('assertion'))
        b = build_step(proto, mv, fk, ak, out='T%d' % j); steps.append(b)
        steps.append({'op': 'spec_build', 'proto': proto, 'key': '$k_sk', 'nonce': b['nonce'], 'message': msg, 'footer': f or '', 'assertion': a or '', 'out': 'S%d' % j})
        steps.append({'op': 'parse_core', 'proto': proto, 'token': '$S%d' % j, 'key': '$k_pk', 'footer': f, 'assertion': a, 'out': 'R%d' % j})
        alts.append([{'var': 'R%d' % j, 'is': 'not_ok_eq', 'value': msg}])
        if proto.endswith('local'):
            alts.append([{'var': 'T%d' % j, 'is': 'ne_var', 'value': 'S%d' % j}])
        else:
            steps.append({'op': 'spec_verify', 'proto': proto, 'token': '$T%d' % j, 'key': '$k_pk', 'footer': f or '', 'assertion': a or '', 'out': 'V%d' % j})
            alts.append([{'var': 'V%d' % j, 'is': 'not_ok_eq', 'value': msg}])
    return {'steps': steps, 'violated_if': alts}


PROTO_ASSERT = {'v3.local': True, 'v4.local': True, 'v3.public': True, 'v4.public': True}
SCRIPTS['spec_local'] = script_spec
SCRIPTS['spec_public'] = script_spec
