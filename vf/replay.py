"""Native replay of counterexamples through the verif-replay binary (built from /repo's working tree)."""
import json, os, subprocess, tempfile
from . import build


def run_native(recipe, release=True):
    binp = build.replay_binary()
    p = subprocess.run([binp], input=json.dumps(recipe), capture_output=True, text=True, timeout=300)
    try: return json.loads(p.stdout.strip().split('\n')[-1])
    except Exception: return {'error': 'replay binary output not understood', 'stdout': p.stdout[-2000:], 'stderr': p.stderr[-2000:], 'rc': p.returncode}


MESSAGE_FAMILY = ['', 'a', 'a=', 'dGVzdA==', '.', 'a.b', '\u00e9', 'a' * 15 + '\u00e9', 'a' * 16 + '\u20acuro', 'a' * 31 + '\U0001f600', '{"k":"Zo\u00eb"}', '\x00', 'a' * 63 + '\u00e9' + 'b' * 70000, '\x7f\u0080', ' a ', 'a\n']


def confirm(ses, v):
    """True: reproduced natively; False: did not reproduce; None: no recipe"""
    if not v.get('replay'): return None
    r = v['replay']
    if r.get('kani_confirmed'): return True      # Kani ran the compiled code of the real function bit-precisely; its trace is the counterexample
    if 'steps' not in r and r.get('kind') in PY_CONFIRM: return PY_CONFIRM[r['kind']](ses, v)
    if 'steps' not in r and r.get('kind') == 'roundtrip' and isinstance(r.get('model'), dict):
        # the solver's model first; when it does not reproduce (the solver's answer came from an abstracted function body, whose real behaviour the
        # model's arbitrary message need not trigger), the same counterexample with the message replaced by members of a fixed family
        first = None
        for msg in [None] + MESSAGE_FAMILY:
            rr = dict(r, model=dict(r['model']))
            if msg is not None: rr['model']['message'] = msg.encode('utf-8').hex()
            sc = script_roundtrip(rr); out = run_native(sc); ses.native_runs = getattr(ses, 'native_runs', 0) + 1
            if first is None: first = (sc, out)
            if out.get('violated') is True:
                v['replay'] = sc; v['native'] = out
                if msg is not None: v['what'] += ' [reproduced natively with message %r]' % (msg if len(msg) < 60 else msg[:20] + '... (%d chars)' % len(msg))
                return True
        if r.get('proto') == 'v1.public':
            # RSA keys are fixtures: the same scenario with every pair of the pool in one process (state keyed by a property of the key - its length, a prefix - shows only then)
            steps = []; alts = []
            for rounds in (0, 1):
                for idx in range(4):
                    nm = 'p%d_%d' % (rounds, idx)
                    steps += [{'op': 'keys', 'proto': 'v1.public', 'seed': '07' * 48, 'index': idx, 'out': nm},
                              {'op': 'build_core', 'proto': 'v1.public', 'key': '$%s_sk' % nm, 'nonce': '09' * 32, 'message': 'pool message', 'footer': 'f', 'assertion': None, 'out': 'T' + nm},
                              {'op': 'parse_core', 'proto': 'v1.public', 'token': '$T' + nm, 'key': '$%s_pk' % nm, 'footer': 'f', 'assertion': None, 'out': 'R' + nm}]
                    alts.append([{'var': 'R' + nm, 'is': 'not_ok_eq', 'value': 'pool message'}])
            sc = {'steps': steps, 'violated_if': alts}; out = run_native(sc); ses.native_runs = getattr(ses, 'native_runs', 0) + 1
            if out.get('violated') is True:
                v['replay'] = sc; v['native'] = out; v['what'] += ' [reproduced natively with the pool of four RSA key pairs used one after the other in one process]'; return True
        v['replay'], v['native'] = first
        return False if 'violated' in first[1] else None
    if 'steps' not in r:
        if r.get('kind') not in SCRIPTS: return None
        r = SCRIPTS[r['kind']](r); v['replay'] = r
    out = run_native(r)
    ses.native_runs = getattr(ses, 'native_runs', 0) + 1
    v['native'] = out
    if 'violated' in out: return bool(out['violated'])
    return None


def replay_file(path):
    d = json.load(open(path))
    if d['replay'].get('kind') in PY_CONFIRM:
        class _S: native_runs = 0
        v = {'what': d['what'], 'replay': dict(d['replay'])}
        r = PY_CONFIRM[d['replay']['kind']](_S(), v); print(json.dumps(v.get('native'), indent=1, default=str)[:4000])
        if r: print('VIOLATION property=%s replay=%s' % (d['property'], path)); return 1
        return 0
    out = run_native(d['replay'])
    print(json.dumps(out, indent=1)[:6000])
    if d['replay'].get('oracle'):
        res = (out.get('trace') or [{}])[0].get('results') or []
        bad = [oracle_builder(i['seq'], i['outs'], tuple(d['replay']['oracle'])) for i in res]
        out['violated'] = any(bad); print('oracle:', bad)
    if out.get('violated'):
        print('VIOLATION property=%s replay=%s' % (d['property'], path)); return 1
    return 0


# ----------------------------------------------------------------------------- recipes -> scripts
def _txt(hexs, fallback_char='a'):
    """model bytes for a string input -> a real string of the same byte length where possible"""
    if hexs is None: return ''
    b = bytes.fromhex(hexs) if isinstance(hexs, str) else b''
    try: return b.decode('utf-8')
    except UnicodeDecodeError: return fallback_char * len(b)


def _fix(hexs, n, fill='00'):
    h = hexs if isinstance(hexs, str) else ''
    h = (h + fill * n)[:2 * n]
    return h


def key_steps(proto, model, name='k'):
    """steps defining $<name>_sk / $<name>_pk with real key material (model values seed the real generators)"""
    if proto.endswith('local'):
        return [{'op': 'bytes', 'hex': _fix(model.get('key'), 32), 'out': name + '_sk'}, {'op': 'bytes', 'hex': _fix(model.get('key'), 32), 'out': name + '_pk'}]
    st = {'op': 'keys', 'proto': proto, 'seed': _fix(model.get('seed') or model.get('key'), 48, '07'), 'out': name}
    if proto == 'v1.public': st['index'] = {'k': 0, 'k2': 1, 'k3': 2, 'k4': 3}.get(name, 0)      # RSA pairs are fixtures: a second key is another fixture, never the same pair again
    return [st]


def build_step(proto, model, fkind, akind, out='T', key='$k_sk'):
    nl = 24 if (proto == 'v2.local' and isinstance(model.get('nonce'), str) and len(model['nonce']) == 48) else 32
    return {'op': 'build_core', 'proto': proto, 'key': key, 'nonce': _fix(model.get('nonce'), nl), 'message': _txt(model.get('message')),
            'footer': None if fkind == 'none' else _txt(model.get('footer')), 'assertion': None if akind == 'none' else _txt(model.get('assertion')), 'out': out}


def script_roundtrip(r):
    m = r['model']; proto = r['proto']
    msg = _txt(m.get('message'))
    steps = key_steps(proto, m) + [build_step(proto, m, r['fkind'], r['akind'])]
    steps.append({'op': 'parse_core', 'proto': proto, 'token': '$T', 'key': '$k_pk',
                  'footer': None if r['fkind'] == 'none' else _txt(m.get('footer')), 'assertion': None if r['akind'] == 'none' else _txt(m.get('assertion')), 'out': 'R'})
    return {'steps': steps, 'violated_if': [[{'var': 'T', 'is': 'not_ok'}], [{'var': 'R', 'is': 'not_ok_eq', 'value': msg}]]}


def script_v3_public_key_ctor(r):
    pk = r['model'].get('public_key') or '02'
    tag = int(pk[:2], 16) if len(pk) >= 2 else 2
    return {'steps': [{'op': 'keys', 'proto': 'v3.public', 'seed': '07' * 48, 'want_tag': tag if tag in (2, 3) else 3, 'out': 'k'},
                      {'op': 'v3_public_key_ctor', 'key': '$k_pk', 'out': 'R'}], 'violated_if': [[{'var': 'R', 'is': 'not_ok'}]]}


SCRIPTS = {'roundtrip': script_roundtrip, 'v3_public_key_ctor': script_v3_public_key_ctor}


def script_spec(r):
    """C08: library vs the independent native transcription of the specification, for the model's inputs and for lengths around the
    le64 / block boundaries (the solver's model fixes structure, not concrete crypto values)"""
    m = r.get('model') or {}; proto = r['proto']; fk, ak = r.get('fkind', 'some'), r.get('akind', 'none')
    if not PROTO_ASSERT.get(proto): ak = 'none'
    variants = [dict(m)]
    for n in (0, 1, 127, 128, 200, 256, 300):
        v = dict(m); v['message'] = ('61' * n); variants.append(v)
    v = dict(m); v['footer'] = '66' * 130; variants.append(v)
    if ak != 'none':
        v = dict(m); v['assertion'] = '69' * 129; variants.append(v)
    steps = key_steps(proto, m); alts = []
    for j, mv in enumerate(variants):
        msg = _txt(mv.get('message')); f = None if fk == 'none' else _txt(mv.get('footer')); a = None if ak == 'none' else _txt(mv.get('assertion'))
        b = build_step(proto, mv, fk, ak, out='T%d' % j); steps.append(b)
        steps.append({'op': 'spec_build', 'proto': proto, 'key': '$k_sk', 'nonce': b['nonce'], 'message': msg, 'footer': f or '', 'assertion': a or '', 'out': 'S%d' % j})
        steps.append({'op': 'parse_core', 'proto': proto, 'token': '$S%d' % j, 'key': '$k_pk', 'footer': f, 'assertion': a, 'out': 'R%d' % j})
        alts.append([{'var': 'R%d' % j, 'is': 'not_ok_eq', 'value': msg}])
        if proto.endswith('local'):
            alts.append([{'var': 'T%d' % j, 'is': 'ne_var', 'value': 'S%d' % j}])
        else:
            steps.append({'op': 'spec_verify', 'proto': proto, 'token': '$T%d' % j, 'key': '$k_pk', 'footer': f or '', 'assertion': a or '', 'out': 'V%d' % j})
            alts.append([{'var': 'V%d' % j, 'is': 'not_ok_eq', 'value': msg}])
    return {'steps': steps, 'violated_if': alts}


PROTO_ASSERT = {'v3.local': True, 'v4.local': True, 'v3.public': True, 'v4.public': True}
SCRIPTS['spec_local'] = script_spec
SCRIPTS['spec_public'] = script_spec


# ----------------------------------------------------------------------------- builder call sequences (C13 / C17): native search guided by the solver's finding
import itertools as _it, datetime as _dt

ALPHABET = [['set', 'exp', '2031-01-01T00:00:00Z'], ['set', 'nbf', '2020-01-01T00:00:00Z'], ['set', 'iat', '2020-01-01T00:00:00Z'], ['set', 'iss', 'me'],
            ['set', 'a', 1], ['ack'], ['footer', 'f'], ['assertion', 'ia'], ['build']]


def sequences(maxlen=4, protos_extra=()):
    out = []
    for n in range(0, maxlen + 1):
        for seq in _it.product(ALPHABET, repeat=n):
            out.append([list(o) for o in seq] + [['build']])
    return out


def _t(s):
    try: return _dt.datetime.fromisoformat(s.replace('Z', '+00:00'))
    except Exception: return None


def oracle_builder(seq, outs, want=('c13', 'c17')):
    """returns a description of the first violated expectation or None"""
    count = {}; acked = False; latitude = False; i = 0; userset = set()
    builds = [o for o in outs if 'build' in o]
    for op in seq:
        if op[0] == 'set':
            count[op[1]] = count.get(op[1], 0) + 1; userset.add(op[1])
            if op[1] == 'exp' and acked: latitude = True
        elif op[0] == 'ack': acked = True
        elif op[0] == 'build':
            if i >= len(builds): return 'missing build outcome'
            b = builds[i]; i += 1
            dup_strict = any(c >= 2 for c in count.values())
            is_dup_err = b['build'] == 'err' and 'DuplicateTopLevelPayloadClaim' in b.get('value', '')
            if 'c17' in want:
                if dup_strict and not is_dup_err: return 'build #%d does not fail although a key was supplied twice (%s)' % (i, b['build'])
                if not dup_strict and not latitude and b['build'] != 'ok': return 'build #%d fails without a repeated key: %s' % (i, b.get('value', '')[:80])
            if 'c13' in want and b['build'] == 'ok':
                p = b.get('payload', '')
                if not p.startswith('Ok('): return 'token of build #%d cannot be read back: %s' % (i, p[:80])
                try: js = json.loads(p[3:-1])
                except Exception: return 'payload of build #%d is not JSON' % i
                if acked and 'exp' in js: return 'build #%d after the acknowledgement carries exp' % i
                if not acked and 'exp' not in js: return 'build #%d carries no exp although no-expiration was not acknowledged' % i
                if not acked and 'exp' not in userset and 'iat' not in userset and 'nbf' not in userset:
                    e, ia, nb = _t(js.get('exp', '')), _t(js.get('iat', '')), _t(js.get('nbf', ''))
                    if not (e and ia and nb): return 'default time claims missing or malformed in build #%d' % i
                    if (e - ia) != _dt.timedelta(hours=1) or ia != nb: return 'defaults of build #%d: exp-iat=%s, iat %s nbf' % (i, e - ia, '==' if ia == nb else '!=')
    return None


def confirm_builder(ses, v, want):
    r = v['replay']; protos = [r['proto']] if r.get('proto') else ['v4.local', 'v3.public', 'v2.local', 'v1.local', 'v3.local', 'v1.public', 'v2.public', 'v4.public']
    seqs = sequences(int(r.get('maxlen', 3)))
    # custom claims whose key differs from a default claim's key only by surrounding white space / case are claims of their own: the defaults stay what default() made them
    for k_ in (' exp', 'exp ', 'iat ', '\tnbf', 'Exp', 'EXP', 'exp\n'):
        seqs.append([['set', k_, '2999-01-01T00:00:00Z'], ['build']]); seqs.append([['set', k_, '2999-01-01T00:00:00Z'], ['build'], ['build']])
    for proto in protos:
        for s_ in seqs:
            if proto in ('v3.local', 'v4.local', 'v3.public', 'v4.public') and False: pass
        script = {'steps': [{'op': 'builder_seqs', 'proto': proto, 'layer': 'prelude', 'seed': '07' * 48, 'seqs': seqs, 'out': 'B'}], 'violated_if': []}
        out = run_native(script); ses.native_runs = getattr(ses, 'native_runs', 0) + 1
        res = (out.get('trace') or [{}])[0].get('results')
        if res is None: v['native'] = out; return None
        for item in res:
            bad = oracle_builder(item['seq'], item['outs'], want)
            if bad:
                v['native'] = {'proto': proto, 'sequence': item['seq'], 'observed': item['outs'], 'violated': bad}
                v['replay'] = {'steps': [{'op': 'builder_seqs', 'proto': proto, 'layer': 'prelude', 'seed': '07' * 48, 'seqs': [item['seq']], 'out': 'B'}], 'violated_if': [],
                               'oracle': want, 'expected_violation': bad}
                v['what'] += ' [natively: %s %s -> %s]' % (proto, json.dumps(item['seq']), bad)
                return True
    return False


PY_CONFIRM = {'c17_step': lambda ses, v: confirm_builder(ses, v, ('c17',)), 'c17_build_twice': lambda ses, v: confirm_builder(ses, v, ('c17',)),
              'c17_dup_build': lambda ses, v: confirm_builder(ses, v, ('c17',)), 'c13': lambda ses, v: confirm_builder(ses, v, ('c13',))}


# ----------------------------------------------------------------------------- parser scenarios (C11, C12, C15, C16): native search guided by the solver's finding
PAYLOADS = [{'nbf': '2099-01-01T00:00:00Z'}, {'exp': '2001-01-01T00:00:00Z'}, {'iat': '2019-01-01T00:00:00+00:00'}, {'iat': '2020-02-02T00:00:00+00:00'}, {}, {'sub': 'a'}, {'sub': 'b'}, {'n': 1}, {'n': '1'}, {'a/b': 'x'}, {'sub': 'a', 'n': 1}, {'x': None}, {'x': 'v'}, {'a~b': 'y', 'sub': 'a'}]
TIME_PAYLOADS = [{'exp': '2099-01-01T00:00:00Z'}, {'exp': '2001-01-01T00:00:00Z'}, {'exp': '2001-01-01T00:00:00+05:30'}, {'exp': '2099-01-01T00:00:00-01:00'}, {'exp': 5}, {'exp': [5]}, {'exp': ''}, {'exp': 'soon'},
                 {'exp': True}, {'exp': None}, {}, {'nbf': '2001-01-01T00:00:00Z'}, {'nbf': '2099-01-01T00:00:00Z'}, {'nbf': '2099-01-01T00:00:00-08:00'}, {'nbf': '2001-01-01T00:00:00+05:30'}, {'nbf': True}, {'nbf': 7},
                 {'nbf': ''}, {'nbf': {}}, {'exp': '2099-01-01T00:00:00Z', 'nbf': '2001-01-01T00:00:00Z'}, {'exp': '2019-01-01T00:00:00+00:00'}, {'nbf': '2019-01-01T00:00:00+00:00'},
                 {'exp': '2001-01-01 00:00:00Z'}, {'exp': '2099-01-01T00:00:00.123456789Z'}, {'exp': '9999-12-31T23:59:59-01:00'}, {'nbf': '9999-12-31T12:00:00-13:00'}, {'nbf': '0000-01-01T00:00:00+01:00'},
                 {'exp': '9999-12-31T23:59:59Z'}, {'nbf': '0000-01-01T00:00:00Z'}]
CHECKS = [[], [{'key': 'nbf', 'value': '2099-01-01T00:00:00Z'}], [{'key': 'exp', 'value': '2001-01-01T00:00:00Z'}], [{'key': 'iat', 'value': '2019-01-01T00:00:00+00:00'}], [{'key': 'sub', 'value': 'a'}], [{'key': 'n', 'value': 1}], [{'key': 'n', 'value': '1'}], [{'key': 'sub', 'value': 'a'}, {'key': 'n', 'value': 1}],
          [{'key': 'sub', 'value': 'b'}, {'key': 'sub', 'value': 'a'}]]
VALIDATORS = [[], [{'key': 'x', 'kind': 'reject', 'via': 'extend'}], [{'key': 'x', 'kind': 'accept', 'via': 'extend'}], [{'key': 'x', 'kind': 'reject_if_null', 'via': 'validate'}],
              [{'key': 'a/b', 'kind': 'reject_if_null', 'via': 'validate'}], [{'key': 'a~b', 'kind': 'reject_if_null', 'via': 'validate'}], [{'key': 'sub', 'kind': 'reject', 'via': 'validate'}],
              [{'key': 'x', 'kind': 'accept', 'via': 'validate'}, {'key': 'y', 'kind': 'reject', 'via': 'extend'}],
              [{'key': 'x', 'kind': 'accept', 'via': 'validate'}, {'key': 'x', 'kind': 'reject', 'via': 'validate'}], [{'key': 'x', 'kind': 'reject', 'via': 'validate'}, {'key': 'x', 'kind': 'accept', 'via': 'validate'}]]


import re as _re0
_re_year0 = _re0.compile(r'^0000-(0[1-9]|1[0-2])-([0-2]\d|3[01])[Tt]([01]\d|2[0-3]):[0-5]\d:[0-5]\d(\.\d+)?([Zz]|[+-]([01]\d|2[0-3]):[0-5]\d)$')


def _rfc3339(s):
    import datetime as dt, re
    if not isinstance(s, str) or not re.match(r'^\d{4}-\d\d-\d\d[Tt ]\d\d:\d\d:\d\d(\.\d+)?([Zz]|[+-]\d\d:\d\d)$', s): return None
    try:
        s2 = re.sub(r'(\.\d{6})\d+', r'\1', s.replace(' ', 'T').replace('t', 'T').replace('Z', '+00:00').replace('z', '+00:00'))
        t = dt.datetime.fromisoformat(s2)
        try: t.astimezone(dt.timezone.utc)
        except OverflowError:       # the instant lies just outside years 1..9999 once brought to UTC: it is still a well-formed RFC 3339 text
            return dt.datetime.max.replace(tzinfo=dt.timezone.utc) if t.year > 5000 else dt.datetime.min.replace(tzinfo=dt.timezone.utc)
        return t
    except Exception:
        if _re_year0.match(s): return dt.datetime.min.replace(tzinfo=dt.timezone.utc)      # year 0000 is valid RFC 3339 but not a Python datetime
        return None


def expected_parse(payload, checks, validators, default_parser):
    """-> (ok: bool or None if unsure, expected validator calls)"""
    import datetime as dt
    now = dt.datetime.now(dt.timezone.utc)
    vkeys = {v['key']: v for v in validators}
    ok = True
    for c in {c_['key']: c_ for c_ in checks}.values():      # the expectation given last for a key is the one in force
        if c['key'] in vkeys or (default_parser and c['key'] in ('exp', 'nbf')): continue      # a key with a validator (the default parser has them for exp and nbf) is validated, not compared
        if payload.get(c['key']) is None or payload.get(c['key']) != c['value'] or type(payload.get(c['key'])) != type(c['value']): ok = False
    calls = {}
    for k, v in vkeys.items():
        val = payload.get(k); calls[k] = val
        if v['kind'] == 'reject' or (v['kind'] == 'reject_if_null' and val is None): ok = False
    if default_parser:
        for k in ('exp', 'nbf'):
            if k in vkeys: continue
            val = payload.get(k)
            if val is None: continue
            t = _rfc3339(val)
            if t is None:
                if isinstance(val, str) and ' ' in val: return None, calls      # the library's RFC 3339 parser may or may not take a space separator
                ok = False
            elif k == 'exp' and t <= now: ok = False
            elif k == 'nbf' and t >= now: ok = False
    return ok, calls


def near_now_payloads():
    """exp / nbf instants close to the current time, rendered with several UTC offsets and fractional seconds (margins: >= 60 s future, >= 5 s past)"""
    import datetime as dt
    now = dt.datetime.now(dt.timezone.utc); out = []
    for claim, deltas in (('exp', (-3600, -600, -5, 120, 600, 7200)), ('nbf', (-3600, -600, -5, 90, 300, 600, 7200))):
        for d in deltas:
            t = now + dt.timedelta(seconds=d)
            for off in (0, 330, -60, -480, 60, 840):
                tz = dt.timezone(dt.timedelta(minutes=off)); txt = t.astimezone(tz).isoformat(timespec='seconds')
                if off == 0: txt = txt.replace('+00:00', 'Z')
                out.append({claim: txt})
            out.append({claim: t.astimezone(dt.timezone.utc).isoformat(timespec='milliseconds').replace('+00:00', 'Z')})
    return out


def confirm_parser(ses, v, time_claims=False):
    r = v['replay']; proto = r.get('proto') or 'v4.local'
    payloads = (TIME_PAYLOADS + near_now_payloads()) if time_claims else PAYLOADS
    m = {'key': '07' * 32, 'nonce': '09' * 32}
    steps = key_steps(proto, m)
    for i, p in enumerate(payloads):
        steps.append({'op': 'build_core', 'proto': proto, 'key': '$k_sk', 'nonce': '09' * (24 if proto == 'v2.local' and False else 32), 'message': json.dumps(p, separators=(',', ':')), 'footer': None, 'assertion': None, 'out': 'T%d' % i})
    runs = []
    layers = [('prelude', True)] if time_claims else [('generic', False), ('prelude', False), ('prelude', True)]
    for layer, dflt in layers:
        for ci, checks in enumerate([[]] if time_claims else CHECKS):
            for vi, vals in enumerate([[]] if time_claims else VALIDATORS):
                if layer == 'prelude' and any(x.get('via') == 'extend' for x in vals): continue
                orders = [list(range(len(payloads)))] + ([list(reversed(range(len(payloads))))] if not time_claims else [])
                for order in orders:
                    name = 'R%d' % len(runs)
                    steps.append({'op': 'parser_run', 'proto': proto, 'layer': layer, 'default_parser': dflt, 'key': '$k_pk', 'footer': None, 'assertion': None, 'checks': checks,
                                  'validators': vals, 'tokens': ['$T%d' % i for i in order], 'out': name})
                    runs.append((name, layer, dflt, checks, vals, order))
    # tokens that do not authenticate (payload edited, or the verifier holds another key): the parse fails and NO validator has seen anything
    unauth = []
    if not time_claims:
        steps += key_steps(proto, {'key': '08' * 32, 'seed': '08' * 32}, 'k2')
        steps += [{'op': 'mutate', 'in': '$T12', 'out': 'TB0', 'ops': [{'payload_xor': [6, 1]}]}, {'op': 'mutate', 'in': '$T12', 'out': 'TB1', 'ops': [{'payload_xor': [40, 0x80]}]}]
        for layer in ('generic', 'prelude'):
            nm = 'U_' + layer
            steps.append({'op': 'parser_run', 'proto': proto, 'layer': layer, 'default_parser': False, 'key': '$k_pk', 'alt_key': '$k2_pk', 'alt_key_for': [2], 'footer': None, 'assertion': None, 'checks': [],
                          'validators': [{'key': 'x', 'kind': 'accept', 'via': 'validate'}], 'tokens': ['$TB0', '$TB1', '$T12'], 'out': nm}); unauth.append(nm)
    out = run_native({'steps': steps, 'violated_if': []}); ses.native_runs = getattr(ses, 'native_runs', 0) + 1
    tr_all = [t for t in (out.get('trace') or []) if 'parser_run' in t]
    for t in [t for t in tr_all if t['parser_run'] in unauth]:
        for ri, res in enumerate(t['results']):
            if res.get('parse') == 'ok' or res.get('validator_calls'):
                v['native'] = {'proto': proto, 'violated': 'unauthenticated token #%d: parse %s, validator calls %s' % (ri, res.get('parse'), res.get('validator_calls'))}
                v['what'] += ' [natively: %s %s, a token that does not authenticate (edited payload / other key): parse %s, validators saw %s]' % (proto, t['parser_run'][2:], res.get('parse'), str(res.get('validator_calls'))[:80]); return True
    tr = [t for t in tr_all if t['parser_run'] not in unauth]
    if len(tr) != len(runs): v['native'] = {'error': 'replay trace incomplete', 'out': str(out)[:500]}; return None
    for (name, layer, dflt, checks, vals, order), t in zip(runs, tr):
        for idx, res in zip(order, t['results']):
            exp_ok, exp_calls = expected_parse(payloads[idx], checks, vals, dflt)
            if exp_ok is None: continue
            bad = None
            if res.get('parse') == 'panic': bad = 'parse panics'
            elif (res.get('parse') == 'ok') != exp_ok: bad = 'expected %s, library says %s (%s)' % ('Ok' if exp_ok else 'Err', res.get('parse'), str(res.get('value'))[:80])
            elif res.get('parse') == 'ok':
                got = {}
                for k, val in res.get('validator_calls', []): got.setdefault(k, []).append(val)
                for k, val in exp_calls.items():
                    if len(got.get(k, [])) != 1: bad = 'validator for %r ran %d times on an accepted token' % (k, len(got.get(k, [])))
                    elif json.loads(got[k][0]) != val: bad = 'validator for %r saw %s instead of %s' % (k, got[k][0], json.dumps(val))
            if bad:
                v['native'] = {'proto': proto, 'layer': layer, 'default_parser': dflt, 'payload': payloads[idx], 'checks': checks, 'validators': vals, 'order_position': order.index(idx), 'violated': bad}
                v['what'] += ' [natively: %s parser, payload %s, expected claims %s, validators %s: %s]' % (layer, json.dumps(payloads[idx]), json.dumps(checks), json.dumps(vals), bad)
                v['replay'] = {'kind': 'parser_scenarios', 'proto': proto, 'time_claims': time_claims}
                return True
    return False


def confirm_time_rules(ses, v):
    """exp / nbf rules of the default parser: the payload family first, then one parser over time (a verdict or a clock reading remembered between parses)"""
    r = confirm_parser(ses, v, True)
    if r: return r
    v.setdefault('replay', {}); return confirm_history(ses, v)


PY_CONFIRM.update({'c15': lambda ses, v: confirm_parser(ses, v), 'c16': lambda ses, v: confirm_parser(ses, v), 'c15_registration': lambda ses, v: confirm_parser(ses, v), 'c16_registration': lambda ses, v: confirm_parser(ses, v), 'c11': confirm_time_rules,
                   'c12': confirm_time_rules})


# ----------------------------------------------------------------------------- claim constructors (C18)
def confirm_claims(ses, v):
    reserved = ['iss', 'sub', 'aud', 'exp', 'nbf', 'iat', 'jti']
    mk = (v['replay'].get('model') or {}).get('key')
    keys = set(reserved) | {'', 'a', 'data', 'Exp', 'exp ', ' exp', 'exp\x00', 'EXP', 'ISS', 'Sub', 'jtI', 'expx', 'xexp', 'is', 'iss.', 'nbf\n', 'äud'}
    if isinstance(mk, str): keys.add(mk)
    cases = [{'kind': 'custom', 'form': f, 'text': k} for k in sorted(keys) for f in ('key_only', 'tuple_str', 'tuple_string')]
    good = ['2019-01-01T00:00:00Z', '2019-01-01T00:00:00+00:00', '2031-12-31T23:59:59.123Z', '2031-12-31T23:59:59-07:30',
            '2031-07-04T12:34:56.123456789+05:30', '2031-07-04T12:34:56.12345-11:00', '2031-07-04T12:34:56.123456789Z', '9999-12-31T23:59:59+14:00', '0001-01-01T00:00:00Z', '2019-01-01T00:00:00-00:00', '2019-01-01T00:00:00.5-00:00']
    bad = ['hello', '', ' 2019-01-01T00:00:00Z', '\n2019-01-01T00:00:00Z', 'x2019-01-01T00:00:00Z', 'T00:00:00Z', 'exp']
    for k in ('exp', 'nbf', 'iat'):
        for f in ('str', 'string'):
            cases += [{'kind': k, 'form': f, 'text': t} for t in good + bad]
    out = run_native({'steps': [{'op': 'claim_ctors', 'cases': cases, 'out': 'C'}], 'violated_if': []}); ses.native_runs = getattr(ses, 'native_runs', 0) + 1
    res = (out.get('trace') or [{}])[0].get('results')
    if res is None: v['native'] = out; return None
    for r in res:
        bad_ = None
        if r['result'] == 'panic': bad_ = 'constructor panics'
        elif r['kind'] == 'custom':
            if (r['result'] == 'err') != (r['text'] in reserved): bad_ = 'custom claim key %r: %s' % (r['text'], r['result'])
            elif r['result'] == 'ok' and r['value'] != r['text'] + '=': bad_ = 'custom claim key %r stored as %r' % (r['text'], r['value'])
        else:
            want_ok = r['text'] in good
            if (r['result'] == 'ok') != want_ok: bad_ = '%s claim from %r (%s form): %s' % (r['kind'], r['text'], r['form'], r['result'])
            elif want_ok and r['value'] != '%s=%s' % (r['kind'], r['text']): bad_ = '%s claim keeps %r instead of %r' % (r['kind'], r['value'], r['text'])
        if bad_:
            v['native'] = {'case': r, 'violated': bad_}; v['what'] += ' [natively: %s]' % bad_; v['replay'] = {'kind': 'c18'}
            return True
    return False


PY_CONFIRM.update({'c18': confirm_claims, 'c18_time': confirm_claims})


# ----------------------------------------------------------------------------- nonce reuse across builds of one builder (C10)
def confirm_nonce(ses, v):
    import base64
    seqs = [[['build']] * 3, [['set', 'a', 1], ['build'], ['build'], ['set', 'a', 2], ['build']], [['footer', 'f'], ['build'], ['build']]] + [[['build']] * 12]
    seqs = [[list(o) for o in s_] for s_ in seqs]
    for proto in ([v['replay'].get('proto')] if v['replay'].get('proto') else []) + ['v4.local', 'v3.local', 'v2.local', 'v1.local']:
        for layer in ('generic', 'prelude'):
            out = run_native({'steps': [{'op': 'builder_seqs', 'proto': proto, 'layer': layer, 'seed': '07' * 32, 'seqs': seqs, 'out': 'B'}], 'violated_if': []})
            ses.native_runs = getattr(ses, 'native_runs', 0) + 1
            res = (out.get('trace') or [{}])[0].get('results')
            if res is None: continue
            seen_all = []
            for item in res:
                toks = [o['value'] for o in item['outs'] if o.get('build') == 'ok']
                nl = 24 if proto == 'v2.local' else 32; nonces = []
                for t in toks:
                    seg = t.split('.')[2]; raw = base64.urlsafe_b64decode(seg + '=' * (-len(seg) % 4)); nonces.append(raw[:nl])
                # all builds of this run happen on one thread of one process: a nonce must not come back within a sequence nor across sequences
                again = [n for n in nonces if n in seen_all]; seen_all += nonces
                if len(set(toks)) != len(toks) or len(set(nonces)) != len(nonces) or again:
                    v['native'] = {'proto': proto, 'layer': layer, 'sequence': item['seq'], 'nonces': [n.hex() for n in nonces], 'violated': 'two builds of one builder carry the same nonce'}
                    v['what'] += ' [natively: %s %s builder, %d builds, repeated nonce %s]' % (proto, layer, len(toks), [n.hex()[:16] for n in nonces][:4]); v['replay'] = {'kind': 'c10', 'proto': proto}
                    return True
    return False


PY_CONFIRM.update({'c10': confirm_nonce})


# ----------------------------------------------------------------------------- claims round trip (C14)
def confirm_claims_roundtrip(ses, v):
    vals = [None, True, 0, 1, -7, 'x', '', 'ünï', [1, 'a', None], {'n': {'m': [1, {'z': None}]}}, {}, []]
    keys = ['a', 'a/b', 'https://example.com/role', 'a~0b', '~1', 'ключ', 'x.y', ' ']
    seqs = []
    for k in keys:
        for val in vals: seqs.append(([['set', k, val], ['build']], {k: val}))
    seqs.append(([['set', 'a', 1], ['set', 'a', 2], ['build']], {'a': 2}))
    seqs.append(([['set', 'a', 1], ['set', 'b', None], ['remove', 'a'], ['build']], {'b': None}))
    seqs.append(([['set', 'iss', 'me'], ['set', 'sub', 's'], ['set', 'aud', 'au'], ['set', 'jti', 'id'], ['set', 'exp', '2031-01-01T00:00:00Z'], ['set', 'nbf', '2020-01-01T00:00:00Z'], ['set', 'iat', '2020-01-01T00:00:00Z'], ['build']],
                 {'iss': 'me', 'sub': 's', 'aud': 'au', 'jti': 'id', 'exp': '2031-01-01T00:00:00Z', 'nbf': '2020-01-01T00:00:00Z', 'iat': '2020-01-01T00:00:00Z'}))
    # claim values of native Rust types: what comes back is the JSON rendering of that very value (the shortest decimal that reads back as the same f32, not its f64 widening)
    try:
        import numpy as _np
        f32 = lambda x: float(str(_np.float32(x)))
        for k, kind, val, want in (('price', 'f32', 19.99, f32(19.99)), ('r', 'f32', 0.1, f32(0.1)), ('h', 'f32', 0.5, 0.5), ('d', 'f64', 19.99, 19.99), ('n', 'i64', -7, -7), ('b', 'u8', 255, 255), ('t', 'bool', True, True),
                                   ('xs', 'vec_f32', [0.1, 2.5, 19.99], [f32(0.1), 2.5, f32(19.99)]), ('o', 'opt_f32', 0.3, f32(0.3)), ('s', 'string', 'x', 'x')):
            seqs.append(([['set_typed', k, kind, val], ['build']], {k: want}))
    except ImportError: pass
    # histories with a build in the middle: every build must reflect the claims as they are at that moment
    import itertools
    ops = [['set', 'a', 1], ['set', 'a', 2], ['set', 'b', 'x'], ['remove', 'a'], ['build']]
    for n in (2, 3, 4):
        for s_ in itertools.product(ops, repeat=n):
            if ['build'] in [list(o) for o in s_]: seqs.append(([list(o) for o in s_] + [['build']], None))
    def model(seq):
        m = {}; outs = []
        for o in seq:
            if o[0] == 'set': m[o[1]] = o[2]
            elif o[0] == 'remove': m.pop(o[1], None)
            else: outs.append(dict(m))
        return outs
    for proto in ([v['replay'].get('proto')] if v['replay'].get('proto') else ['v4.local', 'v4.public']):
        out = run_native({'steps': [{'op': 'builder_seqs', 'proto': proto, 'layer': 'generic', 'seed': '07' * 48, 'seqs': [s_ for s_, _ in seqs], 'out': 'B'}], 'violated_if': []})
        ses.native_runs = getattr(ses, 'native_runs', 0) + 1
        res = (out.get('trace') or [{}])[0].get('results')
        if res is None: v['native'] = out; return None
        for (seq, _), item in zip(seqs, res):
            b = [o for o in item['outs'] if 'build' in o]; wants = model(seq) if _ is None else [_]
            bad = None
            if len(b) != len(wants): bad = 'builds observed %d, expected %d' % (len(b), len(wants))
            for bi, want in zip(b, wants):
                if bad: break
                if bi['build'] != 'ok': bad = 'build fails: %s' % bi
                else:
                    p = bi.get('payload', '')
                    try: got = json.loads(p[3:-1]) if p.startswith('Ok(') else None
                    except Exception: got = None
                    if got != want: bad = 'parsed claims %s differ from the claims set %s' % (p[:120], json.dumps(want))
            if bad:
                v['native'] = {'proto': proto, 'sequence': seq, 'violated': bad}; v['what'] += ' [natively: %s: %s]' % (json.dumps(seq), bad); v['replay'] = {'kind': 'c14', 'proto': proto}
                return True
    return False


PY_CONFIRM.update({'c14': confirm_claims_roundtrip})


def run_native_features(features, proto=None):
    """builds /verif/replay_cfg against the working tree with exactly `features` and runs the round trip of the enabled protocols"""
    import subprocess
    src, tgt = build.crate_for_repo('replay_cfg')
    with build.Lock('replaycfg'):
        p = subprocess.run(['cargo', 'run', '--offline', '--quiet', '--no-default-features', '--features', features], cwd=src,
                           env=dict(build.ENV, CARGO_TARGET_DIR=tgt), capture_output=True, text=True, timeout=900)
    lines = [l for l in p.stdout.split('\n') if l.strip()]
    if p.returncode not in (0, 1) or (p.returncode == 1 and not any('FAIL' in l for l in lines)):
        return {'error': 'replay_cfg did not build/run', 'stderr': p.stderr[-1500:]}
    return {'violated': any('FAIL' in l for l in lines), 'lines': lines}


# ----------------------------------------------------------------------------- reuse of one core builder / one parser, setters
def confirm_core_reuse(ses, v):
    r = v['replay']; proto = r['proto']; m = {'key': '07' * 32, 'nonce': '09' * 32, 'message': '6d7367', 'footer': '666f6f74', 'assertion': '6173736572'}
    b = build_step(proto, m, r.get('fkind', 'some'), r.get('akind', 'some'), out='T'); b['times'] = 3
    steps = key_steps(proto, m) + [b]
    f = None if r.get('fkind') == 'none' else _txt(m['footer']); a = None if r.get('akind', 'some') == 'none' or not PROTO_ASSERT.get(proto) else _txt(m['assertion'])
    for i in range(3): steps.append({'op': 'parse_core', 'proto': proto, 'token': '$T_%d' % i, 'key': '$k_pk', 'footer': f, 'assertion': a, 'out': 'R%d' % i})
    out = run_native({'steps': steps, 'violated_if': [[{'var': 'R%d' % i, 'is': 'not_ok_eq', 'value': 'msg'}] for i in range(3)]}); ses.native_runs = getattr(ses, 'native_runs', 0) + 1
    v['native'] = out
    if out.get('violated'): v['what'] += ' [natively: three tokens from one %s core builder, not all of them round-trip]' % proto
    return bool(out.get('violated')) if 'violated' in out else None


def confirm_setter(ses, v):
    """last value given to set_footer / set_implicit_assertion wins, for every value including the empty string"""
    for proto in ('v4.local', 'v4.public', 'v3.local'):
        m = {'key': '07' * 32, 'nonce': '09' * 32}
        steps = key_steps(proto, m); cases = []
        for what in ('footer', 'assertion'):
            for first, second in (('A', ''), ('', 'A'), ('A', 'B')):
                tf = second if what == 'footer' else None; ta = second if what == 'assertion' else None
                name = 'T%d' % len(cases)
                steps.append({'op': 'build_core', 'proto': proto, 'key': '$k_sk', 'nonce': '09' * 32, 'message': '{}', 'footer': tf if tf else None, 'assertion': ta if ta else None, 'out': name})
                for layer in ('generic', 'prelude'):
                    rn = 'R%d_%s' % (len(cases), layer)
                    steps.append({'op': 'parser_run', 'proto': proto, 'layer': layer, 'default_parser': False, 'key': '$k_pk', 'footer': None, 'assertion': None, 'checks': [], 'validators': [],
                                  'pre_ops': [[what, first], [what, second]], 'tokens': ['$' + name], 'out': rn})
                cases.append((what, first, second))
        out = run_native({'steps': steps, 'violated_if': []}); ses.native_runs = getattr(ses, 'native_runs', 0) + 1
        runs = [t for t in (out.get('trace') or []) if 'parser_run' in t]
        i = 0
        for what, first, second in cases:
            for layer in ('generic', 'prelude'):
                if i >= len(runs): break
                res = runs[i]['results'][0]; i += 1
                if res.get('parse') != 'ok':
                    v['native'] = {'proto': proto, 'layer': layer, 'setter': what, 'values': [first, second], 'token_built_with': second, 'library': res}
                    v['what'] += ' [natively: %s parser, %s set to %r then %r, token built with %r is rejected]' % (layer, what, first, second, second); v['replay'] = {'kind': 'setter'}
                    return True
    return False


def confirm_history(ses, v):
    """one parser, several parses: the verdict for a token must not depend on what was parsed before (same token under the right then a wrong key; bad then good token)"""
    for proto in ([v['replay'].get('proto')] if v['replay'].get('proto') else []) + ['v4.public', 'v4.local']:
        m = {'key': '07' * 32, 'nonce': '09' * 32}; m2 = {'key': '08' * 32, 'seed': '08' * 32}
        steps = key_steps(proto, m) + key_steps(proto, m2, 'k2')
        steps.append({'op': 'build_core', 'proto': proto, 'key': '$k_sk', 'nonce': '09' * 32, 'message': '{"sub":"a"}', 'footer': None, 'assertion': None, 'out': 'T'})
        for layer in ('generic', 'prelude'):
            steps.append({'op': 'parser_run', 'proto': proto, 'layer': layer, 'default_parser': False, 'key': '$k_pk', 'alt_key': '$k2_pk', 'alt_key_for': [1, 3], 'footer': None, 'assertion': None,
                          'checks': [], 'validators': [], 'tokens': ['$T', '$T', '$T', '$T'], 'out': 'R_' + layer})
        out = run_native({'steps': steps, 'violated_if': []}); ses.native_runs = getattr(ses, 'native_runs', 0) + 1
        for t in [t for t in (out.get('trace') or []) if 'parser_run' in t]:
            kinds = [r.get('parse') for r in t['results']]
            if kinds != ['ok', 'err', 'ok', 'err']:
                v['native'] = {'proto': proto, 'sequence': 'parse(T,K) parse(T,K2) parse(T,K) parse(T,K2)', 'library': kinds}
                v['what'] += ' [natively: %s one parser, same token under K, K\', K, K\' -> %s]' % (proto, kinds); v['replay'] = {'kind': 'c15_history', 'proto': proto}
                return True
    # the parser is re-configured between two parses: the expectation given last is the one in force; and the same token presented twice runs every validator twice
    for proto in ('v4.local', 'v4.public'):
        m = {'key': '07' * 32, 'nonce': '09' * 32}
        steps = key_steps(proto, m)
        for nm, pl in (('Ta', '{"sub":"a"}'), ('Tb', '{"sub":"b"}')):
            steps.append({'op': 'build_core', 'proto': proto, 'key': '$k_sk', 'nonce': '09' * 32, 'message': pl, 'footer': None, 'assertion': None, 'out': nm})
        want = {}
        for layer in ('generic', 'prelude'):
            steps.append({'op': 'parser_run', 'proto': proto, 'layer': layer, 'default_parser': False, 'key': '$k_pk', 'footer': None, 'assertion': None, 'checks': [{'key': 'sub', 'value': 'a'}],
                          'mid_checks': {'2': [{'key': 'sub', 'value': 'b'}]}, 'validators': [], 'tokens': ['$Ta', '$Tb', '$Ta', '$Tb', '$Tb'], 'out': 'H_' + layer})
            want['H_' + layer] = (['ok', 'err', 'err', 'ok', 'ok'], None)
            steps.append({'op': 'parser_run', 'proto': proto, 'layer': layer, 'default_parser': False, 'key': '$k_pk', 'footer': None, 'assertion': None, 'checks': [],
                          'validators': [{'key': 'sub', 'kind': 'accept', 'via': 'validate'}], 'tokens': ['$Ta', '$Ta', '$Tb', '$Ta'], 'out': 'V_' + layer})
            want['V_' + layer] = (['ok', 'ok', 'ok', 'ok'], 1)
            if layer == 'generic':     # bulk setters between two parses: an expectation that does not match and a rejecting validator for the same key, registered after the first parse
                steps.append({'op': 'parser_run', 'proto': proto, 'layer': layer, 'default_parser': False, 'key': '$k_pk', 'footer': None, 'assertion': None, 'checks': [], 'validators': [],
                              'mid_extend': {'1': {'checks': [{'key': 'sub', 'value': 'zzz'}], 'validators': [{'key': 'sub', 'kind': 'reject'}]}}, 'tokens': ['$Ta', '$Ta', '$Tb'], 'out': 'X_' + layer})
                want['X_' + layer] = (['ok', 'err', 'err'], None)
                steps.append({'op': 'parser_run', 'proto': proto, 'layer': layer, 'default_parser': False, 'key': '$k_pk', 'footer': None, 'assertion': None, 'checks': [], 'validators': [],
                              'mid_extend': {'1': {'checks': [{'key': 'sub', 'value': 'b'}]}}, 'tokens': ['$Ta', '$Ta', '$Tb'], 'out': 'Y_' + layer})
                want['Y_' + layer] = (['ok', 'err', 'ok'], None)
        out = run_native({'steps': steps, 'violated_if': []}); ses.native_runs = getattr(ses, 'native_runs', 0) + 1
        for t in [t for t in (out.get('trace') or []) if 'parser_run' in t]:
            kinds = [r.get('parse') for r in t['results']]; exp_kinds, exp_calls = want.get(t['parser_run'], (None, None))
            bad = None
            if exp_kinds is not None and kinds != exp_kinds: bad = 'verdicts %s, expected %s' % (kinds, exp_kinds)
            elif exp_calls is not None and any(len(r.get('validator_calls', [])) != exp_calls for r in t['results']): bad = 'validator calls per parse %s, expected %d each' % ([len(r.get('validator_calls', [])) for r in t['results']], exp_calls)
            if bad:
                v['native'] = {'proto': proto, 'run': t['parser_run'], 'violated': bad}
                v['what'] += ' [natively: %s one parser, %s: %s]' % (proto, {'H': 'check sub=a; parse a, b; check sub=b; parse a, b, b', 'V': 'validator on sub; parse a, a, b, a', 'X': 'parse a; extend_check_claims(sub=zzz) + extend_validation_claims(sub: reject); parse a, b', 'Y': 'parse a; extend_check_claims(sub=b); parse a, b'}[t['parser_run'][0]], bad)
                v['replay'] = {'kind': 'c15_history', 'proto': proto}; return True
    # time passes between two parses of one token by one default parser: a verdict remembered from the first parse must not outlive the token
    import datetime as dt, time as _t
    proto = 'v4.local'; m = {'key': '07' * 32, 'nonce': '09' * 32}
    exp = (dt.datetime.now(dt.timezone.utc) + dt.timedelta(seconds=4)).isoformat(timespec='seconds').replace('+00:00', 'Z')
    steps = key_steps(proto, m) + [{'op': 'build_core', 'proto': proto, 'key': '$k_sk', 'nonce': '09' * 32, 'message': json.dumps({'exp': exp}), 'footer': None, 'assertion': None, 'out': 'Te'}]
    for layer in ('prelude',):
        steps.append({'op': 'parser_run', 'proto': proto, 'layer': layer, 'default_parser': True, 'key': '$k_pk', 'footer': None, 'assertion': None, 'checks': [], 'validators': [],
                      'tokens': ['$Te', '$Te'], 'sleep_ms_before': {'1': 6000}, 'out': 'E_' + layer})
    out = run_native({'steps': steps, 'violated_if': []}); ses.native_runs = getattr(ses, 'native_runs', 0) + 1
    for t in [t for t in (out.get('trace') or []) if 'parser_run' in t]:
        kinds = [r.get('parse') for r in t['results']]
        if kinds == ['ok', 'ok']:
            v['native'] = {'proto': proto, 'violated': 'a token with exp %s is accepted, and accepted again 6 s later (after exp) by the same default parser' % exp}
            v['what'] += ' [natively: %s]' % v['native']['violated']; v['replay'] = {'kind': 'c15_history', 'proto': proto}; return True
    return False


PY_CONFIRM.update({'core_builder_reuse': confirm_core_reuse, 'setter': confirm_setter, 'c15_history': confirm_history})


def confirm_footer_compare(ses, v):
    """tokens whose footer segment is a proper prefix / extension / other spelling of b64url(F) presented with expected footer F"""
    import base64
    for proto in ('v4.local', 'v4.public'):
        m = {'key': '07' * 32, 'nonce': '09' * 32, 'message': '6d'}
        steps = key_steps(proto, m); alts = []
        for fi, ftxt in enumerate(['f', 'fo', 'foo', 'some footer']):
            mm = dict(m); mm['footer'] = ftxt.encode().hex(); steps.append(build_step(proto, mm, 'some', 'none', out='T%d' % fi))
            real = base64.urlsafe_b64encode(ftxt.encode()).decode().rstrip('=')
            cands = [real[:-1], real[:1], real + 'A', real + 'AA', real + '=', '']
            # same length, several positions changed so that the byte-wise differences cancel under XOR / sum to zero (what a folded comparison would miss)
            for mask in (1, 2, 3, 0x20):
                for i, j in ((0, 1), (0, len(real) - 1)):
                    if i != j and j < len(real): b = bytearray(real.encode()); b[i] ^= mask; b[j] ^= mask; cands.append(b.decode('latin-1'))
            b = bytearray(real.encode()); b[0] = (b[0] + 1) % 128; b[1] = (b[1] - 1) % 128; cands.append(b.decode('latin-1'))
            cands.append(real[1] + real[0] + real[2:]); cands.append(real[::-1])
            cands = [c for c in dict.fromkeys(cands) if c != real and '.' not in c]
            for ci, c in enumerate(cands):
                steps += [{'op': 'mutate', 'in': '$T%d' % fi, 'out': 'M%d_%d' % (fi, ci), 'ops': [{'footer_seg': c}]},
                          {'op': 'parse_core', 'proto': proto, 'token': '$M%d_%d' % (fi, ci), 'key': '$k_pk', 'footer': ftxt, 'assertion': None, 'out': 'R%d_%d' % (fi, ci)}]
                alts.append([{'var': 'R%d_%d' % (fi, ci), 'is': 'ok'}]); alts.append([{'var': 'R%d_%d' % (fi, ci), 'is': 'panic'}])
        out = run_native({'steps': steps, 'violated_if': alts}); ses.native_runs = getattr(ses, 'native_runs', 0) + 1
        v['native'] = {'violated': out.get('violated'), 'accepted': [t for t in (out.get('trace') or []) if 'parse_core' in t and not str(t.get('result', '')).startswith('Err')][:3]}
        if out.get('violated'): v['what'] += ' [natively: %s accepts (or panics on) a token whose footer segment is not b64url(F): %s]' % (proto, str(v['native']['accepted'])[:200]); return True
    return False


PY_CONFIRM.update({'footer_compare': confirm_footer_compare})


# ----------------------------------------------------------------------------- footer segment of produced tokens (C05, C08)
FOOTER_FAMILY = ['', ' ', '\n', '\t ', 'f', 'fo', 'foo', 'ab?', 'ab>', '~~~', 'key-id:~ops>prod', '{"kid":"k1","jku":"https://keys.example/jwks?v=2"}', '\u00ff\u00fe', '\u7b7e\u540d', 'a' * 100 + '?']


def confirm_footer_segment(ses, v):
    """tokens built by the core with footers of a fixed family (plus the model's): the 4th segment must be the unpadded base64url of the footer, absent iff it is empty,
    and the payload segment must be unpadded base64url text"""
    import base64, re as _re
    r = v.get('replay') or {}; fam = list(FOOTER_FAMILY)
    mf = (r.get('model') or {}).get('footer')
    if isinstance(mf, str) and _txt(mf) not in fam: fam.insert(0, _txt(mf))
    for proto in ([r['proto']] if r.get('proto') else ['v4.local', 'v4.public', 'v3.local', 'v2.local', 'v1.local', 'v3.public', 'v2.public', 'v1.public']):
        m = {'key': '07' * 32, 'nonce': '09' * 32, 'message': ('m?>~\u00ff' * 3).encode().hex()}
        steps = key_steps(proto, m)
        for fi, ftxt in enumerate(fam):
            mm = dict(m); mm['footer'] = ftxt.encode().hex(); steps.append(build_step(proto, mm, 'some', 'none', out='T%d' % fi))
        out = run_native({'steps': steps, 'violated_if': []}); ses.native_runs = getattr(ses, 'native_runs', 0) + 1
        tr = [t for t in (out.get('trace') or []) if 'build_core' in t]
        if len(tr) != len(fam): v['native'] = {'error': 'replay trace incomplete', 'out': str(out)[:300]}; return None
        for ftxt, t in zip(fam, tr):
            res = t.get('result', '')
            if not res.startswith('Ok('): bad = 'building fails: ' + res[:80]
            else:
                seg = res[3:-1].split('.'); want = base64.urlsafe_b64encode(ftxt.encode()).decode().rstrip('=')
                bad = None
                if ftxt == '' and len(seg) != 3: bad = 'empty footer, %d segments' % len(seg)
                elif ftxt != '' and (len(seg) != 4 or seg[3] != want): bad = 'footer segment %r is not base64url(F) = %r' % (seg[3] if len(seg) > 3 else None, want)
                elif not _re.match(r'^[A-Za-z0-9_-]*$', seg[2]): bad = 'payload segment is not unpadded base64url text: %r' % seg[2][:60]
            if bad:
                v['native'] = {'proto': proto, 'footer': ftxt, 'token': res[:200], 'violated': bad}; v['what'] += ' [natively: %s, footer %r: %s]' % (proto, ftxt, bad); v['replay'] = {'kind': 'footer_segment', 'proto': proto}
                return True
    return False


PY_CONFIRM.update({'footer_segment': confirm_footer_segment, 'c09': lambda ses, v: confirm_parser(ses, v, True)})


# ----------------------------------------------------------------------------- construction path of the core layer (newtype constructors, builder setters, Clone)
def confirm_core_api(ses, v):
    """built through the public constructors and setters (and through a clone of the builder): a token is accepted with exactly the footer / assertion text it
    was built with and with no neighbour of it; messages come back character for character"""
    near = lambda t: [t + ' ', ' ' + t, t + '\n', t + '\t', t.upper(), t[:-1], t + '\u3000', t.strip()]
    for proto in ('v4.local', 'v4.public', 'v3.local'):
        m = {'key': '07' * 32, 'nonce': '09' * 32}
        steps = key_steps(proto, m); alts = []; i = 0
        for ftxt, atxt, msg in (('kid:1', 'row=7', 'msg'), (' kid:1 ', 'row=7\n', ' m s g \n'), ('', ' ', '\tm'), ('f=', 'a==', 'user=alice&sig=dGVzdA=='), ('=', '.', '=')):
            mm = dict(m, footer=ftxt.encode().hex(), assertion=atxt.encode().hex(), message=msg.encode().hex())
            b = build_step(proto, mm, 'some', 'some', out='T%d' % i); b['times'] = 2; steps.append(b)       # token _0 from the builder, token _1 from its clone
            for j in (0, 1):
                steps.append({'op': 'parse_core', 'proto': proto, 'token': '$T%d_%d' % (i, j), 'key': '$k_pk', 'footer': ftxt, 'assertion': atxt, 'out': 'R%d_%d' % (i, j)})
                alts.append([{'var': 'R%d_%d' % (i, j), 'is': 'not_ok_eq', 'value': msg}])
                for ni, f2 in enumerate(x for x in near(ftxt) if x != ftxt):
                    steps.append({'op': 'parse_core', 'proto': proto, 'token': '$T%d_%d' % (i, j), 'key': '$k_pk', 'footer': f2, 'assertion': atxt, 'out': 'RF%d_%d_%d' % (i, j, ni)}); alts.append([{'var': 'RF%d_%d_%d' % (i, j, ni), 'is': 'ok'}])
                for ni, a2 in enumerate([x for x in near(atxt) if x != atxt] + [None]):
                    steps.append({'op': 'parse_core', 'proto': proto, 'token': '$T%d_%d' % (i, j), 'key': '$k_pk', 'footer': ftxt, 'assertion': a2, 'out': 'RA%d_%d_%d' % (i, j, ni)}); alts.append([{'var': 'RA%d_%d_%d' % (i, j, ni), 'is': 'ok'}])
            i += 1
        out = run_native({'steps': steps, 'violated_if': alts}); ses.native_runs = getattr(ses, 'native_runs', 0) + 1
        if out.get('violated'):
            hit = [t for t in (out.get('trace') or []) if 'parse_core' in t and ((t['parse_core'].startswith('RF') or t['parse_core'].startswith('RA')) and str(t.get('result', '')).startswith('Ok')
                                                                                 or (t['parse_core'].startswith('R') and t['parse_core'][1].isdigit() and not str(t.get('result', '')).startswith('Ok')))][:2]
            v['native'] = {'proto': proto, 'violated': True, 'examples': hit}; v['replay'] = {'kind': 'core_api'}
            v['what'] += ' [natively: %s built through the public constructors/setters: %s]' % (proto, str(hit)[:300]); return True
        if 'violated' not in out: v['native'] = out; return None
    return False


PY_CONFIRM.update({'core_api': confirm_core_api})


def confirm_rsa_pool(ses, v):
    v.setdefault('replay', {}); v['replay'] = {'kind': 'roundtrip', 'proto': 'v1.public', 'fkind': 'some', 'akind': 'none', 'model': {'key': '', 'nonce': '09' * 32, 'message': '6d', 'footer': '66', 'assertion': ''}}
    return confirm(ses, v)


PY_CONFIRM.update({'rsa_pool': confirm_rsa_pool})


def confirm_key_ctor(ses, v):
    """key wrappers built through the public constructors hand back exactly the bytes they were given"""
    import os as _os
    mb = ((v.get('replay') or {}).get('model') or {}).get('bytes')
    cases = []
    for proto, role, n in (('v2.public', 'public', 32), ('v4.public', 'public', 32), ('v2.public', 'private', 64), ('v4.public', 'private', 64), ('v3.public', 'private', 48),
                           ('v1.local', 'sym', 32), ('v2.local', 'sym', 32), ('v3.local', 'sym', 32), ('v4.local', 'sym', 32)):
        for fill in (0x00, 0xff, 0x5a): cases.append((proto, role, bytes([fill] * (n - 1) + [fill ^ 1]).hex()))
    for tag in (2, 3): cases.append(('v3.public', 'public', bytes([tag] + [0x11] * 48).hex()))
    for role in ('public', 'private'):
        for n in (0, 1, 16, 24, 32, 269, 270, 271, 293, 294, 295, 512, 1190, 1217, 1218):
            cases.append(('v1.public', role, bytes((i * 7 + n) % 256 for i in range(n)).hex()))
        if isinstance(mb, str) and mb: cases.append(('v1.public', role, mb))
    steps = [{'op': 'key_ctor', 'proto': p_, 'role': r_, 'bytes': h_, 'out': 'K%d' % i} for i, (p_, r_, h_) in enumerate(cases)]
    out = run_native({'steps': steps, 'violated_if': []}); ses.native_runs = getattr(ses, 'native_runs', 0) + 1
    tr = [t for t in (out.get('trace') or []) if 'key_ctor' in t]
    if len(tr) != len(cases): v['native'] = {'error': 'replay trace incomplete', 'out': str(out)[:300]}; return None
    for (p_, r_, h_), t in zip(cases, tr):
        res = t.get('result', '')
        if res.startswith('Ok(') and res[3:-1] != h_:
            v['native'] = {'proto': p_, 'role': r_, 'input_len': len(h_) // 2, 'violated': 'constructed from %s..., holds %s...' % (h_[:24], res[3:27])}
            v['what'] += ' [natively: %s %s key from %d bytes holds other bytes than it was given]' % (p_, r_, len(h_) // 2); v['replay'] = {'kind': 'key_ctor'}; return True
        if res.startswith('Panic'):
            v['native'] = {'proto': p_, 'role': r_, 'violated': 'constructor panics: ' + res[:80]}; v['what'] += ' [natively: %s %s key constructor panics on %d bytes]' % (p_, r_, len(h_) // 2); v['replay'] = {'kind': 'key_ctor'}; return True
    return False


PY_CONFIRM.update({'key_ctor': confirm_key_ctor})


PROTOS_ALL = ['v1.local', 'v2.local', 'v3.local', 'v4.local', 'v1.public', 'v2.public', 'v3.public', 'v4.public']


def confirm_verbatim(ses, v):
    """an authentic token of Y whose header text is replaced by the header of another protocol X, presented to Y (same key): must be refused - also after X's own entry
    point has been used in the same process (state shared between protocols)"""
    r = v.get('replay') or {}; ys = [r['y']] if r.get('y') in PROTOS_ALL else PROTOS_ALL
    m = {'key': '07' * 32, 'nonce': '09' * 32, 'message': '6d7367', 'footer': '66', 'assertion': ''}
    for y in ys:
        steps = key_steps(y, m) + [build_step(y, m, 'some', 'none', out='TY'), {'op': 'parse_core', 'proto': y, 'token': '$TY', 'key': '$k_pk', 'footer': 'f', 'assertion': None, 'out': 'RY'}]; alts = []
        for rnd in (0, 1):
            for xi, x in enumerate(p_ for p_ in PROTOS_ALL if p_ != y):
                nm = '%d_%d' % (rnd, xi)
                if rnd == 1:       # second round: X's own entry point has processed one of its own tokens first
                    steps += key_steps(x, m, 'kx' + nm) if False else []
                    kx = dict(m); steps += [dict(s_, out='kx' + nm) for s_ in key_steps(x, kx, 'kx' + nm)]
                    steps += [dict(build_step(x, kx, 'some', 'none', out='TX' + nm, key='$kx%s_sk' % nm)),
                              {'op': 'parse_core', 'proto': x, 'token': '$TX' + nm, 'key': '$kx%s_pk' % nm, 'footer': 'f', 'assertion': None, 'out': 'RXW' + nm}]
                steps += [{'op': 'mutate', 'in': '$TY', 'out': 'L' + nm, 'ops': [{'set_header': x + '.'}]},
                          {'op': 'parse_core', 'proto': y, 'token': '$L' + nm, 'key': '$k_pk', 'footer': 'f', 'assertion': None, 'out': 'RL' + nm}]
                alts.append([{'var': 'RL' + nm, 'is': 'ok'}])
        out = run_native({'steps': steps, 'violated_if': alts}); ses.native_runs = getattr(ses, 'native_runs', 0) + 1
        if out.get('violated'):
            hit = [t for t in (out.get('trace') or []) if 'parse_core' in t and t['parse_core'].startswith('RL') and str(t.get('result', '')).startswith('Ok')][:2]
            v['native'] = {'y': y, 'violated': True, 'accepted': hit}; v['what'] += ' [natively: %s accepts its own token body under another protocol\'s header: %s]' % (y, str([(h['token'][:12], h['result'][:20]) for h in hit])[:200])
            v['replay'] = {'kind': 'verbatim', 'y': y}; return True
        if 'violated' not in out: v['native'] = out; return None
        # fresh process per X: the very first token the process parses is X's own, then Y is shown its own token body under X's header
        for x in (p_ for p_ in PROTOS_ALL if p_ != y):
            steps = key_steps(y, m) + [build_step(y, m, 'some', 'none', out='TY')] + [dict(s_) for s_ in key_steps(x, m, 'kx')]
            steps += [build_step(x, m, 'some', 'none', out='TX', key='$kx_sk'), {'op': 'parse_core', 'proto': x, 'token': '$TX', 'key': '$kx_pk', 'footer': 'f', 'assertion': None, 'out': 'RXW'},
                      {'op': 'mutate', 'in': '$TY', 'out': 'L', 'ops': [{'set_header': x + '.'}]},
                      {'op': 'parse_core', 'proto': y, 'token': '$L', 'key': '$k_pk', 'footer': 'f', 'assertion': None, 'out': 'RL'}]
            out = run_native({'steps': steps, 'violated_if': [[{'var': 'RL', 'is': 'ok'}]]}); ses.native_runs = getattr(ses, 'native_runs', 0) + 1
            if out.get('violated'):
                v['native'] = {'y': y, 'x': x, 'violated': True}; v['what'] += ' [natively: in a process whose first parse was a %s token, %s accepts its own token body relabelled %s]' % (x, y, x)
                v['replay'] = {'kind': 'verbatim', 'y': y}; return True
    return False


PY_CONFIRM.update({'verbatim': confirm_verbatim})
