"""Native replay of counterexamples through the verif-replay binary (built from /repo's working tree)."""
import json, os, subprocess, tempfile
from . import build


def run_native(recipe, release=True):
    binp = build.replay_binary()
    p = subprocess.run([binp], input=json.dumps(recipe), capture_output=True, text=True, timeout=300)
    try: return json.loads(p.stdout.strip().split('\n')[-1])
    except Exception: return {'error': 'replay binary output not understood', 'stdout': p.stdout[-2000:], 'stderr': p.stderr[-2000:], 'rc': p.returncode}


def confirm(ses, v):
    """True: reproduced natively; False: did not reproduce; None: no recipe"""
    if not v.get('replay'): return None
    out = run_native(v['replay'])
    ses.native_runs = getattr(ses, 'native_runs', 0) + 1
    v['native'] = out
    if 'violated' in out: return bool(out['violated'])
    return None


def replay_file(path):
    d = json.load(open(path))
    out = run_native(d['replay'])
    print(json.dumps(out, indent=1))
    if out.get('violated'):
        print('VIOLATION property=%s replay=%s' % (d['property'], path)); return 1
    return 0
