//! round trip of every protocol enabled in THIS feature configuration of rusty_paseto (C20 replay).
//! prints one line per protocol: "<proto> ok" / "<proto> FAIL <what>"; exit code 1 if any fails.
#[allow(unused_imports)]
use rusty_paseto::core::*;

#[allow(unused_macros)]
macro_rules! local_rt {
    ($name:expr, $V:ty, $ia:tt, $fails:ident) => {{
        let key = PasetoSymmetricKey::<$V, Local>::from(Key::<32>::from([7u8; 32]));
        let nk = Key::<32>::from([9u8; 32]);
        let nonce = PasetoNonce::<$V, Local>::from(&nk);
        let mut b = Paseto::<$V, Local>::builder();
        b.set_payload(Payload::from("{\"a\":1}")).set_footer(Footer::from("f"));
        match b.try_encrypt(&key, &nonce) {
            Ok(t) => {
                let r = local_rt!(@dec $ia, $V, &t, &key);
                match r {
                    Ok(m) if m == "{\"a\":1}" && t.starts_with($name) => println!("{} ok", $name),
                    other => { println!("{} FAIL token {} decrypts to {:?}", $name, t, other.map_err(|e| format!("{:?}", e))); $fails += 1; }
                }
            }
            Err(e) => { println!("{} FAIL encrypt: {:?}", $name, e); $fails += 1; }
        }
    }};
    (@dec yes, $V:ty, $t:expr, $k:expr) => { Paseto::<$V, Local>::try_decrypt($t, $k, Footer::from("f"), None) };
    (@dec no, $V:ty, $t:expr, $k:expr) => { Paseto::<$V, Local>::try_decrypt($t, $k, Footer::from("f")) };
}

fn main() {
    #[allow(unused_mut)]
    let mut fails = 0;
    #[cfg(feature = "v1_local")]
    local_rt!("v1.local.", V1, no, fails);
    #[cfg(feature = "v2_local")]
    local_rt!("v2.local.", V2, no, fails);
    #[cfg(feature = "v3_local")]
    local_rt!("v3.local.", V3, yes, fails);
    #[cfg(feature = "v4_local")]
    local_rt!("v4.local.", V4, yes, fails);
    #[cfg(feature = "v2_public")]
    {
        let sk = Key::<64>::try_from("b4cbfb43df4ce210727d953e4a713307fa19bb7d9f85041438d9e11b942a37741eb9dbbbbc047c03fd70604e0071f0987e16b28b757225c11f00415d0e20b1a2").unwrap();
        let pk = Key::<32>::try_from("1eb9dbbbbc047c03fd70604e0071f0987e16b28b757225c11f00415d0e20b1a2").unwrap();
        let (sk, pk) = (PasetoAsymmetricPrivateKey::<V2, Public>::from(&sk), PasetoAsymmetricPublicKey::<V2, Public>::from(&pk));
        let mut b = Paseto::<V2, Public>::builder(); b.set_payload(Payload::from("{\"a\":1}"));
        match b.try_sign(&sk).map_err(|e| format!("{:?}", e)).and_then(|t| Paseto::<V2, Public>::try_verify(&t, &pk, None).map(|m| (t, m)).map_err(|e| format!("{:?}", e))) {
            Ok((t, m)) if m == "{\"a\":1}" && t.starts_with("v2.public.") => println!("v2.public. ok"),
            other => { println!("v2.public. FAIL {:?}", other); fails += 1; }
        }
    }
    #[cfg(feature = "v4_public")]
    {
        let sk = Key::<64>::try_from("b4cbfb43df4ce210727d953e4a713307fa19bb7d9f85041438d9e11b942a37741eb9dbbbbc047c03fd70604e0071f0987e16b28b757225c11f00415d0e20b1a2").unwrap();
        let pk = Key::<32>::try_from("1eb9dbbbbc047c03fd70604e0071f0987e16b28b757225c11f00415d0e20b1a2").unwrap();
        let (sk, pk) = (PasetoAsymmetricPrivateKey::<V4, Public>::from(&sk), PasetoAsymmetricPublicKey::<V4, Public>::from(&pk));
        let mut b = Paseto::<V4, Public>::builder(); b.set_payload(Payload::from("{\"a\":1}"));
        match b.try_sign(&sk).map_err(|e| format!("{:?}", e)).and_then(|t| Paseto::<V4, Public>::try_verify(&t, &pk, None, None).map(|m| (t, m)).map_err(|e| format!("{:?}", e))) {
            Ok((t, m)) if m == "{\"a\":1}" && t.starts_with("v4.public.") => println!("v4.public. ok"),
            other => { println!("v4.public. FAIL {:?}", other); fails += 1; }
        }
    }
    #[cfg(feature = "v3_public")]
    {
        let sk = Key::<48>::try_from("20347609607477aca8fbfbc5e6218455f3199669792ef8b466faa87bdc67798144c848dd03661eed5ac62461340cea96").unwrap();
        let pk = Key::<49>::try_from("02fbcb7c69ee1c60579be7a334134878d9c5c5bf35d552dab63c0140397ed14cef637d7720925c44699ea30e72874c72fb").unwrap();
        let sk = PasetoAsymmetricPrivateKey::<V3, Public>::from(&sk);
        let pk = PasetoAsymmetricPublicKey::<V3, Public>::try_from(&pk).unwrap();
        let mut b = Paseto::<V3, Public>::builder(); b.set_payload(Payload::from("{\"a\":1}"));
        match b.try_sign(&sk).map_err(|e| format!("{:?}", e)).and_then(|t| Paseto::<V3, Public>::try_verify(&t, &pk, None, None).map(|m| (t, m)).map_err(|e| format!("{:?}", e))) {
            Ok((t, m)) if m == "{\"a\":1}" && t.starts_with("v3.public.") => println!("v3.public. ok"),
            other => { println!("v3.public. FAIL {:?}", other); fails += 1; }
        }
    }
    #[cfg(feature = "v1_public")]
    {
        let skb = include_bytes!("../../replay/keys/v1_public_test_vectors_private_key.pk8");
        let pkb = include_bytes!("../../replay/keys/v1_public_test_vectors_public_key.der");
        let sk = PasetoAsymmetricPrivateKey::<V1, Public>::from(&skb[..]);
        let pk = PasetoAsymmetricPublicKey::<V1, Public>::from(&pkb[..]);
        let mut b = Paseto::<V1, Public>::builder(); b.set_payload(Payload::from("{\"a\":1}"));
        match b.try_sign(&sk).map_err(|e| format!("{:?}", e)).and_then(|t| Paseto::<V1, Public>::try_verify(&t, &pk, None).map(|m| (t, m)).map_err(|e| format!("{:?}", e))) {
            Ok((t, m)) if m == "{\"a\":1}" && t.starts_with("v1.public.") => println!("v1.public. ok"),
            other => { println!("v1.public. FAIL {:?}", other); fails += 1; }
        }
    }
    if fails > 0 { std::process::exit(1); }
}
