#![allow(dead_code, unused_imports)]
use std::fmt::Write;
use std::str::Utf8Error;

/// exact replacement for alloc::fmt::format (same semantics, without capacity estimation)
pub fn precise_format(args: std::fmt::Arguments<'_>) -> String {
    let mut s = String::new();
    s.write_fmt(args).unwrap();
    s
}

/// Build a &str from bytes already constrained to be valid UTF-8 (harness side).
pub fn str_unchecked(b: &[u8]) -> &str {
    unsafe { std::str::from_utf8_unchecked(b) }
}

fn some_utf8_error() -> Utf8Error {
    // all-zero is a valid bit pattern for {valid_up_to: usize, error_len: Option<u8>}; the value is never inspected
    unsafe { std::mem::zeroed::<Utf8Error>() }
}

/// Single-loop DFA for UTF-8 validity (RFC 3629), model of core::str::from_utf8's accept set.
pub fn is_utf8(v: &[u8]) -> bool {
    let n = v.len();
    let mut i = 0;
    let mut need: u8 = 0; // continuation bytes still expected
    let mut lo: u8 = 0x80; // allowed range of the next continuation byte
    let mut hi: u8 = 0xBF;
    let mut ok = true;
    while i < n {
        let b = v[i];
        if need == 0 {
            if b < 0x80 {
            } else if b >= 0xC2 && b <= 0xDF { need = 1; lo = 0x80; hi = 0xBF; }
            else if b == 0xE0 { need = 2; lo = 0xA0; hi = 0xBF; }
            else if (b >= 0xE1 && b <= 0xEC) || b == 0xEE || b == 0xEF { need = 2; lo = 0x80; hi = 0xBF; }
            else if b == 0xED { need = 2; lo = 0x80; hi = 0x9F; }
            else if b == 0xF0 { need = 3; lo = 0x90; hi = 0xBF; }
            else if b >= 0xF1 && b <= 0xF3 { need = 3; lo = 0x80; hi = 0xBF; }
            else if b == 0xF4 { need = 3; lo = 0x80; hi = 0x8F; }
            else { ok = false; }
        } else {
            if b < lo || b > hi { ok = false; }
            need -= 1; lo = 0x80; hi = 0xBF;
        }
        i += 1;
    }
    ok && need == 0
}

pub fn from_utf8_model(v: &[u8]) -> Result<&str, Utf8Error> {
    if is_utf8(v) {
        Ok(unsafe { std::str::from_utf8_unchecked(v) })
    } else {
        Err(some_utf8_error())
    }
}

/// zeroize's inline-asm optimisation barrier has no semantic effect.
pub fn barrier_noop<T: ?Sized>(_val: &T) {}

/// ring's constant-time comparison ends in a C function Kani cannot see; its contract is byte equality.
pub fn ct_eq_stub(a: &[u8], b: &[u8]) -> Result<(), ring::error::Unspecified> {
    if a.len() != b.len() { return Err(ring::error::Unspecified); }
    let mut i = 0; let mut same = true;
    while i < a.len() { if a[i] != b[i] { same = false; } i += 1; }
    if same { Ok(()) } else { Err(ring::error::Unspecified) }
}
