//! generic / prelude layer operations of the replay script (extended progressively)
use crate::{Env};
use serde_json::Value as J;

pub fn step(_env: &mut Env, _op: &str, _st: &J, _out: &str) -> Option<J> {
    None
}
