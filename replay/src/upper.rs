//! generic / prelude layer operations of the replay script: builder call sequences and parser configurations run against the real crate
use crate::{guarded, keys_for, parse_core, Env, Outcome};
use rusty_paseto::prelude::*;
use serde_json::{json, Value as J};
use std::cell::RefCell;
use std::collections::HashMap;

fn arr<const N: usize>(v: &[u8]) -> [u8; N] {
    let mut a = [0u8; N];
    for (i, b) in v.iter().take(N).enumerate() {
        a[i] = *b;
    }
    a
}

fn leak(s: &str) -> &'static str {
    Box::leak(s.to_string().into_boxed_str())
}

thread_local! {
    static CALLS: RefCell<Vec<(String, String)>> = RefCell::new(vec![]);
}

/// one builder call
fn apply_prelude<'a, V, P>(b: &mut PasetoBuilder<'a, V, P>, op: &'a J) -> Result<(), String> {
    let o = op.as_array().ok_or("op")?;
    let name = o[0].as_str().unwrap_or("");
    let s = |i: usize| o.get(i).and_then(|x| x.as_str()).unwrap_or("");
    match name {
        "set" => match s(1) {
            "exp" => { b.set_claim(ExpirationClaim::try_from(s(2)).map_err(|e| e.to_string())?); }
            "nbf" => { b.set_claim(NotBeforeClaim::try_from(s(2)).map_err(|e| e.to_string())?); }
            "iat" => { b.set_claim(IssuedAtClaim::try_from(s(2)).map_err(|e| e.to_string())?); }
            "iss" => { b.set_claim(IssuerClaim::from(s(2))); }
            "sub" => { b.set_claim(SubjectClaim::from(s(2))); }
            "aud" => { b.set_claim(AudienceClaim::from(s(2))); }
            "jti" => { b.set_claim(TokenIdentifierClaim::from(s(2))); }
            k => { b.set_claim(CustomClaim::try_from((k, o.get(2).cloned().unwrap_or(J::Null))).map_err(|e| e.to_string())?); }
        },
        "set_typed" => {
            // claim values of native Rust types (not serde_json::Value): [ "set_typed", key, kind, value ]
            let k = s(1).to_string(); let v = o.get(3).cloned().unwrap_or(J::Null);
            match s(2) {
                "f32" => { b.set_claim(CustomClaim::try_from((k, v.as_f64().unwrap_or(0.0) as f32)).map_err(|e| e.to_string())?); }
                "f64" => { b.set_claim(CustomClaim::try_from((k, v.as_f64().unwrap_or(0.0))).map_err(|e| e.to_string())?); }
                "i64" => { b.set_claim(CustomClaim::try_from((k, v.as_i64().unwrap_or(0))).map_err(|e| e.to_string())?); }
                "u8" => { b.set_claim(CustomClaim::try_from((k, v.as_u64().unwrap_or(0) as u8)).map_err(|e| e.to_string())?); }
                "bool" => { b.set_claim(CustomClaim::try_from((k, v.as_bool().unwrap_or(false))).map_err(|e| e.to_string())?); }
                "vec_f32" => { let xs: Vec<f32> = v.as_array().cloned().unwrap_or_default().iter().map(|x| x.as_f64().unwrap_or(0.0) as f32).collect(); b.set_claim(CustomClaim::try_from((k, xs)).map_err(|e| e.to_string())?); }
                "opt_f32" => { let x: Option<f32> = v.as_f64().map(|x| x as f32); b.set_claim(CustomClaim::try_from((k, x)).map_err(|e| e.to_string())?); }
                "string" => { b.set_claim(CustomClaim::try_from((k, v.as_str().unwrap_or("").to_string())).map_err(|e| e.to_string())?); }
                other => return Err(format!("unknown typed kind {}", other)),
            }
        }
        "ack" => { b.set_no_expiration_danger_acknowledged(); }
        "footer" => { b.set_footer(Footer::from(s(1))); }
        _ => return Err(format!("unknown builder op {}", name)),
    }
    Ok(())
}

fn apply_generic<'a, V, P>(b: &mut GenericBuilder<'a, 'a, V, P>, op: &'a J) -> Result<(), String> {
    let o = op.as_array().ok_or("op")?;
    let name = o[0].as_str().unwrap_or("");
    let s = |i: usize| o.get(i).and_then(|x| x.as_str()).unwrap_or("");
    match name {
        "set" => match s(1) {
            "exp" => { b.set_claim(ExpirationClaim::try_from(s(2)).map_err(|e| e.to_string())?); }
            "nbf" => { b.set_claim(NotBeforeClaim::try_from(s(2)).map_err(|e| e.to_string())?); }
            "iat" => { b.set_claim(IssuedAtClaim::try_from(s(2)).map_err(|e| e.to_string())?); }
            "iss" => { b.set_claim(IssuerClaim::from(s(2))); }
            "sub" => { b.set_claim(SubjectClaim::from(s(2))); }
            "aud" => { b.set_claim(AudienceClaim::from(s(2))); }
            "jti" => { b.set_claim(TokenIdentifierClaim::from(s(2))); }
            k => { b.set_claim(CustomClaim::try_from((k, o.get(2).cloned().unwrap_or(J::Null))).map_err(|e| e.to_string())?); }
        },
        "set_typed" => {
            // claim values of native Rust types (not serde_json::Value): [ "set_typed", key, kind, value ]
            let k = s(1).to_string(); let v = o.get(3).cloned().unwrap_or(J::Null);
            match s(2) {
                "f32" => { b.set_claim(CustomClaim::try_from((k, v.as_f64().unwrap_or(0.0) as f32)).map_err(|e| e.to_string())?); }
                "f64" => { b.set_claim(CustomClaim::try_from((k, v.as_f64().unwrap_or(0.0))).map_err(|e| e.to_string())?); }
                "i64" => { b.set_claim(CustomClaim::try_from((k, v.as_i64().unwrap_or(0))).map_err(|e| e.to_string())?); }
                "u8" => { b.set_claim(CustomClaim::try_from((k, v.as_u64().unwrap_or(0) as u8)).map_err(|e| e.to_string())?); }
                "bool" => { b.set_claim(CustomClaim::try_from((k, v.as_bool().unwrap_or(false))).map_err(|e| e.to_string())?); }
                "vec_f32" => { let xs: Vec<f32> = v.as_array().cloned().unwrap_or_default().iter().map(|x| x.as_f64().unwrap_or(0.0) as f32).collect(); b.set_claim(CustomClaim::try_from((k, xs)).map_err(|e| e.to_string())?); }
                "opt_f32" => { let x: Option<f32> = v.as_f64().map(|x| x as f32); b.set_claim(CustomClaim::try_from((k, x)).map_err(|e| e.to_string())?); }
                "string" => { b.set_claim(CustomClaim::try_from((k, v.as_str().unwrap_or("").to_string())).map_err(|e| e.to_string())?); }
                other => return Err(format!("unknown typed kind {}", other)),
            }
        }
        "remove" => { b.remove_claim(s(1)); }
        "footer" => { b.set_footer(Footer::from(s(1))); }
        _ => return Err(format!("unknown builder op {}", name)),
    }
    Ok(())
}

macro_rules! seq_impl {
    ($fname:ident, $V:ty, $P:ty, $build:ident, $mkkey:expr, $ia:tt) => {
        fn $fname(layer: &str, sk: &[u8], ops: &[J]) -> Vec<J> {
            let key = $mkkey(sk);
            let mut outs = vec![];
            if layer == "prelude" {
                let mut b = PasetoBuilder::<$V, $P>::default();
                for op in ops {
                    let name = op[0].as_str().unwrap_or("");
                    if name == "build" {
                        let r = guarded(|| b.build(&key).map_err(|e| format!("{:?}", e)));
                        outs.push(json!({"build": r.kind(), "value": match &r { Outcome::Ok(s) | Outcome::Err(s) | Outcome::Panic(s) => s.clone() }}));
                    } else if name == "assertion" {
                        seq_impl!(@ia $ia, b, op);
                    } else if let Err(e) = apply_prelude(&mut b, op) {
                        outs.push(json!({"op_error": e}));
                    }
                }
            } else {
                let mut b = GenericBuilder::<$V, $P>::default();
                for op in ops {
                    let name = op[0].as_str().unwrap_or("");
                    if name == "build" {
                        let r = guarded(|| b.$build(&key).map_err(|e| format!("{:?}", e)));
                        outs.push(json!({"build": r.kind(), "value": match &r { Outcome::Ok(s) | Outcome::Err(s) | Outcome::Panic(s) => s.clone() }}));
                    } else if name == "assertion" {
                        seq_impl!(@ia $ia, b, op);
                    } else if let Err(e) = apply_generic(&mut b, op) {
                        outs.push(json!({"op_error": e}));
                    }
                }
            }
            outs
        }
    };
    (@ia yes, $b:ident, $op:ident) => { $b.set_implicit_assertion(ImplicitAssertion::from($op[1].as_str().unwrap_or(""))); };
    (@ia no, $b:ident, $op:ident) => {};
}

fn symk<V>(sk: &[u8]) -> PasetoSymmetricKey<V, Local> { PasetoSymmetricKey::<V, Local>::from(Key::<32>::from(arr::<32>(sk))) }

seq_impl!(seq_v1l, V1, Local, try_encrypt, symk::<V1>, no);
seq_impl!(seq_v2l, V2, Local, try_encrypt, symk::<V2>, no);
seq_impl!(seq_v3l, V3, Local, try_encrypt, symk::<V3>, yes);
seq_impl!(seq_v4l, V4, Local, try_encrypt, symk::<V4>, yes);

fn seq_public(proto: &str, layer: &str, sk: &[u8], ops: &[J]) -> Vec<J> {
    macro_rules! go {
        ($V:ty, $key:expr, $ia:tt) => {{
            let key = $key;
            let mut outs = vec![];
            if layer == "prelude" {
                let mut b = PasetoBuilder::<$V, Public>::default();
                for op in ops {
                    let name = op[0].as_str().unwrap_or("");
                    if name == "build" {
                        let r = guarded(|| b.build(&key).map_err(|e| format!("{:?}", e)));
                        outs.push(json!({"build": r.kind(), "value": match &r { Outcome::Ok(s) | Outcome::Err(s) | Outcome::Panic(s) => s.clone() }}));
                    } else if name == "assertion" {
                        seq_impl!(@ia $ia, b, op);
                    } else if let Err(e) = apply_prelude(&mut b, op) {
                        outs.push(json!({"op_error": e}));
                    }
                }
            } else {
                let mut b = GenericBuilder::<$V, Public>::default();
                for op in ops {
                    let name = op[0].as_str().unwrap_or("");
                    if name == "build" {
                        let r = guarded(|| b.try_sign(&key).map_err(|e| format!("{:?}", e)));
                        outs.push(json!({"build": r.kind(), "value": match &r { Outcome::Ok(s) | Outcome::Err(s) | Outcome::Panic(s) => s.clone() }}));
                    } else if name == "assertion" {
                        seq_impl!(@ia $ia, b, op);
                    } else if let Err(e) = apply_generic(&mut b, op) {
                        outs.push(json!({"op_error": e}));
                    }
                }
            }
            outs
        }};
    }
    match proto {
        "v1.public" => go!(V1, PasetoAsymmetricPrivateKey::<V1, Public>::from(sk), no),
        "v2.public" => { let k = Key::<64>::from(arr::<64>(sk)); go!(V2, PasetoAsymmetricPrivateKey::<V2, Public>::from(&k), no) }
        "v3.public" => { let k = Key::<48>::from(arr::<48>(sk)); go!(V3, PasetoAsymmetricPrivateKey::<V3, Public>::from(&k), yes) }
        _ => { let k = Key::<64>::from(arr::<64>(sk)); go!(V4, PasetoAsymmetricPrivateKey::<V4, Public>::from(&k), yes) }
    }
}

/// parser configuration run: expected claims, validators, repeated parses
fn validator_for(kind: &str) -> &'static ValidatorFn {
    match kind {
        "accept" => &|k, v| { CALLS.with(|c| c.borrow_mut().push((k.to_string(), v.to_string()))); Ok(()) },
        "reject" => &|k, v| { CALLS.with(|c| c.borrow_mut().push((k.to_string(), v.to_string()))); Err(PasetoClaimError::CustomValidation(k.to_string())) },
        _ => &|k, v| { CALLS.with(|c| c.borrow_mut().push((k.to_string(), v.to_string()))); if v.is_null() { Err(PasetoClaimError::CustomValidation(k.to_string())) } else { Ok(()) } },
    }
}

macro_rules! parse_impl {
    ($V:ty, $P:ty, $key:expr, $key2:expr, $ia:tt, $st:ident, $toks:ident) => {{
        let key = $key;
        let key2 = $key2;
        let alt_for: Vec<usize> = $st["alt_key_for"].as_array().cloned().unwrap_or_default().iter().filter_map(|x| x.as_u64().map(|y| y as usize)).collect();
        let layer = $st["layer"].as_str().unwrap_or("generic");
        let footer = $st["footer"].as_str();
        let assertion = $st["assertion"].as_str();
        let checks: Vec<J> = $st["checks"].as_array().cloned().unwrap_or_default();
        let vals: Vec<J> = $st["validators"].as_array().cloned().unwrap_or_default();
        let mut outs = vec![];
        let pre_ops: Vec<J> = $st["pre_ops"].as_array().cloned().unwrap_or_default();
        let pre_static: Vec<(String, &'static str)> = pre_ops.iter().map(|o| (o[0].as_str().unwrap_or("").to_string(), leak(o[1].as_str().unwrap_or("")))).collect();
        macro_rules! apply_checks {
            ($p:ident, $list:expr) => {
                for c in $list {
                    let k = c["key"].as_str().unwrap_or("");
                    let sv: &'static str = leak(c["value"].as_str().unwrap_or(""));
                    match k {
                        "iat" => { if let Ok(c_) = IssuedAtClaim::try_from(sv) { $p.check_claim(c_); } }
                        "exp" => { if let Ok(c_) = ExpirationClaim::try_from(sv) { $p.check_claim(c_); } }
                        "nbf" => { if let Ok(c_) = NotBeforeClaim::try_from(sv) { $p.check_claim(c_); } }
                        "iss" => { $p.check_claim(IssuerClaim::from(sv)); }
                        "sub" => { $p.check_claim(SubjectClaim::from(sv)); }
                        "aud" => { $p.check_claim(AudienceClaim::from(sv)); }
                        "jti" => { $p.check_claim(TokenIdentifierClaim::from(sv)); }
                        _ => { if let Ok(cc) = CustomClaim::try_from((k.to_string(), c["value"].clone())) { $p.check_claim(cc); } }
                    }
                }
            };
        }
        macro_rules! configure {
            ($p:ident) => {
                if let Some(f) = footer { $p.set_footer(Footer::from(leak(f))); }
                parse_impl!(@ia $ia, $p, assertion);
                for (name, val) in pre_static.iter() {
                    if name == "footer" { $p.set_footer(Footer::from(*val)); }
                    if name == "assertion" { parse_impl!(@ia $ia, $p, Some(*val)); }
                }
                apply_checks!($p, &checks);
            };
        }

        if layer == "prelude" {
            let mut p = if $st["default_parser"].as_bool().unwrap_or(true) { PasetoParser::<$V, $P>::default() } else { PasetoParser::<$V, $P>::new() };
            configure!(p);
            for v in &vals {
                let k = v["key"].as_str().unwrap_or("");
                let vf = validator_for(v["kind"].as_str().unwrap_or("accept"));
                match k {
                    "sub" => { p.validate_claim(SubjectClaim::from(""), vf); }
                    "iss" => { p.validate_claim(IssuerClaim::from(""), vf); }
                    "aud" => { p.validate_claim(AudienceClaim::from(""), vf); }
                    "jti" => { p.validate_claim(TokenIdentifierClaim::from(""), vf); }
                    _ => { if let Ok(cc) = CustomClaim::try_from(k) { p.validate_claim(cc, vf); } }
                }
            }
            for (ti, t) in $toks.iter().enumerate() {
                if let Some(list) = $st["mid_checks"][ti.to_string().as_str()].as_array() { let list: Vec<J> = list.clone(); apply_checks!(p, &list); }
                if let Some(ms) = $st["sleep_ms_before"][ti.to_string().as_str()].as_u64() { std::thread::sleep(std::time::Duration::from_millis(ms)); }
                CALLS.with(|c| c.borrow_mut().clear());
                let r = guarded(|| p.parse(t, if alt_for.contains(&ti) { &key2 } else { &key }).map(|v| v.to_string()).map_err(|e| format!("{:?}", e)));
                let calls: Vec<J> = CALLS.with(|c| c.borrow().iter().map(|(k, v)| json!([k, v])).collect());
                outs.push(json!({"parse": r.kind(), "value": match &r { Outcome::Ok(s) | Outcome::Err(s) | Outcome::Panic(s) => s.clone() }, "validator_calls": calls}));
            }
        } else {
            let mut p = GenericParser::<$V, $P>::default();
            configure!(p);
            let mut ext: ValidatorMap = HashMap::new();
            for v in &vals {
                let k = v["key"].as_str().unwrap_or("");
                if v["via"].as_str() == Some("extend") {
                    ext.insert(k.to_string(), Box::new(validator_for(v["kind"].as_str().unwrap_or("accept"))));
                } else {
                    let vf = validator_for(v["kind"].as_str().unwrap_or("accept"));
                    match k {
                        "sub" => { p.validate_claim(SubjectClaim::from(""), vf); }
                        "iss" => { p.validate_claim(IssuerClaim::from(""), vf); }
                        "aud" => { p.validate_claim(AudienceClaim::from(""), vf); }
                        "jti" => { p.validate_claim(TokenIdentifierClaim::from(""), vf); }
                        _ => { if let Ok(cc) = CustomClaim::try_from(k) { p.validate_claim(cc, vf); } }
                    }
                }
            }
            if !ext.is_empty() { p.extend_validation_claims(ext); }
            for (ti, t) in $toks.iter().enumerate() {
                if let Some(list) = $st["mid_checks"][ti.to_string().as_str()].as_array() { let list: Vec<J> = list.clone(); apply_checks!(p, &list); }
                if let Some(me) = $st["mid_extend"][ti.to_string().as_str()].as_object() {
                    // re-configuration through the bulk setters between two parses
                    let mut cm: HashMap<String, Box<dyn erased_serde::Serialize>> = HashMap::new();
                    for c in me.get("checks").and_then(|x| x.as_array()).cloned().unwrap_or_default() { let k = c["key"].as_str().unwrap_or("").to_string(); let mut o = serde_json::Map::new(); o.insert(k.clone(), c["value"].clone()); cm.insert(k, Box::new(J::Object(o))); /* a claim serialises as the one-entry map {key: value} */ }
                    if !cm.is_empty() { p.extend_check_claims(cm); }
                    let mut vm: ValidatorMap = HashMap::new();
                    for v in me.get("validators").and_then(|x| x.as_array()).cloned().unwrap_or_default() { vm.insert(v["key"].as_str().unwrap_or("").to_string(), Box::new(validator_for(v["kind"].as_str().unwrap_or("accept")))); }
                    if !vm.is_empty() { p.extend_validation_claims(vm); }
                }
                if let Some(ms) = $st["sleep_ms_before"][ti.to_string().as_str()].as_u64() { std::thread::sleep(std::time::Duration::from_millis(ms)); }
                CALLS.with(|c| c.borrow_mut().clear());
                let r = guarded(|| p.parse(t, if alt_for.contains(&ti) { &key2 } else { &key }).map(|v| v.to_string()).map_err(|e| format!("{:?}", e)));
                let calls: Vec<J> = CALLS.with(|c| c.borrow().iter().map(|(k, v)| json!([k, v])).collect());
                outs.push(json!({"parse": r.kind(), "value": match &r { Outcome::Ok(s) | Outcome::Err(s) | Outcome::Panic(s) => s.clone() }, "validator_calls": calls}));
            }
        }
        outs
    }};
    (@ia yes, $p:ident, $a:expr) => { if let Some(a) = $a { $p.set_implicit_assertion(ImplicitAssertion::from(leak(a))); } };
    (@ia no, $p:ident, $a:expr) => { let _ = $a; };
}

fn parser_run(proto: &str, pk: &[u8], alt: &[u8], st: &J, toks: &[String]) -> Vec<J> {
    match proto {
        "v1.local" => parse_impl!(V1, Local, symk::<V1>(pk), symk::<V1>(alt), no, st, toks),
        "v2.local" => parse_impl!(V2, Local, symk::<V2>(pk), symk::<V2>(alt), no, st, toks),
        "v3.local" => parse_impl!(V3, Local, symk::<V3>(pk), symk::<V3>(alt), yes, st, toks),
        "v4.local" => parse_impl!(V4, Local, symk::<V4>(pk), symk::<V4>(alt), yes, st, toks),
        "v1.public" => parse_impl!(V1, Public, PasetoAsymmetricPublicKey::<V1, Public>::from(pk), PasetoAsymmetricPublicKey::<V1, Public>::from(alt), no, st, toks),
        "v2.public" => { let k = Key::<32>::from(arr::<32>(pk)); let k2 = Key::<32>::from(arr::<32>(alt)); parse_impl!(V2, Public, PasetoAsymmetricPublicKey::<V2, Public>::from(&k), PasetoAsymmetricPublicKey::<V2, Public>::from(&k2), no, st, toks) }
        "v3.public" => { let k = Key::<49>::from(arr::<49>(pk)); let k2 = Key::<49>::from(arr::<49>(if alt.len() == 49 { alt } else { pk }));
            match (PasetoAsymmetricPublicKey::<V3, Public>::try_from(&k), PasetoAsymmetricPublicKey::<V3, Public>::try_from(&k2)) { (Ok(a), Ok(b)) => parse_impl!(V3, Public, a, b, yes, st, toks), _ => vec![json!({"key_error": "v3 public key rejected"})] } }
        _ => { let k = Key::<32>::from(arr::<32>(pk)); let k2 = Key::<32>::from(arr::<32>(alt)); parse_impl!(V4, Public, PasetoAsymmetricPublicKey::<V4, Public>::from(&k), PasetoAsymmetricPublicKey::<V4, Public>::from(&k2), yes, st, toks) }
    }
}

pub fn step(env: &mut Env, op: &str, st: &J, out: &str) -> Option<J> {
    match op {
        "builder_seqs" => {
            // many call sequences in one go; every build outcome is reported, with the payload read back through the core
            let proto = st["proto"].as_str().unwrap_or("v4.local");
            let layer = st["layer"].as_str().unwrap_or("prelude");
            let (sk, pk) = keys_for(proto, &crate::hexv(&st["seed"]), None);
            let footer = st["parse_footer"].as_str();
            let mut all = vec![];
            for seq in st["seqs"].as_array().cloned().unwrap_or_default() {
                let ops = seq.as_array().cloned().unwrap_or_default();
                let mut outs = match proto {
                    "v1.local" => seq_v1l(layer, &sk, &ops),
                    "v2.local" => seq_v2l(layer, &sk, &ops),
                    "v3.local" => seq_v3l(layer, &sk, &ops),
                    "v4.local" => seq_v4l(layer, &sk, &ops),
                    _ => seq_public(proto, layer, &sk, &ops),
                };
                // read the payload of every produced token back, with the footer / assertion that were set at the time of that build
                let mut f: Option<String> = footer.map(|s| s.to_string());
                let mut a: Option<String> = None;
                let mut settings: Vec<(Option<String>, Option<String>)> = vec![];
                for o in &ops {
                    if o[0] == "footer" { f = o[1].as_str().map(|s| s.to_string()); }
                    if o[0] == "assertion" { a = o[1].as_str().map(|s| s.to_string()); }
                    if o[0] == "build" { settings.push((f.clone(), a.clone())); }
                }
                let mut bi = 0;
                for b in outs.iter_mut() {
                    if b.get("build").is_none() { continue; }
                    let (bf, ba) = settings.get(bi).cloned().unwrap_or((None, None)); bi += 1;
                    if b["build"] == "ok" {
                        let tok = b["value"].as_str().unwrap_or("").to_string();
                        let r = parse_core(proto, &tok, &pk, bf.as_deref(), ba.as_deref());
                        b["payload"] = json!(r.text());
                    }
                }
                all.push(json!({"seq": seq, "outs": outs}));
            }
            env.strs.insert(out.to_string(), serde_json::to_string(&all).unwrap());
            Some(json!({"builder_seqs": out, "results": all}))
        }
        "claim_ctors" => {
            // constructors of custom / time claims on a list of candidate strings
            let mut res = vec![];
            for c in st["cases"].as_array().cloned().unwrap_or_default() {
                let kind = c["kind"].as_str().unwrap_or("custom");
                let form = c["form"].as_str().unwrap_or("str");
                let text = c["text"].as_str().unwrap_or("").to_string();
                let r = guarded(|| {
                    fn show<E: std::fmt::Debug>(r: Result<(String, String), E>) -> Result<String, String> { r.map(|(k, v)| format!("{}={}", k, v)).map_err(|e| format!("{:?}", e)) }
                    match (kind, form) {
                        ("custom", "key_only") => show(CustomClaim::<&str>::try_from(text.as_str()).map(|c| (c.get_key().to_string(), String::new()))),
                        ("custom", "tuple_str") => show(CustomClaim::<u8>::try_from((text.as_str(), 7u8)).map(|c| (c.get_key().to_string(), String::new()))),
                        ("custom", _) => show(CustomClaim::<u8>::try_from((text.clone(), 7u8)).map(|c| (c.get_key().to_string(), String::new()))),
                        ("exp", "str") => show(ExpirationClaim::try_from(text.as_str()).map(|c| c.as_ref().clone())),
                        ("exp", _) => show(ExpirationClaim::try_from(text.clone()).map(|c| c.as_ref().clone())),
                        ("nbf", "str") => show(NotBeforeClaim::try_from(text.as_str()).map(|c| c.as_ref().clone())),
                        ("nbf", _) => show(NotBeforeClaim::try_from(text.clone()).map(|c| c.as_ref().clone())),
                        ("iat", "str") => show(IssuedAtClaim::try_from(text.as_str()).map(|c| c.as_ref().clone())),
                        (_, _) => show(IssuedAtClaim::try_from(text.clone()).map(|c| c.as_ref().clone())),
                    }
                });
                res.push(json!({"kind": kind, "form": form, "text": text, "result": r.kind(), "value": match &r { Outcome::Ok(s) | Outcome::Err(s) | Outcome::Panic(s) => s.clone() }}));
            }
            Some(json!({"claim_ctors": out, "results": res}))
        }
        "parser_run" => {
            let proto = st["proto"].as_str().unwrap_or("v4.local");
            let pk = env.bytes_of(&st["key"]);
            let toks: Vec<String> = st["tokens"].as_array().cloned().unwrap_or_default().iter().map(|t| env.str_of(t).unwrap_or_default()).collect();
            let alt = env.bytes_of(&st["alt_key"]);
            let outs = parser_run(proto, &pk, if alt.is_empty() { &pk } else { &alt }, st, &toks);
            Some(json!({"parser_run": out, "results": outs}))
        }
        _ => None,
    }
}
