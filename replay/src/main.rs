//! verif-replay: runs a small JSON script against the real rusty_paseto build (real crypto) and reports whether the
//! violation described by the script is observed.  Input: one JSON object on stdin.  Output: one JSON line on stdout.
use rusty_paseto::core::*;
use serde_json::{json, Value as J};
use std::collections::HashMap;
use std::panic::{catch_unwind, AssertUnwindSafe};

mod upper;
mod spec;

#[derive(Clone, Debug)]
pub enum Outcome {
    Ok(String),
    Err(String),
    Panic(String),
}
impl Outcome {
    pub fn kind(&self) -> &'static str {
        match self {
            Outcome::Ok(_) => "ok",
            Outcome::Err(_) => "err",
            Outcome::Panic(_) => "panic",
        }
    }
    pub fn text(&self) -> String {
        match self {
            Outcome::Ok(s) => format!("Ok({})", s),
            Outcome::Err(s) => format!("Err({})", s),
            Outcome::Panic(s) => format!("PANIC({})", s),
        }
    }
}

pub fn guarded<F: FnOnce() -> Result<String, String>>(f: F) -> Outcome {
    match catch_unwind(AssertUnwindSafe(f)) {
        Ok(Ok(s)) => Outcome::Ok(s),
        Ok(Err(e)) => Outcome::Err(e),
        Err(p) => {
            let msg = if let Some(s) = p.downcast_ref::<&str>() {
                s.to_string()
            } else if let Some(s) = p.downcast_ref::<String>() {
                s.clone()
            } else {
                "panic".to_string()
            };
            Outcome::Panic(msg)
        }
    }
}

pub struct Env {
    pub strs: HashMap<String, String>,
    pub bytes: HashMap<String, Vec<u8>>,
    pub outs: HashMap<String, Outcome>,
}

pub fn hexv(j: &J) -> Vec<u8> {
    hex::decode(j.as_str().unwrap_or("")).unwrap_or_default()
}
impl Env {
    pub fn bytes_of(&self, j: &J) -> Vec<u8> {
        if let Some(s) = j.as_str() {
            if let Some(name) = s.strip_prefix('$') {
                return self.bytes.get(name).cloned().unwrap_or_default();
            }
            return hex::decode(s).unwrap_or_default();
        }
        vec![]
    }
    pub fn str_of(&self, j: &J) -> Option<String> {
        if j.is_null() {
            return None;
        }
        let s = j.as_str()?;
        if let Some(name) = s.strip_prefix('$') {
            if let Some(v) = self.strs.get(name) {
                return Some(v.clone());
            }
            if let Some(Outcome::Ok(v)) = self.outs.get(name) {
                return Some(v.clone());
            }
            return Some(String::new());
        }
        Some(s.to_string())
    }
}

const RSA_SK: &[u8] = include_bytes!("../keys/v1_public_test_vectors_private_key.pk8");
const RSA_PK: &[u8] = include_bytes!("../keys/v1_public_test_vectors_public_key.der");
// further RSA-2048 pairs (openssl genpkey, PKCS#8 / PKCS#1 public): b and c have the PKCS#8 length of the vector key (1217), d another (1218)
const RSA_POOL: [(&[u8], &[u8]); 4] = [
    (RSA_SK, RSA_PK),
    (include_bytes!("../keys/rsa_b.pk8"), include_bytes!("../keys/rsa_b.der")),
    (include_bytes!("../keys/rsa_c.pk8"), include_bytes!("../keys/rsa_c.der")),
    (include_bytes!("../keys/rsa_d.pk8"), include_bytes!("../keys/rsa_d.der")),
];
pub static RSA_INDEX: std::sync::atomic::AtomicUsize = std::sync::atomic::AtomicUsize::new(0);

pub fn keys_for(proto: &str, seed: &[u8], want_tag: Option<u8>) -> (Vec<u8>, Vec<u8>) {
    match proto {
        "v2.public" | "v4.public" => {
            let mut s = [7u8; 32];
            for (i, b) in seed.iter().take(32).enumerate() {
                s[i] = *b;
            }
            let sk = ed25519_dalek::SigningKey::from_bytes(&s);
            (sk.to_keypair_bytes().to_vec(), sk.verifying_key().to_bytes().to_vec())
        }
        "v3.public" => {
            use p384::elliptic_curve::sec1::ToEncodedPoint;
            let mut s = [0u8; 48];
            for (i, b) in seed.iter().take(48).enumerate() {
                s[i] = *b;
            }
            s[0] &= 0x7f; // stay below the group order
            if s.iter().all(|b| *b == 0) {
                s[47] = 1;
            }
            loop {
                if let Ok(sk) = p384::ecdsa::SigningKey::from_bytes((&s[..]).into()) {
                    let pk = p384::ecdsa::VerifyingKey::from(&sk).to_encoded_point(true);
                    let pkb = pk.as_bytes().to_vec();
                    if want_tag.map(|t| pkb[0] == t).unwrap_or(true) {
                        return (s.to_vec(), pkb);
                    }
                }
                // next candidate
                let mut i = 47;
                loop {
                    s[i] = s[i].wrapping_add(1);
                    if s[i] != 0 || i == 1 {
                        break;
                    }
                    i -= 1;
                }
            }
        }
        "v1.public" => {
            // RSA keys cannot be derived from a seed here: the caller names one of the fixture pairs (`index`, default 0)
            let (sk, pk) = RSA_POOL[RSA_INDEX.load(std::sync::atomic::Ordering::SeqCst) % RSA_POOL.len()];
            (sk.to_vec(), pk.to_vec())
        }
        _ => {
            let mut k = vec![0u8; 32];
            for (i, b) in seed.iter().take(32).enumerate() {
                k[i] = *b;
            }
            (k.clone(), k)
        }
    }
}

pub fn arr<const N: usize>(v: &[u8]) -> [u8; N] {
    let mut a = [0u8; N];
    for (i, b) in v.iter().take(N).enumerate() {
        a[i] = *b;
    }
    a
}

macro_rules! local_build {
    ($V:ty, $key:expr, $nonce:expr, $msg:expr, $footer:expr, $assertion:expr, $ia:tt) => {{
        let key = PasetoSymmetricKey::<$V, Local>::from(Key::<32>::from(arr::<32>($key)));
        let nk = Key::<32>::from(arr::<32>($nonce));
        let nonce = PasetoNonce::<$V, Local>::from(&nk);
        let mut b = Paseto::<$V, Local>::builder();
        b.set_payload(Payload::from($msg));
        if let Some(f) = $footer {
            b.set_footer(Footer::from(f));
        }
        local_build!(@ia $ia, b, $assertion);
        b.try_encrypt(&key, &nonce).map_err(|e| format!("{:?}", e))
    }};
    (@ia yes, $b:ident, $assertion:expr) => {
        if let Some(a) = $assertion {
            $b.set_implicit_assertion(ImplicitAssertion::from(a));
        }
    };
    (@ia no, $b:ident, $assertion:expr) => {};
}

macro_rules! public_build {
    ($V:ty, $sk:expr, $msg:expr, $footer:expr, $assertion:expr, $ia:tt) => {{
        let mut b = Paseto::<$V, Public>::builder();
        b.set_payload(Payload::from($msg));
        if let Some(f) = $footer {
            b.set_footer(Footer::from(f));
        }
        local_build!(@ia $ia, b, $assertion);
        b.try_sign($sk).map_err(|e| format!("{:?}", e))
    }};
}

pub fn build_core(proto: &str, key: &[u8], nonce: &[u8], msg: &str, footer: Option<&str>, assertion: Option<&str>) -> Outcome {
    guarded(|| match proto {
        "v1.local" => local_build!(V1, key, nonce, msg, footer, assertion, no),
        "v2.local" => {
            let key = PasetoSymmetricKey::<V2, Local>::from(Key::<32>::from(arr::<32>(key)));
            let mut b = Paseto::<V2, Local>::builder();
            b.set_payload(Payload::from(msg));
            if let Some(f) = footer {
                b.set_footer(Footer::from(f));
            }
            if nonce.len() == 24 {
                let nk = Key::<24>::from(arr::<24>(nonce));
                b.try_encrypt(&key, &PasetoNonce::<V2, Local>::from(&nk)).map_err(|e| format!("{:?}", e))
            } else {
                let nk = Key::<32>::from(arr::<32>(nonce));
                b.try_encrypt(&key, &PasetoNonce::<V2, Local>::from(&nk)).map_err(|e| format!("{:?}", e))
            }
        }
        "v3.local" => local_build!(V3, key, nonce, msg, footer, assertion, yes),
        "v4.local" => local_build!(V4, key, nonce, msg, footer, assertion, yes),
        "v1.public" => {
            let sk = PasetoAsymmetricPrivateKey::<V1, Public>::from(key);
            public_build!(V1, &sk, msg, footer, assertion, no)
        }
        "v2.public" => {
            let k = Key::<64>::from(arr::<64>(key));
            let sk = PasetoAsymmetricPrivateKey::<V2, Public>::from(&k);
            public_build!(V2, &sk, msg, footer, assertion, no)
        }
        "v3.public" => {
            let k = Key::<48>::from(arr::<48>(key));
            let sk = PasetoAsymmetricPrivateKey::<V3, Public>::from(&k);
            public_build!(V3, &sk, msg, footer, assertion, yes)
        }
        "v4.public" => {
            let k = Key::<64>::from(arr::<64>(key));
            let sk = PasetoAsymmetricPrivateKey::<V4, Public>::from(&k);
            public_build!(V4, &sk, msg, footer, assertion, yes)
        }
        _ => Err("unknown protocol".into()),
    })
}

/// several tokens from ONE Paseto builder object
pub fn build_core_many(proto: &str, key: &[u8], nonce: &[u8], msg: &str, footer: Option<&str>, assertion: Option<&str>, times: usize) -> Vec<Outcome> {
    macro_rules! many_local {
        ($V:ty, $ia:tt) => {{
            let k = PasetoSymmetricKey::<$V, Local>::from(Key::<32>::from(arr::<32>(key)));
            let nk = Key::<32>::from(arr::<32>(nonce));
            let n = PasetoNonce::<$V, Local>::from(&nk);
            let mut b = Paseto::<$V, Local>::builder();
            b.set_payload(Payload::from(msg));
            if let Some(f) = footer { b.set_footer(Footer::from(f)); }
            local_build!(@ia $ia, b, assertion);
            (0..times).map(|i| guarded(|| if i % 2 == 1 { Clone::clone(&b).try_encrypt(&k, &n).map_err(|e| format!("{:?}", e)) } else { b.try_encrypt(&k, &n).map_err(|e| format!("{:?}", e)) })).collect()
        }};
    }
    macro_rules! many_public {
        ($V:ty, $sk:expr, $ia:tt) => {{
            let sk = $sk;
            let mut b = Paseto::<$V, Public>::builder();
            b.set_payload(Payload::from(msg));
            if let Some(f) = footer { b.set_footer(Footer::from(f)); }
            local_build!(@ia $ia, b, assertion);
            (0..times).map(|i| guarded(|| if i % 2 == 1 { Clone::clone(&b).try_sign(&sk).map_err(|e| format!("{:?}", e)) } else { b.try_sign(&sk).map_err(|e| format!("{:?}", e)) })).collect()
        }};
    }
    match proto {
        "v1.local" => many_local!(V1, no),
        "v3.local" => many_local!(V3, yes),
        "v4.local" => many_local!(V4, yes),
        "v2.local" => {
            let k = PasetoSymmetricKey::<V2, Local>::from(Key::<32>::from(arr::<32>(key)));
            let nk = Key::<32>::from(arr::<32>(nonce));
            let n = PasetoNonce::<V2, Local>::from(&nk);
            let mut b = Paseto::<V2, Local>::builder();
            b.set_payload(Payload::from(msg));
            if let Some(f) = footer { b.set_footer(Footer::from(f)); }
            (0..times).map(|i| guarded(|| if i % 2 == 1 { Clone::clone(&b).try_encrypt(&k, &n).map_err(|e| format!("{:?}", e)) } else { b.try_encrypt(&k, &n).map_err(|e| format!("{:?}", e)) })).collect()
        }
        "v1.public" => many_public!(V1, PasetoAsymmetricPrivateKey::<V1, Public>::from(key), no),
        "v2.public" => { let k = Key::<64>::from(arr::<64>(key)); many_public!(V2, PasetoAsymmetricPrivateKey::<V2, Public>::from(&k), no) }
        "v3.public" => { let k = Key::<48>::from(arr::<48>(key)); many_public!(V3, PasetoAsymmetricPrivateKey::<V3, Public>::from(&k), yes) }
        _ => { let k = Key::<64>::from(arr::<64>(key)); many_public!(V4, PasetoAsymmetricPrivateKey::<V4, Public>::from(&k), yes) }
    }
}

pub fn parse_core(proto: &str, token: &str, key: &[u8], footer: Option<&str>, assertion: Option<&str>) -> Outcome {
    let f = footer.map(Footer::from);
    let a = assertion.map(ImplicitAssertion::from);
    guarded(|| match proto {
        "v1.local" => {
            let key = PasetoSymmetricKey::<V1, Local>::from(Key::<32>::from(arr::<32>(key)));
            Paseto::<V1, Local>::try_decrypt(token, &key, f).map_err(|e| format!("{:?}", e))
        }
        "v2.local" => {
            let key = PasetoSymmetricKey::<V2, Local>::from(Key::<32>::from(arr::<32>(key)));
            Paseto::<V2, Local>::try_decrypt(token, &key, f).map_err(|e| format!("{:?}", e))
        }
        "v3.local" => {
            let key = PasetoSymmetricKey::<V3, Local>::from(Key::<32>::from(arr::<32>(key)));
            Paseto::<V3, Local>::try_decrypt(token, &key, f, a).map_err(|e| format!("{:?}", e))
        }
        "v4.local" => {
            let key = PasetoSymmetricKey::<V4, Local>::from(Key::<32>::from(arr::<32>(key)));
            Paseto::<V4, Local>::try_decrypt(token, &key, f, a).map_err(|e| format!("{:?}", e))
        }
        "v1.public" => {
            let pk = PasetoAsymmetricPublicKey::<V1, Public>::from(key);
            Paseto::<V1, Public>::try_verify(token, &pk, f).map_err(|e| format!("{:?}", e))
        }
        "v2.public" => {
            let k = Key::<32>::from(arr::<32>(key));
            let pk = PasetoAsymmetricPublicKey::<V2, Public>::from(&k);
            Paseto::<V2, Public>::try_verify(token, &pk, f).map_err(|e| format!("{:?}", e))
        }
        "v3.public" => {
            let k = Key::<49>::from(arr::<49>(key));
            let pk = PasetoAsymmetricPublicKey::<V3, Public>::try_from(&k).map_err(|e| format!("key constructor: {:?}", e))?;
            Paseto::<V3, Public>::try_verify(token, &pk, f, a).map_err(|e| format!("{:?}", e))
        }
        "v4.public" => {
            let k = Key::<32>::from(arr::<32>(key));
            let pk = PasetoAsymmetricPublicKey::<V4, Public>::from(&k);
            Paseto::<V4, Public>::try_verify(token, &pk, f, a).map_err(|e| format!("{:?}", e))
        }
        _ => Err("unknown protocol".into()),
    })
}

pub fn b64e(b: &[u8]) -> String {
    use base64::prelude::*;
    BASE64_URL_SAFE_NO_PAD.encode(b)
}
pub fn b64d(s: &str) -> Option<Vec<u8>> {
    use base64::prelude::*;
    BASE64_URL_SAFE_NO_PAD.decode(s).ok()
}

/// token-level mutations; the payload of the real authentic token is decoded, edited, re-encoded
fn mutate(token: &str, ops: &[J], env: &Env) -> String {
    let mut parts: Vec<String> = token.split('.').map(|s| s.to_string()).collect();
    for op in ops {
        let o = op.as_object().unwrap();
        if let Some(v) = o.get("whole") {
            return env.str_of(v).unwrap_or_default();
        }
        if let Some(v) = o.get("set_header") {
            let h = v.as_str().unwrap_or("");
            let hp: Vec<&str> = h.trim_end_matches('.').split('.').collect();
            if parts.len() >= 2 && hp.len() == 2 {
                parts[0] = hp[0].into();
                parts[1] = hp[1].into();
            }
        }
        if parts.len() >= 3 {
            let mut p = b64d(&parts[2]).unwrap_or_default();
            if let Some(v) = o.get("payload_set") {
                p = env.bytes_of(v);
            }
            if let Some(v) = o.get("payload_xor") {
                let i = v[0].as_u64().unwrap_or(0) as usize;
                if i < p.len() {
                    p[i] ^= v[1].as_u64().unwrap_or(1) as u8;
                }
            }
            if let Some(v) = o.get("payload_truncate") {
                p.truncate(v.as_u64().unwrap_or(0) as usize);
            }
            if let Some(v) = o.get("payload_append") {
                p.extend(env.bytes_of(v));
            }
            if let Some(v) = o.get("payload_like_model") {
                // the solver's payload P' relates to its authentic P byte-wise; transplant that relation onto the real payload
                let pa = hexv(&v["authentic"]);
                let pm = hexv(&v["attack"]);
                let real = p.clone();
                let mut out = Vec::with_capacity(pm.len());
                for (i, b) in pm.iter().enumerate() {
                    if i < pa.len() && i < real.len() && pa[i] == *b {
                        out.push(real[i]);
                    } else if i < pa.len() && i < real.len() {
                        out.push(real[i] ^ (pa[i] ^ *b));
                    } else {
                        out.push(*b);
                    }
                }
                // suffix alignment: when lengths differ and the tails agree in the model, keep the real tail
                if pm.len() != pa.len() {
                    let k = pm.iter().rev().zip(pa.iter().rev()).take_while(|(x, y)| x == y).count();
                    for j in 0..k.min(real.len()).min(out.len()) {
                        let ol = out.len();
                        out[ol - 1 - j] = real[real.len() - 1 - j];
                    }
                }
                p = out;
            }
            if o.contains_key("payload_set") || o.contains_key("payload_xor") || o.contains_key("payload_truncate") || o.contains_key("payload_append") || o.contains_key("payload_like_model") {
                parts[2] = b64e(&p);
            }
            if let Some(v) = o.get("payload_text") {
                parts[2] = v.as_str().unwrap_or("").into();
            }
        }
        if let Some(v) = o.get("footer_seg") {
            parts.truncate(3);
            if !v.is_null() {
                parts.push(env.str_of(v).unwrap_or_default());
            }
        }
        if let Some(v) = o.get("footer_seg_b64_of") {
            parts.truncate(3);
            parts.push(b64e(env.str_of(v).unwrap_or_default().as_bytes()));
        }
        if let Some(v) = o.get("prepend_text") {
            let s = v.as_str().unwrap_or("").to_string() + &parts.join(".");
            parts = s.split('.').map(|s| s.to_string()).collect();
        }
        if let Some(v) = o.get("append_text") {
            let s = parts.join(".") + v.as_str().unwrap_or("");
            parts = s.split('.').map(|s| s.to_string()).collect();
        }
    }
    parts.join(".")
}

fn cond(env: &Env, c: &J) -> bool {
    let var = c["var"].as_str().unwrap_or("");
    let o = match env.outs.get(var) {
        Some(o) => o.clone(),
        None => return false,
    };
    let is = c["is"].as_str().unwrap_or("");
    match is {
        "ok" | "err" | "panic" => o.kind() == is,
        "not_ok" => o.kind() != "ok",
        "ok_eq" => matches!(&o, Outcome::Ok(s) if Some(s.clone()) == env.str_of(&c["value"])),
        "ok_ne" => matches!(&o, Outcome::Ok(s) if Some(s.clone()) != env.str_of(&c["value"])),
        "not_ok_eq" => !matches!(&o, Outcome::Ok(s) if Some(s.clone()) == env.str_of(&c["value"])),
        "err_contains" => matches!(&o, Outcome::Err(s) if s.contains(c["value"].as_str().unwrap_or("\u{0}"))),
        "err_not_contains" => matches!(&o, Outcome::Err(s) if !s.contains(c["value"].as_str().unwrap_or("\u{0}"))),
        "ne_var" => {
            let other = env.outs.get(c["value"].as_str().unwrap_or("")).map(|x| x.text());
            Some(o.text()) != other
        }
        "eq_var" => {
            let other = env.outs.get(c["value"].as_str().unwrap_or("")).map(|x| x.text());
            Some(o.text()) == other
        }
        _ => false,
    }
}

fn main() {
    std::panic::set_hook(Box::new(|_| {}));
    let mut input = String::new();
    std::io::Read::read_to_string(&mut std::io::stdin(), &mut input).unwrap();
    let script: J = serde_json::from_str(&input).expect("json");
    let mut env = Env { strs: HashMap::new(), bytes: HashMap::new(), outs: HashMap::new() };
    let mut trace = vec![];
    for st in script["steps"].as_array().cloned().unwrap_or_default() {
        let op = st["op"].as_str().unwrap_or("");
        let out = st["out"].as_str().unwrap_or("_").to_string();
        match op {
            "keys" => {
                RSA_INDEX.store(st["index"].as_u64().unwrap_or(0) as usize, std::sync::atomic::Ordering::SeqCst);
                let (sk, pk) = keys_for(st["proto"].as_str().unwrap_or(""), &hexv(&st["seed"]), st["want_tag"].as_u64().map(|t| t as u8));
                RSA_INDEX.store(0, std::sync::atomic::Ordering::SeqCst);
                env.bytes.insert(format!("{}_sk", out), sk);
                env.bytes.insert(format!("{}_pk", out), pk.clone());
                trace.push(json!({"keys": out, "pk": hex::encode(pk)}));
            }
            "bytes" => {
                env.bytes.insert(out, hexv(&st["hex"]));
            }
            "key_ctor" => {
                // the key wrappers are built through their public constructors from the given bytes; the result is what the wrapper hands back through AsRef<[u8]>
                let b = env.bytes_of(&st["bytes"]);
                let proto = st["proto"].as_str().unwrap_or("").to_string();
                let role = st["role"].as_str().unwrap_or("").to_string();
                let o = guarded(|| -> Result<String, String> {
                    let h = |x: &[u8]| Ok(hex::encode(x));
                    match (proto.as_str(), role.as_str()) {
                        ("v1.public", "public") => h(PasetoAsymmetricPublicKey::<V1, Public>::from(&b[..]).as_ref()),
                        ("v1.public", "private") => h(PasetoAsymmetricPrivateKey::<V1, Public>::from(&b[..]).as_ref()),
                        ("v2.public", "public") => { let k = Key::<32>::from(arr::<32>(&b)); h(PasetoAsymmetricPublicKey::<V2, Public>::from(&k).as_ref()) }
                        ("v4.public", "public") => { let k = Key::<32>::from(arr::<32>(&b)); h(PasetoAsymmetricPublicKey::<V4, Public>::from(&k).as_ref()) }
                        ("v2.public", "private") => { let k = Key::<64>::from(arr::<64>(&b)); h(PasetoAsymmetricPrivateKey::<V2, Public>::from(&k).as_ref()) }
                        ("v4.public", "private") => { let k = Key::<64>::from(arr::<64>(&b)); h(PasetoAsymmetricPrivateKey::<V4, Public>::from(&k).as_ref()) }
                        ("v3.public", "private") => { let k = Key::<48>::from(arr::<48>(&b)); h(PasetoAsymmetricPrivateKey::<V3, Public>::from(&k).as_ref()) }
                        ("v3.public", "public") => { let k = Key::<49>::from(arr::<49>(&b)); PasetoAsymmetricPublicKey::<V3, Public>::try_from(&k).map(|x| hex::encode(x.as_ref())).map_err(|e| format!("{:?}", e)) }
                        ("v1.local", _) => h(PasetoSymmetricKey::<V1, Local>::from(Key::<32>::from(arr::<32>(&b))).as_ref()),
                        ("v2.local", _) => h(PasetoSymmetricKey::<V2, Local>::from(Key::<32>::from(arr::<32>(&b))).as_ref()),
                        ("v3.local", _) => h(PasetoSymmetricKey::<V3, Local>::from(Key::<32>::from(arr::<32>(&b))).as_ref()),
                        ("v4.local", _) => h(PasetoSymmetricKey::<V4, Local>::from(Key::<32>::from(arr::<32>(&b))).as_ref()),
                        _ => Err("unknown key constructor".into()),
                    }
                });
                trace.push(json!({"key_ctor": out, "proto": proto, "role": role, "input": hex::encode(&b), "result": o.text()}));
                env.outs.insert(out, o);
            }
            "bytes_xor" => {
                // a neighbour of a byte string: one byte XOR-ed with a mask (negative index counts from the end)
                let mut b = env.bytes_of(&st["in"]);
                let idx = st["index"].as_i64().unwrap_or(0);
                let i = if idx < 0 { b.len() as i64 + idx } else { idx };
                if i >= 0 && (i as usize) < b.len() {
                    b[i as usize] ^= st["mask"].as_u64().unwrap_or(1) as u8;
                }
                env.bytes.insert(out, b);
            }
            "build_core" => {
                let key = env.bytes_of(&st["key"]);
                let nonce = env.bytes_of(&st["nonce"]);
                let msg = env.str_of(&st["message"]).unwrap_or_default();
                let f = env.str_of(&st["footer"]);
                let a = env.str_of(&st["assertion"]);
                let times = st["times"].as_u64().unwrap_or(1);
                if times > 1 {
                    // the same core builder object is used for several tokens (C01/C02: every one of them must round-trip)
                    let outs = build_core_many(st["proto"].as_str().unwrap_or(""), &key, &nonce, &msg, f.as_deref(), a.as_deref(), times as usize);
                    for (i, o) in outs.into_iter().enumerate() {
                        trace.push(json!({"build_core": format!("{}_{}", out, i), "result": o.text()}));
                        env.outs.insert(format!("{}_{}", out, i), o);
                    }
                } else {
                let o = build_core(st["proto"].as_str().unwrap_or(""), &key, &nonce, &msg, f.as_deref(), a.as_deref());
                trace.push(json!({"build_core": out, "result": o.text()}));
                env.outs.insert(out, o);
                }
            }
            "parse_core" => {
                let key = env.bytes_of(&st["key"]);
                let tok = env.str_of(&st["token"]).unwrap_or_default();
                let f = env.str_of(&st["footer"]);
                let a = env.str_of(&st["assertion"]);
                let o = parse_core(st["proto"].as_str().unwrap_or(""), &tok, &key, f.as_deref(), a.as_deref());
                trace.push(json!({"parse_core": out, "token": tok, "result": o.text()}));
                env.outs.insert(out, o);
            }
            "mutate" => {
                let tok = env.str_of(&st["in"]).unwrap_or_default();
                let m = mutate(&tok, st["ops"].as_array().map(|v| v.as_slice()).unwrap_or(&[]), &env);
                trace.push(json!({"mutate": out, "token": m}));
                env.strs.insert(out, m);
            }
            "spec_selftest" => {
                let o = guarded(|| spec::selftest().map(|n| format!("{} vectors", n)));
                trace.push(json!({"spec_selftest": o.text()}));
                env.outs.insert(out, o);
            }
            "spec_build" => {
                let proto = st["proto"].as_str().unwrap_or("");
                let key = env.bytes_of(&st["key"]);
                let nonce = env.bytes_of(&st["nonce"]);
                let msg = env.str_of(&st["message"]).unwrap_or_default();
                let f = env.str_of(&st["footer"]).unwrap_or_default();
                let a = env.str_of(&st["assertion"]).unwrap_or_default();
                let o = guarded(|| {
                    if proto.ends_with("local") {
                        spec::local_encrypt(proto, &key, &nonce, msg.as_bytes(), f.as_bytes(), a.as_bytes())
                    } else {
                        spec::public_sign(proto, &key, msg.as_bytes(), f.as_bytes(), a.as_bytes())
                    }
                });
                trace.push(json!({"spec_build": out, "result": o.text()}));
                env.outs.insert(out, o);
            }
            "spec_verify" => {
                let proto = st["proto"].as_str().unwrap_or("");
                let key = env.bytes_of(&st["key"]);
                let tok = env.str_of(&st["token"]).unwrap_or_default();
                let f = env.str_of(&st["footer"]).unwrap_or_default();
                let a = env.str_of(&st["assertion"]).unwrap_or_default();
                let o = guarded(|| spec::public_verify(proto, &tok, &key, f.as_bytes(), a.as_bytes()));
                trace.push(json!({"spec_verify": out, "result": o.text()}));
                env.outs.insert(out, o);
            }
            "differs" => {
                // Ok when token b is a non-tolerated alteration of token a (not equal, not just an added/removed empty footer
                // segment, and - for public tokens - not merely a different signature encoding over the same message)
                let a = env.str_of(&st["a"]).unwrap_or_default();
                let b = env.str_of(&st["b"]).unwrap_or_default();
                let sl = st["sig_len"].as_u64().unwrap_or(0) as usize;
                let norm = |t: &str| t.strip_suffix('.').map(|x| x.to_string()).unwrap_or(t.to_string());
                let mut tolerated = a == b || norm(&a) == norm(&b);
                if !tolerated && sl > 0 {
                    let pa: Vec<&str> = a.split('.').collect();
                    let pb: Vec<&str> = b.split('.').collect();
                    let (na, nb) = (norm(&a), norm(&b));
                    let qa: Vec<&str> = na.split('.').collect();
                    let qb: Vec<&str> = nb.split('.').collect();
                    let _ = (pa, pb);
                    if qa.len() == qb.len() && qa.len() >= 3 && qa.iter().zip(qb.iter()).enumerate().all(|(i, (x, y))| i == 2 || x == y) {
                        if let (Some(x), Some(y)) = (b64d(qa[2]), b64d(qb[2])) {
                            if x.len() == y.len() && x.len() >= sl && x[..x.len() - sl] == y[..y.len() - sl] {
                                tolerated = true;
                            }
                        }
                    }
                }
                let o = if tolerated { Outcome::Err("tolerated".into()) } else { Outcome::Ok("altered".into()) };
                trace.push(json!({"differs": out, "result": o.text()}));
                env.outs.insert(out, o);
            }
            "key_hex" => {
                let n = st["size"].as_u64().unwrap_or(32);
                let s = st["hex"].as_str().unwrap_or("").to_string();
                let o = guarded(|| {
                    macro_rules! k {
                        ($N:expr) => {
                            Key::<$N>::try_from(s.as_str()).map(|_| "key".to_string()).map_err(|e| format!("{:?}", e))
                        };
                    }
                    match n {
                        24 => k!(24),
                        32 => k!(32),
                        48 => k!(48),
                        49 => k!(49),
                        64 => k!(64),
                        _ => k!(32),
                    }
                });
                trace.push(json!({"key_hex": out, "result": o.text()}));
                env.outs.insert(out, o);
            }
            "v3_public_key_ctor" => {
                let k = Key::<49>::from(arr::<49>(&env.bytes_of(&st["key"])));
                let o = guarded(|| PasetoAsymmetricPublicKey::<V3, Public>::try_from(&k).map(|_| "key".to_string()).map_err(|e| format!("{:?}", e)));
                trace.push(json!({"v3_public_key_ctor": out, "result": o.text()}));
                env.outs.insert(out, o);
            }
            _ => {
                if let Some(t) = upper::step(&mut env, op, &st, &out) {
                    trace.push(t);
                } else {
                    println!("{}", json!({"error": format!("unknown op {}", op)}));
                    return;
                }
            }
        }
    }
    // violated_if: list of alternatives, each a list of conditions that must all hold
    let mut violated = false;
    for alt in script["violated_if"].as_array().cloned().unwrap_or_default() {
        let all = alt.as_array().map(|cs| cs.iter().all(|c| cond(&env, c))).unwrap_or(false);
        if all {
            violated = true;
        }
    }
    println!("{}", json!({"violated": violated, "trace": trace}));
}
