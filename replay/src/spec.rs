//! Independent transcription of the PASETO specification (Version1-4.md, Common.md) used only to replay
//! counterexamples of C08 natively.  It deliberately shares no code with rusty_paseto: PAE, key splits, nonce
//! derivation and layout are written from the specification text on top of the RustCrypto / ring primitives.
use base64::prelude::*;
use hmac::{Hmac, Mac};
use sha2::Sha384;

type HmacSha384 = Hmac<Sha384>;

pub fn le64(n: u64) -> [u8; 8] {
    // "LE64: encode as little-endian 64-bit unsigned integer, with the most significant bit cleared"
    (n & 0x7fff_ffff_ffff_ffff).to_le_bytes()
}

pub fn pae(pieces: &[&[u8]]) -> Vec<u8> {
    let mut out = le64(pieces.len() as u64).to_vec();
    for p in pieces {
        out.extend_from_slice(&le64(p.len() as u64));
        out.extend_from_slice(p);
    }
    out
}

fn hmac384(key: &[u8], data: &[u8]) -> Vec<u8> {
    let mut m = HmacSha384::new_from_slice(key).unwrap();
    m.update(data);
    m.finalize().into_bytes().to_vec()
}

fn hkdf384(salt: &[u8], ikm: &[u8], info: &[u8], len: usize) -> Vec<u8> {
    // RFC 5869
    let salt0 = [0u8; 48];
    let prk = hmac384(if salt.is_empty() { &salt0 } else { salt }, ikm);
    let mut okm = vec![];
    let mut t: Vec<u8> = vec![];
    let mut i = 1u8;
    while okm.len() < len {
        let mut d = t.clone();
        d.extend_from_slice(info);
        d.push(i);
        t = hmac384(&prk, &d);
        okm.extend_from_slice(&t);
        i += 1;
    }
    okm.truncate(len);
    okm
}

fn blake2b(outlen: usize, key: &[u8], data: &[u8]) -> Vec<u8> {
    use blake2::digest::consts::{U24, U32, U56};
    use blake2::digest::{FixedOutput, KeyInit, Update};
    macro_rules! go {
        ($n:ty) => {{
            let mut h = <blake2::Blake2bMac<$n> as KeyInit>::new_from_slice(key).unwrap();
            Update::update(&mut h, data);
            h.finalize_fixed().to_vec()
        }};
    }
    match outlen {
        24 => go!(U24),
        32 => go!(U32),
        _ => go!(U56),
    }
}

fn aes256ctr(key: &[u8], iv: &[u8], data: &[u8]) -> Vec<u8> {
    use aes::cipher::{generic_array::GenericArray, NewCipher, StreamCipher};
    let mut c = aes::Aes256Ctr::new(GenericArray::from_slice(key), GenericArray::from_slice(iv));
    let mut out = data.to_vec();
    c.apply_keystream(&mut out);
    out
}

fn xchacha20(key: &[u8], nonce: &[u8], data: &[u8]) -> Vec<u8> {
    use chacha20::cipher::{KeyIvInit, StreamCipher};
    let mut c = chacha20::XChaCha20::new(key.into(), nonce.into());
    let mut out = data.to_vec();
    c.apply_keystream(&mut out);
    out
}

fn token(header: &str, payload: &[u8], footer: &[u8]) -> String {
    let mut t = format!("{}{}", header, BASE64_URL_SAFE_NO_PAD.encode(payload));
    if !footer.is_empty() {
        t.push('.');
        t.push_str(&BASE64_URL_SAFE_NO_PAD.encode(footer));
    }
    t
}

pub fn local_encrypt(proto: &str, key: &[u8], nonce_seed: &[u8], m: &[u8], f: &[u8], i: &[u8]) -> Result<String, String> {
    let h = format!("{}.", proto);
    let hb = h.as_bytes();
    match proto {
        "v1.local" => {
            let n = hmac384(nonce_seed, m)[..32].to_vec();
            let ek = hkdf384(&n[..16], key, b"paseto-encryption-key", 32);
            let ak = hkdf384(&n[..16], key, b"paseto-auth-key-for-aead", 32);
            let c = aes256ctr(&ek, &n[16..], m);
            let t = hmac384(&ak, &pae(&[hb, &n, &c, f]));
            Ok(token(&h, &[n, c, t].concat(), f))
        }
        "v2.local" => {
            use chacha20poly1305::aead::{Aead, Payload};
            use chacha20poly1305::{KeyInit, XChaCha20Poly1305, XNonce};
            let n = blake2b(24, nonce_seed, m);
            let aad = pae(&[hb, &n, f]);
            let aead = XChaCha20Poly1305::new_from_slice(key).map_err(|e| e.to_string())?;
            let c = aead.encrypt(XNonce::from_slice(&n), Payload { msg: m, aad: &aad }).map_err(|e| e.to_string())?;
            Ok(token(&h, &[n, c].concat(), f))
        }
        "v3.local" => {
            let n = nonce_seed.to_vec();
            let tmp = hkdf384(&[], key, &[b"paseto-encryption-key".as_ref(), &n].concat(), 48);
            let ak = hkdf384(&[], key, &[b"paseto-auth-key-for-aead".as_ref(), &n].concat(), 48);
            let c = aes256ctr(&tmp[..32], &tmp[32..], m);
            let t = hmac384(&ak, &pae(&[hb, &n, &c, f, i]));
            Ok(token(&h, &[n, c, t].concat(), f))
        }
        "v4.local" => {
            let n = nonce_seed.to_vec();
            let tmp = blake2b(56, key, &[b"paseto-encryption-key".as_ref(), &n].concat());
            let ak = blake2b(32, key, &[b"paseto-auth-key-for-aead".as_ref(), &n].concat());
            let c = xchacha20(&tmp[..32], &tmp[32..56], m);
            let t = blake2b(32, &ak, &pae(&[hb, &n, &c, f, i]));
            Ok(token(&h, &[n, c, t].concat(), f))
        }
        _ => Err("not a local protocol".into()),
    }
}

fn split_token<'a>(proto: &str, tok: &'a str, f: &[u8]) -> Result<Vec<u8>, String> {
    let h = format!("{}.", proto);
    let rest = tok.strip_prefix(&h).ok_or("header")?;
    let parts: Vec<&str> = rest.split('.').collect();
    if parts.len() > 2 {
        return Err("segments".into());
    }
    let tf = if parts.len() == 2 { BASE64_URL_SAFE_NO_PAD.decode(parts[1]).map_err(|e| e.to_string())? } else { vec![] };
    if tf != f {
        return Err("footer mismatch".into());
    }
    BASE64_URL_SAFE_NO_PAD.decode(parts[0]).map_err(|e| e.to_string())
}

pub fn public_verify(proto: &str, tok: &str, pk: &[u8], f: &[u8], i: &[u8]) -> Result<String, String> {
    let h = format!("{}.", proto);
    let hb = h.as_bytes();
    let p = split_token(proto, tok, f)?;
    let sl = match proto {
        "v1.public" => 256,
        "v3.public" => 96,
        _ => 64,
    };
    if p.len() < sl {
        return Err("short".into());
    }
    let (m, sig) = p.split_at(p.len() - sl);
    match proto {
        "v1.public" => {
            let m2 = pae(&[hb, m, f]);
            ring::signature::UnparsedPublicKey::new(&ring::signature::RSA_PSS_2048_8192_SHA384, pk).verify(&m2, sig).map_err(|_| "bad signature".to_string())?;
        }
        "v2.public" | "v4.public" => {
            use ed25519_dalek::Verifier;
            let m2 = if proto == "v2.public" { pae(&[hb, m, f]) } else { pae(&[hb, m, f, i]) };
            let vk = ed25519_dalek::VerifyingKey::from_bytes(pk.try_into().map_err(|_| "pk length")?).map_err(|e| e.to_string())?;
            let s = ed25519_dalek::Signature::from_slice(sig).map_err(|e| e.to_string())?;
            vk.verify(&m2, &s).map_err(|_| "bad signature".to_string())?;
        }
        "v3.public" => {
            use p384::ecdsa::signature::Verifier;
            use p384::elliptic_curve::sec1::ToEncodedPoint;
            let pkc = p384::PublicKey::from_sec1_bytes(pk).map_err(|e| e.to_string())?.to_encoded_point(true);
            let m2 = pae(&[pkc.as_bytes(), hb, m, f, i]);
            let vk = p384::ecdsa::VerifyingKey::from_sec1_bytes(pkc.as_bytes()).map_err(|e| e.to_string())?;
            let s = p384::ecdsa::Signature::try_from(sig).map_err(|e| e.to_string())?;
            vk.verify(&m2, &s).map_err(|_| "bad signature".to_string())?; // ECDSA over SHA-384 of m2
        }
        _ => return Err("not a public protocol".into()),
    }
    String::from_utf8(m.to_vec()).map_err(|e| e.to_string())
}

pub fn public_sign(proto: &str, sk: &[u8], m: &[u8], f: &[u8], i: &[u8]) -> Result<String, String> {
    let h = format!("{}.", proto);
    let hb = h.as_bytes();
    match proto {
        "v2.public" | "v4.public" => {
            use ed25519_dalek::Signer;
            let m2 = if proto == "v2.public" { pae(&[hb, m, f]) } else { pae(&[hb, m, f, i]) };
            let seed: [u8; 32] = sk[..32].try_into().map_err(|_| "sk")?;
            let s = ed25519_dalek::SigningKey::from_bytes(&seed).sign(&m2);
            Ok(token(&h, &[m, &s.to_bytes()].concat(), f))
        }
        "v3.public" => {
            use p384::ecdsa::signature::Signer;
            use p384::elliptic_curve::sec1::ToEncodedPoint;
            let k = p384::ecdsa::SigningKey::from_bytes(sk.into()).map_err(|e| e.to_string())?;
            let pkc = p384::ecdsa::VerifyingKey::from(&k).to_encoded_point(true);
            let m2 = pae(&[pkc.as_bytes(), hb, m, f, i]);
            let s: p384::ecdsa::Signature = k.sign(&m2);
            Ok(token(&h, &[m, s.to_bytes().as_slice()].concat(), f))
        }
        "v1.public" => {
            let kp = ring::rsa::KeyPair::from_pkcs8(sk).map_err(|e| e.to_string())?;
            let m2 = pae(&[hb, m, f]);
            let mut sig = vec![0u8; kp.public().modulus_len()];
            kp.sign(&ring::signature::RSA_PSS_SHA384, &ring::rand::SystemRandom::new(), &m2, &mut sig).map_err(|_| "sign")?;
            Ok(token(&h, &[m, &sig].concat(), f))
        }
        _ => Err("not a public protocol".into()),
    }
}

/// pins the transcription to the official test vectors (extracted from /repo/tests into vectors.json): every local vector must be
/// reproduced byte for byte, every public vector must verify, and the deterministic Ed25519 vectors must be reproduced by public_sign
pub fn selftest() -> Result<usize, String> {
    let v: serde_json::Value = serde_json::from_str(include_str!("../vectors.json")).map_err(|e| e.to_string())?;
    let mut n = 0;
    for r in v.as_array().unwrap() {
        let g = |k: &str| r[k].as_str().unwrap_or("").to_string();
        let (proto, name) = (g("proto"), g("name"));
        if proto.ends_with("local") {
            let t = local_encrypt(&proto, &hex::decode(g("key")).unwrap(), &hex::decode(g("nonce")).unwrap(), g("payload").as_bytes(), g("footer").as_bytes(), g("assertion").as_bytes())?;
            if t != g("token") {
                return Err(format!("{}: transcription gives {} but the vector is {}", name, t, g("token")));
            }
        } else {
            if g("pk") == "RSA" {
                continue;
            }
            let m = public_verify(&proto, &g("token"), &hex::decode(g("pk")).unwrap(), g("footer").as_bytes(), g("assertion").as_bytes()).map_err(|e| format!("{}: {}", name, e))?;
            if m != g("payload") {
                return Err(format!("{}: verify returns another message", name));
            }
            if proto != "v3.public" {
                let t = public_sign(&proto, &hex::decode(g("sk")).unwrap(), g("payload").as_bytes(), g("footer").as_bytes(), g("assertion").as_bytes())?;
                if t != g("token") {
                    return Err(format!("{}: deterministic signature differs from the vector", name));
                }
            }
        }
        n += 1;
    }
    Ok(n)
}
