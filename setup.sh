#!/bin/bash
# Run once after a fresh restore (offline).  Builds nothing that depends on /repo's working tree: the checks
# regenerate MIR dumps / rustdoc JSON / the replay binary / Kani overlays themselves on every run.
set -e
cd "$(dirname "$0")"
export CARGO_NET_OFFLINE=true
mkdir -p .cache evidence replays
python3-vt -c "import z3, sys; sys.path.insert(0,'.'); from vf import solve, mirx, coremodel; print('python side ok, z3', z3.get_version_string())"
for s in cvc5 /usr/bin/z3 z3-new; do command -v $s >/dev/null || { echo "missing solver $s"; exit 1; }; done
python3-vt tools/selftest.py
echo "setup ok"
