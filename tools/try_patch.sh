#!/bin/bash
# usage: tools/try_patch.sh <patch.diff> <PROP> [PROP ...]  -- applies the patch in a scratch worktree of /repo (under /tmp), runs the named checks against it via VF_REPO, removes the worktree.
# /repo itself is not touched; evidence of these runs goes to .cache/.  One line per property: "<name> <PROP> exit=<rc> <violations> violations <undecided> undecided".
P="$(readlink -f "$1")"; shift; V="$(cd "$(dirname "$0")/.." && pwd)"; N=$(basename $(dirname $(dirname "$P")))-$(basename $(dirname "$P")); WT=/tmp/tp-$N-$$
git -C /repo worktree add -q --detach $WT HEAD || exit 9; cp /repo/Cargo.lock $WT/ 2>/dev/null
if ! git -C $WT apply "$P"; then echo "$N patch-does-not-apply"; git -C /repo worktree remove --force $WT; exit 9; fi
for ID in "$@"; do
  out=$(cd $V && VF_REPO=$WT ./check $ID 2>&1); rc=$?
  echo "$N $ID exit=$rc $(echo "$out" | grep -c '^VIOLATION') violations $(echo "$out" | grep -c 'UNDECIDED') undecided"
  [ $rc -ne 0 ] && echo "$out" | grep -E "VIOLATION|UNDECIDED|^    " | cut -c1-260 | head -4
done
H=$(echo -n $WT | sha1sum | cut -c1-8)
git -C /repo worktree remove --force $WT >/dev/null 2>&1; rm -rf $WT $V/.cache/evidence-$H $V/.cache/replays-$H $V/.cache/*-src-$H $V/.cache/tgt-*-$H
