#!/usr/bin/env python3
"""Writes /verif/MANIFEST.json from the table below (kept in one place so that it is always schema-valid)."""
import json, os, sys
VERIF = os.path.dirname(os.path.dirname(os.path.abspath(__file__)))

E2 = 'mir2smt'
MC = 'model_checking'
TECH = 'symbolic execution of rustc MIR (-Zunpretty=mir, regenerated from the working tree) into SMT-LIB (Seq/String/Int/UF); verdicts by cvc5 1.0.3 / z3 4.8.12 / z3 5.1.0; a crate function whose body cannot be encoded is over-approximated by "any value of its type, or a panic" (unsat stays sound, sat is a candidate); every counterexample is replayed natively (the model first, then fixed input families) and only a reproduced one is reported'
K3T = '; Kani 0.68 leaf harness K3 for the footer comparison (constant_time_equals == (base64url(footer) == segment), panic-free, on the compiled code)'
NOTE = 'Trusted: the MIR dump is the semantics of the source; contracts of vf/coremodel.py for std/base64/RustCrypto/ring/ed25519-dalek/p384 calls; primitives are ideal functionalities (collision-free MAC/KDF/hash, ideal stream cipher/AEAD/signatures, F_MAC/F_SIG/INT-CTXT unforgeability); strings and byte strings of any length below 2^40.'
CLAIMED = {
    'C01': dict(engine=E2, cat=MC, ref='DESIGN.md 4, 6 (C01)', technique=TECH, note=NOTE,
                text='For each of the four local protocols the real MIR of try_encrypt and try_decrypt (every crate function they reach inlined) is executed on a symbolic key, nonce, message, footer and assertion of unbounded length; every decrypt path on the produced token is shown infeasible unless it returns exactly the message. Decides the wiring (offsets, PAE, key split, token format) for all inputs; the primitives themselves are ideal.'),
    'C02': dict(engine=E2, cat=MC, ref='DESIGN.md 6 (C02)', technique=TECH, note=NOTE,
                text='Same as C01 for try_sign / try_verify of the four public protocols with ideal signature functionalities, plus the V3 public-key constructor (every compressed point with tag 0x02/0x03 is accepted, bytes kept).'),
    'C03': dict(engine=E2, cat=MC, ref='DESIGN.md 6 (C03), 11.2', technique=TECH + K3T, note=NOTE,
                text='Adversary queries per protocol: the authentic token is produced by the real try_encrypt/try_sign MIR; the attacker presents header||b64(P\')[||"."||segment] with P\' ANY byte string and segment any dot-free text; every accepting path of the real try_decrypt/try_verify MIR must force the token to be the authentic one (modulo an empty footer segment / the signature encoding) and return the original message; no path may end in a UTF-8 error; a text-level query shows accepted token strings have exactly that shape (3 or 4 segments).'),
    'C04': dict(engine=E2, cat=MC, ref='DESIGN.md 6 (C04)', technique=TECH, note=NOTE,
                text='The authentic token (from the real MIR) is parsed under a fresh symbolic key K\'; every accepting path must force K\' = K (for all 8 protocols). A key split that drops key bytes makes two keys indistinguishable to the uninterpreted primitives and the query satisfiable.'),
    'C05': dict(engine=E2, cat=MC, ref='DESIGN.md 6 (C05), 11.2', technique=TECH + K3T, note=NOTE,
                text='Build with footer F (Some/None), parse with a fresh F\' (Some/None): acceptance forces F\' == F (absent == empty); the 4th segment of every produced token is b64url(F) and exists iff F is non-empty; arbitrary edits of the footer segment are covered by the C03 tamper queries re-run here; the comparison itself is model-checked on the compiled code (K3); Footer::from / set_footer / builder() / Clone are executed from MIR (the footer the caller writes is the footer that reaches the entry point).'),
    'C06': dict(engine=E2, cat=MC, ref='DESIGN.md 6 (C06)', technique=TECH, note=NOTE,
                text='v3/v4 local/public: build with assertion A, parse with fresh A\' (with the footer symbolic too, so shifted field boundaries are inside the query): acceptance forces A\' == A; the assertion reaches the token term only underneath MAC/signature applications and the payload length / footer segment do not depend on it.'),
    'C07': dict(engine=E2, cat=MC, ref='DESIGN.md 6 (C07)', technique=TECH, note=NOTE,
                text='Verbatim: on the real MIR of each of the 8 entry points with an arbitrary token string, no path gets past the header check when the text starts with another protocol\'s header. Relabelled: the payload produced by X\'s real MIR under header Y is never accepted by Y\'s real MIR under the same key bytes (24 same-purpose ordered pairs quick, all 56 thorough).'),
    'C08': dict(engine=E2, cat=MC, ref='DESIGN.md 6 (C08)', technique=TECH + '; Kani 0.68 leaf harness for le64', note=NOTE + ' The SMT transcription of the specification in vf/props/c08.py; its native twin (replay/src/spec.rs) reproduces 45 official vectors.',
                text='Differential: the token term produced by the real MIR equals the specification token written as an SMT term over the same ideal primitives (collision-free, so equality forces equal arguments at every primitive call), the specification token is decrypted/verified by the real MIR, the footer segment exists iff the footer is non-empty; le64 (summarised in the SMT runs) is checked bit-precisely on the compiled code by Kani for all 2^64 inputs.'),
    'C09': dict(engine=E2, cat=MC, ref='DESIGN.md 6 (C09), 11.2', technique=TECH + K3T + '; K4 (Key hex constructor) in the thorough tier', note=NOTE + ' Panic conditions of std calls as documented (range index, split_at, copy_from_slice, unwrap/expect, str slicing at non-char-boundaries).',
                text='Every panic site (MIR assert terminators for overflow/bounds, panicking std contracts) reachable from the 8 core entry points with an ARBITRARY token string (segments case-split 1,2,3,4,>=5; decoded payload of any length) and from Key::<N>::try_from(&str) is shown unreachable by the solver; thorough repeats with overflow checks off (release semantics).'),
    'C11': dict(engine=E2, cat=MC, ref='DESIGN.md 6 (C11/C12)', technique=TECH, note='Trusted: MIR dump; serde_json::Value as an algebraic datatype; time::OffsetDateTime::parse(&Rfc3339) as an uninterpreted partial function to (instant, offset), now_utc() an arbitrary instant; which strings `time` accepts is outside the claim.',
                text='PasetoParser::default() is executed from its MIR (registering the real exp/nbf closures), then verify_claims runs on a symbolic payload: an accepting path forces exp to be absent/null or an RFC 3339 string whose instant is after the clock reading; a rejection inside the exp validator is justified by the value; the validator receives payload["exp"]. Any JSON value (numbers, arrays, objects, booleans, empty string) is inside the query.'),
    'C12': dict(engine=E2, cat=MC, ref='DESIGN.md 6 (C11/C12)', technique=TECH, note='As C11.',
                text='As C11 for the nbf validator with the comparison reversed.'),
    'C13': dict(engine=E2, cat=MC, ref='DESIGN.md 6 (C13)', technique=TECH, note='Trusted: MIR dump; HashMap/HashSet as SMT arrays; claim = (key, JSON) with Serialize emitting {key: value}; time as in C11; core entry points summarised (C01-C09).',
                text='Inductive over the PasetoBuilder state: default() (real MIR) yields exactly exp=now+1h, iat=nbf=now from one clock reading; set_claim keeps exp and stores the value; build() for each of the 8 protocols hands the core a payload that carries exp iff no-expiration was not acknowledged, and leaves claims/footer/assertion untouched (so a second build sees the same state).'),
    'C15': dict(engine=E2, cat=MC, ref='DESIGN.md 6 (C15)', technique=TECH, note='Trusted: MIR dump; JSON datatype with Index = Null for missing; maps as arrays with enumerated keys (0-2 expected claims, 0-2 validators quick); core summarised.',
                text='GenericParser::verify_claims from MIR on a symbolic parser (expected claims with symbolic distinct keys/values, validators) and symbolic payload: Ok iff every expected claim without validator is present (non-null) and equal; Missing only for an absent expected claim; a payload satisfying everything is accepted; the parser state is unchanged by a parse (history independence); all 8 GenericParser::parse and 8 PasetoParser::parse bodies hand token/key/footer/assertion to the matching core entry point.'),
    'C16': dict(engine=E2, cat=MC, ref='DESIGN.md 6 (C16)', technique=TECH, note='As C15; user validators are uninterpreted predicates with a call log.',
                text='On every accepting path each registered validator ran exactly once with (its key, payload[key]) and returned Ok; a validator error fails the parse; when the core rejects, no validator is called and the error is CipherError - for verify_claims and all 16 parse bodies.'),
    'C17': dict(engine=E2, cat=MC, ref='DESIGN.md 6 (C17)', technique=TECH, note='Trusted: MIR dump; HashSet/HashMap as arrays; representation invariant with ghost supply counts (vf/props/c17.py).',
                text='Inductive step from ANY PasetoBuilder state satisfying the invariant (duplicate flag <=> some key supplied twice, modulo the exp-after-acknowledgement latitude): set_claim and the acknowledgement preserve it; build() of all 8 protocols returns DuplicateTopLevelPayloadClaim(flagged key) iff the flag is set, without reaching the core, and leaves flag/key set unchanged (every later build fails too).'),
    'C10': dict(engine=E2, cat=MC, ref='DESIGN.md 6 (C10)', technique=TECH, note='Trusted: SystemRandom::fill returns fresh unpredictable bytes per call (the statistical clause of the property - per-bit frequencies over 10^5 builds - is a property of the OS RNG and is NOT claimed); truncated HMAC / BLAKE2b-24 collision free; core summarised for builder runs.',
                text='For all 4 local protocols and both builder layers (8 bodies): on every successful build exactly one RNG draw happens and the nonce handed to the core is that draw in full; build() changes no builder field (nothing can be cached for the next build); at core level equal wire nonces imply equal seeds (and messages for v1/v2). Histories of any length follow from the per-build statement.'),
    'C14': dict(engine=E2, cat=MC, ref='DESIGN.md 6 (C14)', technique=TECH, note='Trusted: MIR dump; serde_json from_str(to_string(v)) = v; maps as arrays; user claim types serialise as {key: value}; the crate\'s own claim types are executed (get_key + Serialize from MIR).',
                text='Frame conditions of GenericBuilder::set_claim / remove_claim on an arbitrary claims map (claims[k]=v, last wins, others untouched), build_payload_from_claims yields exactly the stored members, wrap_value(v)=v by an inductive step over the JSON structure, the seven typed claim constructors land under their registered keys, and for all 8 protocols parse(build(claims)) returns an object whose members are the stored claims.'),
    'C18': dict(engine=E2, cat=MC, ref='DESIGN.md 6 (C18)', technique=TECH + '; Kani 0.68 leaf harness over all UTF-8 keys of <= 4 bytes', note='Trusted: MIR dump; SMT strings; iso8601::datetime uninterpreted (its acceptance set is the iso8601 crate\'s contract).',
                text='The three CustomClaim::try_from bodies on an arbitrary string key: Err(Reserved) iff the key is exactly one of the seven registered names, key stored verbatim; the six time-claim constructors accept exactly when iso8601::datetime accepts the caller\'s own text and keep it verbatim under exp/nbf/iat; Kani repeats the reserved-key question bit-precisely on the compiled code for every key of 3-4 bytes.'),
    'C19': dict(engine='typelevel', cat='other', ref='DESIGN.md 5.1', technique='SMT over finite sorts (Version x Purpose x key size) built from rustdoc JSON of the working tree (impl headers, bounds, method signatures); z3 + cvc5; every sat answer is instantiated as a program and compiled with rustc; positive controls compiled',
                note='Trusted: rustdoc JSON describes the impls the compiler uses; auto-deref / coercions / foreign blanket impls not modelled; rustc is the judge of every proposed program and of the 41 matching (X == Y) control calls.',
                text='A compile-time property has nothing to execute: the real impl headers, trait bounds and signatures become constraints and one query per entry-point family asks for ANY instantiation in which a key of another version/purpose is accepted, an operation exists on the wrong purpose, set_implicit_assertion exists for V1/V2, a symmetric key with purpose Public or an asymmetric key from a Key<N> of the wrong size is constructible. unsat = no program of the enumerated shapes type-checks, for every instantiation at once; the matching programs must compile (checked with rustc).'),
    'C20': dict(engine='featuresat+mir2smt', cat='other', ref='DESIGN.md 5.2', technique='propositional SAT over the Cargo feature graph and the cfg presence conditions of src/** (z3), confirmed with cargo check; plus symbolic execution of the MIR re-dumped under each single-protocol feature set (round-trip obligations of C01/C02)',
                note='Trusted: textual reading of Cargo.toml and cfg attributes; cargo check as judge. NOT claimed: that rustc accepts each of the 765 documented configurations (only the failure mechanisms named in the anchors are decided for all configurations; thorough adds a cargo-check sweep of singletons x layers, all pairs and the full set as confirmation).',
                text='(A) For all 2^8 x 2^3 documented selections at once: every reference to an optional crate is under a presence condition that implies that crate\'s feature, and no two #[from] variants of one error enum with the same source type are enabled together (the E0119 mechanism). (B) For each of the 8 single-protocol configurations the MIR is dumped under exactly that feature set and the round trip of that protocol is discharged on it (cfg-gated code such as header tables is therefore inside the check).'),
}

REASON_NOT_YET = 'check under construction in this round - not claimed until its command exists'


def main():
    props = [json.loads(l)['id'] for l in open(os.path.join(VERIF, 'properties.jsonl'))]
    checks = []
    for pid in props:
        if pid not in CLAIMED: continue
        c = CLAIMED[pid]
        checks.append({
            'property_id': pid, 'quick_cmd': './check %s --tier quick' % pid, 'thorough_cmd': './check %s --tier thorough' % pid,
            'evidence_file': 'evidence/%s.json' % pid, 'replay_cmd_template': './check %s --replay {path}' % pid, 'engine': c['engine'],
            'level_claimed': {'category': c['cat'], 'text': c['text'], 'design_ref': c['ref']}, 'level_note': c['note'], 'technique': c['technique']})
    na = [{'property_id': p, 'reason': NA.get(p, REASON_NOT_YET)} for p in props if p not in CLAIMED]
    m = {
        'version': 1,
        'setup_cmd': './setup.sh',
        'hooks': {'guard': 'none (no source hooks: the checks read rustc MIR / rustdoc JSON of the unmodified tree; Kani leaf harnesses are added to a scratch copy under cfg(kani))',
                  'enable': 'not applicable - /repo is never built with a hook', 'baseline_off_cmd': 'cd /repo && cargo test --workspace --no-fail-fast --offline',
                  'source_commits': [], 'add_only': True},
        'engines': [
            {'name': 'mir2smt', 'path': 'vf/', 'serves_properties': [p for p in props if 'mir2smt' in CLAIMED.get(p, {}).get('engine', '')],
             'kind_free_text': 'symbolic executor for rustc MIR text -> SMT-LIB (Seq/String/Int/UF/datatypes), decided by cvc5 1.0.3, z3 4.8.12, z3 5.1.0; native replay through replay/ (verif-replay)'},
            {'name': 'kani-leaf', 'path': 'vf/kani.py', 'serves_properties': ['C03', 'C05', 'C08', 'C09', 'C18'], 'kind_free_text': 'Kani 0.68 / CBMC 6.11 harnesses on a scratch overlay of the working tree (K1 le64, K2 PAE, K3 footer comparison, K4 key hex constructor, K5 CustomClaim constructors); a SUCCESSFUL verdict is re-used for a tree with the same content hash'},
            {'name': 'typelevel', 'path': 'vf/props/c19.py', 'serves_properties': ['C19'], 'kind_free_text': 'rustdoc JSON impl headers -> SMT over finite sorts; rustc judges proposed programs'},
            {'name': 'featuresat', 'path': 'vf/props/c20.py', 'serves_properties': ['C20'], 'kind_free_text': 'Cargo feature graph + cfg presence conditions -> SAT; cargo check judges proposed configurations'},
        ],
        'checks': checks,
        'notes': 'Exit codes of ./check: 0 held, 1 VIOLATION (natively reproduced), 2 undecided (unsupported construct, solver unknown, non-reproducing counterexample). Fix commits in /repo are listed in known_findings.txt as fixed: lines.',
        'not_applicable': na,
    }
    json.dump(m, open(os.path.join(VERIF, 'MANIFEST.json'), 'w'), indent=1)
    print('MANIFEST.json written: %d checks, %d not_applicable' % (len(checks), len(na)))


NA = {}
if __name__ == '__main__':
    main()
