#!/usr/bin/env python3
"""Writes /verif/MANIFEST.json from the table below (kept in one place so that it is always schema-valid)."""
import json, os, sys
VERIF = os.path.dirname(os.path.dirname(os.path.abspath(__file__)))

E2 = 'mir2smt'
MC = 'model_checking'
CLAIMED = {
    'C01': dict(engine=E2, cat=MC, ref='DESIGN.md 4, 6 (C01)', technique='symbolic execution of rustc MIR into SMT (sequences/strings/UF), portfolio cvc5+z3, bounded only by the stated length bound',
                text='For each of the four local protocols the real MIR of try_encrypt and try_decrypt (with every crate function they reach inlined) is executed symbolically on a symbolic key, nonce, message, footer and assertion of unbounded length; every path of decrypt on the produced token is shown by the solver to be infeasible unless it returns exactly the message. Primitives are ideal functionalities, so this decides the wiring (offsets, PAE, key split, token format), which is what the property is about.',
                note='Trusted: MIR dump = source semantics; the contracts of vf/coremodel.py for std/base64/RustCrypto/ring; ideal stream cipher/AEAD/MAC/KDF; lengths < 2^40.'),
}

REASON_NOT_YET = 'check under construction in this round - not claimed until its command exists'


def main():
    props = [json.loads(l)['id'] for l in open(os.path.join(VERIF, 'properties.jsonl'))]
    checks = []
    for pid in props:
        if pid not in CLAIMED: continue
        c = CLAIMED[pid]
        checks.append({
            'property_id': pid, 'quick_cmd': './check %s --tier quick' % pid, 'thorough_cmd': './check %s --tier thorough' % pid,
            'evidence_file': 'evidence/%s.json' % pid, 'replay_cmd_template': './check %s --replay {path}' % pid, 'engine': c['engine'],
            'level_claimed': {'category': c['cat'], 'text': c['text'], 'design_ref': c['ref']}, 'level_note': c['note'], 'technique': c['technique']})
    na = [{'property_id': p, 'reason': NA.get(p, REASON_NOT_YET)} for p in props if p not in CLAIMED]
    m = {
        'version': 1,
        'setup_cmd': './setup.sh',
        'hooks': {'guard': 'none (no source hooks: the checks read rustc MIR / rustdoc JSON of the unmodified tree; Kani leaf harnesses are added to a scratch copy under cfg(kani))',
                  'enable': 'not applicable - /repo is never built with a hook', 'baseline_off_cmd': 'cd /repo && cargo test --workspace --no-fail-fast --offline',
                  'source_commits': [], 'add_only': True},
        'engines': [
            {'name': 'mir2smt', 'path': 'vf/', 'serves_properties': [p for p in props if CLAIMED.get(p, {}).get('engine') == E2],
             'kind_free_text': 'symbolic executor for rustc MIR text -> SMT-LIB (Seq/String/Int/UF), decided by cvc5 1.0.3, z3 4.8.12, z3 5.1.0'},
        ],
        'checks': checks,
        'notes': 'Exit codes of ./check: 0 held, 1 VIOLATION (natively reproduced), 2 undecided (unsupported construct, solver unknown, non-reproducing counterexample). Fix commits in /repo are listed in known_findings.txt as fixed: lines.',
        'not_applicable': na,
    }
    json.dump(m, open(os.path.join(VERIF, 'MANIFEST.json'), 'w'), indent=1)
    print('MANIFEST.json written: %d checks, %d not_applicable' % (len(checks), len(na)))


NA = {}
if __name__ == '__main__':
    main()
