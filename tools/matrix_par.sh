#!/bin/bash
# runs every seeded change against the check of the property it targets, N at a time, each in its own scratch worktree of /repo under /tmp
# (VF_REPO points the check at it; /repo itself is not touched).  usage: tools/matrix_par.sh [-j N] [seed dir ...]   -> one line per seed on stdout
cd "$(dirname "$0")/.."; V=$PWD
J=3; [ "$1" = "-j" ] && { J=$2; shift 2; }
DIRS="$@"; [ -z "$DIRS" ] && DIRS=$(ls -d seeded/*/ | grep -v _incoming)
one() {
  d=${1%/}; V=$2; [ -f $V/$d/patch.diff ] || exit 0
  P=$(python3 -c "import json; print(json.load(open('$V/$d/meta.json'))['property'])" 2>/dev/null); [ -z "$P" ] && exit 0
  n=$(basename $d); WT=/tmp/mx-$n
  git -C /repo worktree remove --force $WT >/dev/null 2>&1; rm -rf $WT
  git -C /repo worktree add -q --detach $WT HEAD || { echo "$n $P exit=9 worktree"; exit 0; }
  cp /repo/Cargo.lock $WT/ 2>/dev/null
  if git -C $WT apply $V/$d/patch.diff 2>/dev/null; then
    out=$(cd $V && VF_REPO=$WT ./check $P 2>&1); rc=$?
    echo "$n $P exit=$rc $(echo "$out" | grep -c '^VIOLATION') violations $(echo "$out" | grep -c 'UNDECIDED') undecided"
  else echo "$n $P exit=9 patch-does-not-apply"; fi
  git -C /repo worktree remove --force $WT >/dev/null 2>&1; rm -rf $WT; rm -rf $V/.cache/evidence-$(echo -n $WT | sha1sum | cut -c1-8) $V/.cache/replays-$(echo -n $WT | sha1sum | cut -c1-8) $V/.cache/*-src-$(echo -n $WT | sha1sum | cut -c1-8) $V/.cache/tgt-*-$(echo -n $WT | sha1sum | cut -c1-8)
}
export -f one
echo $DIRS | tr ' ' '\n' | xargs -P $J -I{} bash -c "one {} $V"
git -C /repo worktree prune
