#!/bin/bash
# runs every seeded change against the check of the property it targets; one line per seed.  usage: tools/matrix.sh [dir ...]
cd "$(dirname "$0")/.."
DIRS="$@"; [ -z "$DIRS" ] && DIRS=$(ls -d seeded/*/ | grep -v _incoming)
for d in $DIRS; do
  d=${d%/}; [ -f $d/patch.diff ] || continue
  P=$(python3 -c "import json; print(json.load(open('$d/meta.json'))['property'])" 2>/dev/null)
  [ -z "$P" ] && continue
  out=$(tools/try_seed.sh $PWD/$d/patch.diff $P 2>&1); rc=$(echo "$out" | grep -o "exit=[0-9]*" | tail -1)
  echo "$(basename $d) $P $rc $(echo "$out" | grep -c '^VIOLATION') violations"
done
