#!/bin/bash
# usage: tools/verify_seed.sh <seed dir with patch.diff + demo*.rs [+ meta.json]>  -> prints a JSON line with what was observed
# Works in a scratch worktree of /repo (outside /repo and /verif), removed afterwards.
D="$(cd "$1" && pwd)"; NAME=$(basename "$D"); WT=/tmp/vseed-$NAME
ALLF=v1_local,v2_local,v3_local,v4_local,v1_public,v2_public,v3_public,v4_public,batteries_included
cd /repo && git worktree add -q --detach $WT HEAD 2>/dev/null || { git worktree remove --force $WT; git worktree add -q --detach $WT HEAD; }
cp /repo/Cargo.lock $WT/; cp -al /repo/target $WT/target 2>/dev/null
cd $WT
DEMOS=$(ls $D/demo_*.rs 2>/dev/null); FEAT=$(python3 -c "import json,sys; print(json.load(open('$D/meta.json')).get('features','') if __import__('os').path.exists('$D/meta.json') else '')" 2>/dev/null)
run_demo() { # returns 0 if all demo tests pass
  local ok=0
  for f in $DEMOS; do n=$(basename $f .rs); cp $f tests/$n.rs; done
  find src tests -name '*.rs' -exec touch {} +
  for f in $DEMOS; do n=$(basename $f .rs)
    if echo "$FEAT" | grep -q "v1_\|v2_\|v3_\|all"; then cargo test --offline --no-default-features --features $ALLF --test $n >/tmp/vseed-$NAME.$n.log 2>&1 || ok=1
    else cargo test --offline --test $n >/tmp/vseed-$NAME.$n.log 2>&1 || ok=1; fi
  done
  for f in $DEMOS; do rm -f tests/$(basename $f); done
  return $ok
}
APPLY=ok; git apply $D/patch.diff 2>/dev/null || APPLY=fail
if [ $APPLY = ok ]; then
  find src -name '*.rs' -exec touch {} +
  cargo check --offline --no-default-features --features $ALLF >/tmp/vseed-$NAME.check.log 2>&1 && COMP_ALL=ok || COMP_ALL=fail
  cargo test --workspace --no-fail-fast --offline >/tmp/vseed-$NAME.suite.log 2>&1 && SUITE=pass || SUITE=fail
  if [ -n "$DEMOS" ]; then run_demo && DEMO_WITH=pass || DEMO_WITH=fail; else DEMO_WITH=none; fi
  git checkout -q -- . ; git clean -fdq tests src
  if [ -n "$DEMOS" ]; then run_demo && DEMO_WITHOUT=pass || DEMO_WITHOUT=fail; else DEMO_WITHOUT=none; fi
else COMP_ALL=na; SUITE=na; DEMO_WITH=na; DEMO_WITHOUT=na; fi
cd /repo && git worktree remove --force $WT; rm -rf $WT
echo "{\"seed\": \"$NAME\", \"applies\": \"$APPLY\", \"compiles_all_features\": \"$COMP_ALL\", \"existing_suite\": \"$SUITE\", \"demo_with_patch\": \"$DEMO_WITH\", \"demo_without_patch\": \"$DEMO_WITHOUT\"}"
