#!/bin/bash
# runs every check (tier $1, default quick) on the current tree and prints one line per property
TIER="${1:-quick}"; cd "$(dirname "$0")/.."
R="${VF_REPO:-/repo}"; git -C "$R" diff --quiet || echo "WARNING: $R working tree is dirty"
for i in $(seq -w 1 20); do
  s=$(date +%s); out=$(./check C$i --tier $TIER 2>&1); rc=$?; e=$(date +%s)
  echo "C$i rc=$rc $((e-s))s  $(echo "$out" | grep "^C$i $TIER" | tail -1)"
  [ $rc -ne 0 ] && echo "$out" | grep "UNDECIDED\|VIOLATION" | head -5
done
