#!/bin/bash
# runs every check (tier $1, default quick) on the current tree and prints one line per property
TIER="${1:-quick}"; cd "$(dirname "$0")/.."
R="${VF_REPO:-/repo}"; git -C "$R" diff --quiet || echo "WARNING: $R working tree is dirty"
FAIL=0
for i in $(seq -w 1 20); do
  s=$(date +%s); out=$(./check C$i --tier $TIER 2>&1); rc=$?; e=$(date +%s)
  echo "C$i rc=$rc $((e-s))s  $(echo "$out" | grep "^C$i $TIER" | tail -1)"
  if [ $rc -ne 0 ]; then FAIL=1; echo "$out" | grep "UNDECIDED\|VIOLATION" | head -5; fi
done
exit $FAIL
