#!/usr/bin/env python3
"""Extracts the official test vectors from /repo/tests/version{1..4}_test_vectors.rs into replay/vectors.json.
Run by hand when the vector files change; the result is committed (the spec transcription of the replay binary is pinned to it)."""
import re, json, sys
out = []
for v in (1, 2, 3, 4):
    txt = open('/repo/tests/version%d_test_vectors.rs' % v).read()
    for m in re.finditer(r'fn (test_%d_([es])_(\d+))\(\)[^{]*\{(.*?)\n  \}\n|fn (test_%d_([es])_(\d+))\(\)[^{]*\{(.*?)\n    \}\n' % (v, v), txt, re.S):
        name = m.group(1) or m.group(5); kind = m.group(2) or m.group(6); body = m.group(4) or m.group(8)
        body = '\n'.join(l for l in body.split('\n') if not l.strip().startswith('//'))
        tok = re.search(r'"(v%d\.(?:local|public)\.[A-Za-z0-9_\-\.]+)"' % v, body)
        if not tok: continue
        rec = {'name': name, 'token': tok.group(1), 'proto': 'v%d.%s' % (v, 'local' if kind == 'e' else 'public')}
        hexes = re.findall(r'try_from\(\s*"([0-9a-fA-F]{16,})"', body)
        pj = re.search(r'let payload = json!\((\{.*?\})\)\.to_string\(\)', body, re.S) or re.search(r'json!\((\{.*?\})\)', body, re.S)
        if not pj: continue
        obj = json.loads(pj.group(1))
        rec['payload'] = json.dumps(obj, separators=(',', ':'), sort_keys=True, ensure_ascii=False)
        f = re.search(r'Footer::from\("((?:[^"\\]|\\.)*)"\)', body)
        fj = re.search(r'let footer = json!\((\{.*?\})\)', body, re.S)
        rec['footer'] = (bytes(f.group(1), 'utf-8').decode('unicode_escape') if f and 'footer' not in (f.group(1),) else '')
        if fj: rec['footer'] = json.dumps(json.loads(fj.group(1)), separators=(',', ':'), sort_keys=True)
        a = re.search(r'ImplicitAssertion::from\("((?:[^"\\]|\\.)*)"\)', body)
        aj = re.search(r'let (?:implicit_)?assertion = json!\((\{.*?\})\)', body, re.S)
        rec['assertion'] = bytes(a.group(1), 'utf-8').decode('unicode_escape') if a else ''
        if aj: rec['assertion'] = json.dumps(json.loads(aj.group(1)), separators=(',', ':'), sort_keys=True)
        if not re.search(r'set_footer', body): rec['footer'] = ''
        if not re.search(r'set_implicit_assertion', body): rec['assertion'] = ''
        if kind == 'e':
            if len(hexes) < 2: continue
            rec['key'], rec['nonce'] = hexes[0], hexes[1]
        else:
            if v == 1: rec['sk'] = 'RSA'; rec['pk'] = 'RSA'
            else:
                if len(hexes) < 2: continue
                rec['sk'], rec['pk'] = hexes[0], hexes[1]
        out.append(rec)
json.dump(out, open('/verif/replay/vectors.json', 'w'), indent=1, ensure_ascii=False)
print(len(out), 'vectors:', ' '.join(r['name'] for r in out))
