#!/usr/bin/env python3
"""rewrites the detection table of DESIGN.md (between the MATRIX markers) from seeded/MATRIX.txt and the seeds' meta.json"""
import json, os, re, sys
V = os.path.dirname(os.path.dirname(os.path.abspath(__file__)))
rows = []
for l in open(V + '/seeded/MATRIX.txt'):
    m = re.match(r'(\S+) (C\d+) exit=(\d+) (\d+) violations(?: (\d+) undecided)?', l.strip())
    if not m: continue
    name, prop, rc, nv, nu = m.group(1), m.group(2), int(m.group(3)), int(m.group(4)), int(m.group(5) or 0)
    try: meta = json.load(open('%s/seeded/%s/meta.json' % (V, name)))
    except Exception: meta = {}
    what = re.sub(r'\s+', ' ', meta.get('summary', ''))[:150].replace('|', '/')
    rows.append((name, prop, rc, nv, nu, what))
rows.sort()
out = ['| seed | property (check run) | exit | confirmed violations | what the change does |', '|---|---|---|---|---|']
for name, prop, rc, nv, nu, what in rows:
    out.append('| `%s` | %s | %d | %d | %s |' % (name, prop, rc, nv, what))
n1 = sum(1 for r in rows if r[2] == 1); n2 = sum(1 for r in rows if r[2] == 2); n0 = sum(1 for r in rows if r[2] == 0)
summary = '%d seeded changes: %d end in exit 1 with at least one natively confirmed `VIOLATION`, %d in exit 2 (undecided), %d in exit 0 (missed).' % (len(rows), n1, n2, n0)
txt = open(V + '/DESIGN.md').read()
a, b = '<!-- MATRIX:BEGIN -->', '<!-- MATRIX:END -->'
if a in txt:
    txt = txt[:txt.index(a) + len(a)] + '\n' + summary + '\n\n' + '\n'.join(out) + '\n' + txt[txt.index(b):]
    open(V + '/DESIGN.md', 'w').write(txt)
print(summary)
