#!/bin/bash
# usage: tools/try_seed.sh <patch.diff> <PROP> [tier]   -- applies the patch to /repo, runs the check, always undoes the patch
P="$1"; ID="$2"; TIER="${3:-quick}"
cd /repo || exit 9
git diff --quiet || { echo "/repo is dirty"; exit 9; }
git apply "$P" || { echo "patch does not apply"; exit 9; }
cd /verif && ./check "$ID" --tier "$TIER"; RC=$?
git -C /repo checkout -- . ; git -C /repo clean -fdq -- src tests 2>/dev/null
echo "== $P on $ID: exit=$RC"
exit $RC
