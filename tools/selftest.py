#!/usr/bin/env python3-vt
"""Contract / solver self-tests that do not depend on /repo (run by setup.sh)."""
import sys, os, re, glob
sys.path.insert(0, os.path.dirname(os.path.dirname(os.path.abspath(__file__))))
from z3 import *
from vf import solve, coremodel as cm, mirx

def expect(name, assertions, want):
    lem = cm.instantiate(assertions)
    r = solve.check(list(assertions) + lem, timeout=30, name=name)
    ok = r['verdict'] == want
    print('  %-70s %s (%s)' % (name, r['verdict'], r['solver']))
    if not ok: print('SELFTEST FAILED:', name); sys.exit(1)

x, y = Const('x', cm.Bytes), Const('y', cm.Bytes); s, t = String('s'), String('t')
expect('b64 is injective', [cm.b64(x) == cm.b64(y), x != y], 'unsat')
expect('b64 output has no dot', [Contains(cm.b64(x), StringVal('.'))], 'unsat')
expect('b64 axioms are consistent', [cm.b64(x) != cm.b64(y), Length(x) == 3], 'sat')
expect('utf8 is injective', [cm.utf8(s) == cm.utf8(t), s != t], 'unsat')
expect('le64 has length 8 and is injective', [cm.le64(IntVal(3)) == cm.le64(IntVal(4))], 'unsat')
expect('xor with a keystream is an involution', [cm.xor(cm.xor(x, y), y) != x], 'unsat')
expect('PAE without length prefixes would be ambiguous (sanity of the sequence theory)', [Concat(x, y) == Concat(Const('x2', cm.Bytes), Const('y2', cm.Bytes)), x != Const('x2', cm.Bytes)], 'sat')
# extern integer constants used by the executor must match the vendored crate sources
for name, val in mirx.EXTERN_CONSTS.items():
    crate, const = name.split('::')
    hits = []
    for f in glob.glob(os.path.expanduser('~/.cargo/registry/src/*/%s-2*/src/*.rs' % crate.replace('_', '-'))):
        for m in re.finditer(r'pub const %s: usize = ([^;]+);' % const, open(f).read()): hits.append(m.group(1).strip())
    if hits and not any(h == str(val) or (h == 'SECRET_KEY_LENGTH + PUBLIC_KEY_LENGTH' and val == 64) for h in hits):
        print('SELFTEST FAILED: extern constant', name, hits, val); sys.exit(1)
    print('  extern constant %-50s = %d  (vendored source: %s)' % (name, val, hits[:1]))
solve.cleanup()
print('selftest ok')
