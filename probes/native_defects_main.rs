use rusty_paseto::prelude::*;
use std::panic::catch_unwind;
use std::collections::HashMap;

fn main() {
    let key = PasetoSymmetricKey::<V4, Local>::from(Key::<32>::from(*b"wubbalubbadubdubwubbalubbadubdub"));
    let nk = Key::<32>::try_new_random().unwrap();
    let nonce = PasetoNonce::<V4, Local>::from(&nk);
    // D5: exp is an array / number / empty string
    for p in [r#"{"exp":[5]}"#, r#"{"exp":5}"#, r#"{"exp":""}"#, r#"{"exp":"garbage"}"#, r#"{"nbf":true}"#, r#"{"exp":"2000-01-01T00:00:00Z"}"#] {
        let tok = Paseto::<V4, Local>::builder().set_payload(Payload::from(p)).try_encrypt(&key, &nonce).unwrap();
        let r = PasetoParser::<V4, Local>::default().parse(&tok, &key);
        println!("D5 payload {p} -> {}", match r { Ok(_) => "ACCEPTED".to_string(), Err(e) => format!("rejected: {e}") });
    }
    // D6: second build from same builder
    let mut b = PasetoBuilder::<V4, Local>::default();
    let t1 = b.build(&key).unwrap();
    let t2 = b.build(&key).unwrap();
    let j1 = GenericParser::<V4, Local>::default().parse(&t1, &key).unwrap();
    let j2 = GenericParser::<V4, Local>::default().parse(&t2, &key).unwrap();
    println!("D6 first build payload {j1}\nD6 second build payload {j2}");
    // D7: validator registered via extend_validation_claims only
    let mut vm: ValidatorMap = HashMap::new();
    vm.insert("sub".to_string(), Box::new(|k: &str, _v: &serde_json::Value| Err(PasetoClaimError::CustomValidation(k.to_string()))));
    let mut gp = GenericParser::<V4, Local>::default();
    gp.extend_validation_claims(vm);
    println!("D7 rejecting validator via extend_validation_claims -> {}", if gp.parse(&t1, &key).is_ok() { "parse OK (validator never ran)" } else { "parse failed" });
    // D1: short payloads
    for t in ["v4.local.AAAA", "v4.local.", "v4.local.AAAAAAAAAAAAAAAAAAAAAAAAAAAAAAAAAAAAAAAAAAAAAAAAAAAAAA"] {
        let k2 = PasetoSymmetricKey::<V4, Local>::from(Key::<32>::from(*b"wubbalubbadubdubwubbalubbadubdub"));
        let r = catch_unwind(move || Paseto::<V4, Local>::try_decrypt(t, &k2, None, None).is_ok());
        println!("D1 try_decrypt({t:?}) -> {}", match r { Ok(b) => format!("returned ok={b}"), Err(_) => "PANIC".into() });
    }
    let pk = Key::<32>::from([1u8; 32]);
    let r = catch_unwind(move || { let pk = PasetoAsymmetricPublicKey::<V4, Public>::from(&pk); Paseto::<V4, Public>::try_verify("v4.public.AAAA", &pk, None, None).is_ok() });
    println!("D1 try_verify(v4.public.AAAA) -> {}", if r.is_err() { "PANIC" } else { "returned" });
    // D2
    let r = catch_unwind(|| Key::<32>::try_from("00").is_ok());
    println!("D2 Key::<32>::try_from(\"00\") -> {}", if r.is_err() { "PANIC" } else { "returned" });
    // D4: explicit empty footer
    let tok = Paseto::<V4, Local>::builder().set_payload(Payload::from("{}")).set_footer(Footer::from("")).try_encrypt(&key, &nonce).unwrap();
    println!("D4 token with explicit empty footer ends with '.': {}", tok.ends_with('.'));
}
