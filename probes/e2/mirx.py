#!/usr/bin/env python3-vt
"""Feasibility probe (NOT the framework): a small generic symbolic executor for rustc MIR text.

Values are immutable Python objects over z3 terms; the store is a dict cell-id -> value that is
shallow-copied on forks; calls into the crate are inlined from their own MIR, calls leaving the
crate go through CONTRACTS.  Unknown syntax / unknown callees raise Unsupported (never guessed).
"""
import re, sys, itertools
from z3 import *

class Unsupported(Exception):
    pass

import subprocess, tempfile, os, time as _time
SOLVER_TIMES = {}
def portfolio(s, timeout_ms=20000):
    """first definite answer among z3 4.8.12 (CLI), cvc5, z3 5.1 (API)"""
    smt = '(set-logic ALL)\n' + s.to_smt2()
    fd, path = tempfile.mkstemp(suffix='.smt2', dir='/tmp/probe/e2'); os.write(fd, smt.encode()); os.close(fd)
    try:
        for name, cmd in (('cvc5', ['cvc5', '--lang', 'smt2', '--strings-exp', '--tlimit=%d' % min(timeout_ms, 3000), path]),
                          ('z3-4.8.12', ['/usr/bin/z3', '-T:%d' % max(1, timeout_ms // 1000), path])):
            t0 = _time.time()
            try: out = subprocess.run(cmd, capture_output=True, text=True, timeout=timeout_ms / 1000 + 5).stdout.strip().split('\n')[0]
            except subprocess.TimeoutExpired: out = 'unknown'
            SOLVER_TIMES[name] = SOLVER_TIMES.get(name, 0) + _time.time() - t0
            if out in ('sat', 'unsat'): return out
        s.set('timeout', timeout_ms); r = s.check()
        return str(r)
    finally:
        os.unlink(path)

# ----------------------------------------------------------------------------- MIR parsing
def match_paren(s, i, op='(', cl=')'):
    d = 0
    for j in range(i, len(s)):
        if s[j] == op: d += 1
        elif s[j] == cl:
            d -= 1
            if d == 0: return j
    raise Unsupported('unbalanced: ' + s)

def split_top(s, sep=','):
    out, d, cur, q = [], 0, '', False
    i = 0
    while i < len(s):
        ch = s[i]
        if q:
            cur += ch
            if ch == '\\': cur += s[i + 1]; i += 1
            elif ch == '"': q = False
        elif ch == '"': q = True; cur += ch
        elif ch in '([{<' and not (ch == '<' and s[i - 1:i] == '-'): d += 1; cur += ch
        elif ch in ')]}>' and not (ch == '>' and s[i - 1:i] in ('-', '=')): d -= 1; cur += ch
        elif ch == sep and d == 0: out.append(cur.strip()); cur = ''
        else: cur += ch
        i += 1
    if cur.strip(): out.append(cur.strip())
    return out

class Fn:
    def __init__(self, name, sig, body):
        self.name, self.sig = name, sig
        self.blocks, self.ltypes = {}, {}
        for m in re.finditer(r'^\s+let (?:mut )?(_\d+): (.*);$', body, re.M): self.ltypes[m.group(1)] = m.group(2)
        for m in re.finditer(r'^    (bb\d+)(?: \(cleanup\))?: \{\n(.*?)^    \}', body, re.S | re.M):
            self.blocks[m.group(1)] = [l.strip().rstrip(';') for l in m.group(2).strip().split('\n') if l.strip()]
        am = re.match(r'\((.*)\) -> (.*)$', sig, re.S)
        self.params = []
        if am:
            for a in split_top(am.group(1)):
                pm = re.match(r'(_\d+): (.*)', a, re.S)
                if pm: self.params.append(pm.group(1)); self.ltypes[pm.group(1)] = pm.group(2)
        m = re.search(r'<impl at (src/[^:]+):(\d+):', name)
        self.file, self.line = (m.group(1), int(m.group(2))) if m else (None, None)
        self.method = name.split('>::')[-1] if '>::' in name else name.split('::')[-1]
        self.impl = None   # (trait or None, type text)

def load(mir_path, src_root):
    txt = open(mir_path).read()
    fns, consts = [], {}
    for m in re.finditer(r'^fn (.*?)(\(.*?\) -> .*?) \{\n(.*?)^\}', txt, re.S | re.M):
        fns.append(Fn(m.group(1), m.group(2), m.group(3)))
    for m in re.finditer(r'^const ([^\n]*?) = \{\n(.*?)^\}', txt, re.S | re.M):
        name, ty = m.group(1).rsplit(': ', 1)
        f = Fn(name, '() -> ' + ty, m.group(2)); consts[name] = f
    allocs = {}
    for m in re.finditer(r'^(alloc\d+) \(static: \w+, size: \d+, align: \d+\) \{\n\s*╾─*(alloc\d+)<imm>─*╼ ((?:[0-9a-f]{2} ){8})', txt, re.M):
        allocs[m.group(1)] = ('strptr', m.group(2), int.from_bytes(bytes(int(x, 16) for x in m.group(3).split()), 'little'))
    for m in re.finditer(r'^(alloc\d+) \(size: (\d+), align: \d+\) \{\n(.*?)^\}', txt, re.S | re.M):
        bs = []
        for l in m.group(3).split('\n'):
            l = l.split('│')[0]
            l = re.sub(r'^\s*0x[0-9a-f]+\s*│?', '', l)
            bs += [int(x, 16) for x in re.findall(r'\b[0-9a-f]{2}\b', l)]
        allocs[m.group(1)] = bytes(bs[:int(m.group(2))])
    for f in fns:
        if f.file:
            lines = open(src_root + '/' + f.file).read().split('\n')
            hdr = ' '.join(lines[f.line - 1:f.line + 4])
            hm = re.match(r'\s*impl\s*(<[^{]*?>)?\s*(.*?)\s*(?:where|\{)', hdr)
            if not hm: f.impl = ('<derive>', hdr[:40]); continue
            h = hm.group(2)
            if ' for ' in h: tr, ty = h.split(' for ', 1); f.impl = (tr.strip(), ty.strip())
            else: f.impl = (None, h.strip())
    return fns, consts, allocs

# ----------------------------------------------------------------------------- places / operands
def parse_place(s):
    s = s.strip()
    p, rest = _place_prefix(s)
    if rest.strip(): raise Unsupported('place tail: ' + s)
    return p

def _place_prefix(s):
    if s[0] == '_':
        m = re.match(r'_\d+', s); p = ('local', m.group(0)); rest = s[m.end():]
    elif s[0] == '(':
        j = match_paren(s, 0); inner = s[1:j]; rest = s[j + 1:]
        if inner.startswith('*'):
            p = ('deref', parse_place(inner[1:]))
        else:
            q, r = _place_prefix(inner)
            r = r.strip()
            m = re.match(r'as (\w+)$', r)
            if m: p = ('downcast', q, m.group(1))
            else:
                m = re.match(r'\.(\d+): ', r)
                if not m: raise Unsupported('place inner: ' + s)
                p = ('field', q, int(m.group(1)))
    else:
        raise Unsupported('place: ' + s)
    while rest.startswith('['):
        j = match_paren(rest, 0, '[', ']'); idx = rest[1:j]; rest = rest[j + 1:]
        p = ('index', p, idx)
    return p, rest

# ----------------------------------------------------------------------------- values
UNIT = ('tup', ())
def tup(*xs): return ('tup', tuple(xs))
def adt(name, variant, *fields): return ('adt', name, variant, tuple(fields))
def some(x): return adt('Option', 'Some', x)
NONE = adt('Option', 'None')
def ok(x): return adt('Result', 'Ok', x)
def err(x): return adt('Result', 'Err', x)
Bytes = SeqSort(BitVecSort(8))

def zeros(n):
    if n == 0: return Empty(Bytes)
    if n == 1: return Unit(BitVecVal(0, 8))
    return Concat(*[Unit(BitVecVal(0, 8))] * n)

class Panic:
    def __init__(self, msg): self.msg = msg
    def __repr__(self): return 'Panic(%s)' % self.msg

class State:
    def __init__(self):
        self.store, self.pc, self.log, self.stack = {}, [], [], []
        self.next_cell = [0]
    def fork(self):
        s = State(); s.store = dict(self.store); s.pc = list(self.pc); s.log = list(self.log)
        s.stack = [dict(fr, locals=dict(fr['locals'])) for fr in self.stack]; s.next_cell = self.next_cell
        return s
    def new_cell(self, v=None):
        self.next_cell[0] += 1; c = self.next_cell[0]; self.store[c] = v; return c

def get_path(v, path):
    for step in path:
        if v is None: raise Unsupported('read of uninitialised place')
        if step[0] == 'f':
            if v[0] == 'tup': v = v[1][step[1]]
            elif v[0] == 'adt': v = v[3][step[1]]
            elif v[0] == 'closure': v = v[2][step[1]]
            else: raise Unsupported('field of ' + str(v)[:60])
        elif step[0] == 'dc':
            if v[0] != 'adt' or v[2] != step[1]: raise Unsupported('downcast %s of %s' % (step[1], str(v)[:60]))
        elif step[0] == 'slice':
            v = simplify(Extract(v, step[1], step[2]))
    return v

def set_path(v, path, new):
    if not path: return new
    step = path[0]
    if step[0] == 'dc': return set_path(v, path[1:], new)
    if step[0] == 'slice':
        a, n = step[1], step[2]
        inner = set_path(Extract(v, a, n), path[1:], new)
        return simplify(Concat(Extract(v, IntVal(0), a), inner, Extract(v, a + n, Length(v) - a - n)))
    i = step[1]
    if v is None: raise Unsupported('partial write into uninitialised value')
    if v[0] == 'tup':
        xs = list(v[1]); xs[i] = set_path(xs[i], path[1:], new); return ('tup', tuple(xs))
    if v[0] == 'adt':
        xs = list(v[3]); xs[i] = set_path(xs[i], path[1:], new); return ('adt', v[1], v[2], tuple(xs))
    raise Unsupported('field write into ' + str(v)[:60])

# ----------------------------------------------------------------------------- executor
class Exec:
    def __init__(self, fns, consts, allocs, contracts, solver_timeout=20000):
        self.fns, self.consts, self.allocs, self.contracts = fns, consts, allocs, contracts
        self.stats = {'paths': 0, 'inlined': set(), 'contracts': set(), 'feas_checks': 0}
        self.timeout = solver_timeout

    # --- function lookup
    def find(self, callee):
        c = re.sub(r"'\w+,?\s*", '', callee)
        exact = [f for f in self.fns if f.name == c]
        if len(exact) == 1: return exact[0]
        # trait call on a concrete type: <Ty as Trait>::m
        m = re.match(r'<(.*) as ([\w:]+)(<.*>)?>::(\w+)(?:::<.*>)?$', c)
        cands = []
        norm = lambda t: re.sub(r'\b(V[1-4]|Version)\b', 'V', re.sub(r'\b(\d+|KEYSIZE)\b', 'N', re.sub(r"\s|'\w+,?|\w+::", '', t or '')))
        if m:
            ty, tr, trargs, meth = m.group(1), m.group(2).split('::')[-1], m.group(3), m.group(4)
            tyname = re.sub(r'<.*', '', ty).split('::')[-1].lstrip('&')
            targs = re.findall(r'\b(V[1-4]|Local|Public)\b', ty)
            for f in self.fns:
                if f.method == meth and f.impl and f.impl[0] and re.sub(r'<.*', '', f.impl[0]).strip().split('::')[-1] == tr:
                    ity = f.impl[1]; iname = re.sub(r'<.*', '', ity).split('::')[-1]
                    if iname != tyname: continue
                    iargs = re.findall(r'\b(V[1-4]|Local|Public)\b', ity)
                    if iargs and targs and iargs != targs[:len(iargs)]: continue
                    itr = re.search(r'<.*>', f.impl[0])
                    exact = not (trargs and itr and norm(trargs) != norm(itr.group(0)))
                    cands.append((exact, f))
            ex_ = [f for e, f in cands if e]
            cands = ex_ if ex_ else [f for e, f in cands]
            if not cands:
                cands = [f for f in self.fns if not f.impl and f.name.endswith('::' + tr + '::' + meth)]
        else:
            m = re.match(r'(.*)::(\w+)(?:::<.*>)?$', c)
            if not m: return None
            path, meth = m.group(1), m.group(2)
            im = re.search(r'<impl (.*)>$', path)
            ty = im.group(1) if im else path
            tyname = re.sub(r'::<.*|<.*', '', ty).split('::')[-1]
            targs = re.findall(r'\b(V[1-4]|Local|Public)\b', ty)
            for f in self.fns:
                if f.method != meth: continue
                if f.impl and f.impl[0] is None:
                    iname = re.sub(r'<.*', '', f.impl[1]).split('::')[-1]
                    if iname != tyname: continue
                    iargs = re.findall(r'\b(V[1-4]|Local|Public)\b', f.impl[1])
                    if iargs and targs and iargs != targs[:len(iargs)]: continue
                    cands.append(f)
                elif not f.impl and f.name.split('::')[-1] == meth and (f.name == c or f.name.endswith('::' + tyname + '::' + meth) or f.name == meth):
                    cands.append(f)
        if len(cands) == 1: return cands[0]
        if len(cands) > 1: raise Unsupported('ambiguous callee %s: %s' % (callee, [f.name for f in cands]))
        return None

    # --- place / operand evaluation
    def lval(self, st, fr, p):
        if p[0] == 'local':
            if p[1] not in fr['locals']: fr['locals'][p[1]] = st.new_cell(None)
            return fr['locals'][p[1]], ()
        if p[0] == 'deref':
            c, path = self.lval(st, fr, p[1]); r = get_path(st.store[c], path)
            if is_expr(r): return st.new_cell(r), ()      # &str / &[u8] are modelled by value
            if r is None or r[0] != 'ref': raise Unsupported('deref of non-ref ' + str(r)[:80])
            return r[1], r[2]
        if p[0] == 'field':
            c, path = self.lval(st, fr, p[1]); return c, path + (('f', p[2]),)
        if p[0] == 'downcast':
            c, path = self.lval(st, fr, p[1]); return c, path + (('dc', p[2]),)
        raise Unsupported('place kind ' + p[0])
    def read(self, st, fr, p):
        c, path = self.lval(st, fr, p); return get_path(st.store[c], path)
    def write(self, st, fr, p, v):
        c, path = self.lval(st, fr, p); st.store[c] = set_path(st.store[c], path, v)

    def const(self, st, fr, s):
        s = s.strip()
        if s in ('true', 'false'): return BoolVal(s == 'true')
        if s == '()': return UNIT
        m = re.match(r'(-?\d+)_(u|i)(size|8|16|32|64|128)$', s)
        if m: return IntVal(int(m.group(1)))
        m = re.match(r"'(.)'$", s)
        if m: return StringVal(m.group(1))
        m = re.match(r'"(.*)"$', s, re.S)
        if m: return StringVal(bytes(m.group(1), 'utf-8').decode('unicode_escape'))
        m = re.match(r'b"(.*)"$', s, re.S)
        if m: return ('bytes_lit', eval('b"' + m.group(1) + '"'))
        if s.startswith('ZeroSized'): return ('zst', s)
        m = re.match(r'\{(alloc\d+): &&str\}$', s)
        if m:
            a = self.allocs[m.group(1)]
            if a[0] != 'strptr': raise Unsupported('alloc const ' + s)
            c = st.new_cell(StringVal(self.allocs[a[1]][:a[2]].decode())); return ('ref', c, ())
        m = re.search(r'(\S*promoted\[\d+\])$', s)
        if m:
            # promoted constant: evaluate its body in a fresh frame (no calls expected)
            key = fr['fn'].name + '::' + m.group(1).split('::')[-1]
            key = key if key in self.consts else None
            if key is None: raise Unsupported('promoted not found: ' + s)
            return self.eval_const_fn(st, self.consts[key])
        m = re.match(r'Result::<.*>::Err\((\w+)\)$', s)
        if m: return err(adt(m.group(1), None))
        m = re.match(r'([A-Z]\w*)(::<.*>)?$', s)
        if m: return adt(m.group(1), None)
        if re.match(r'[a-z_][\w]*(::\w+)+$', s): return ('extern_const', s)
        raise Unsupported('const: ' + s)
    def _prom_match(self, k, want, fr):
        # promoted[...] of the current function: same trailing `method::promoted[i]`
        return k.split('>::')[-1] == want.split('>::')[-1] and fr['fn'].method in k
    def eval_const_fn(self, st, f):
        if len(f.blocks) > 1:
            (s2, v), = self.run_sub(f, [], st)
            st.store.update(s2.store); return v
        fr = {'fn': f, 'locals': {}, 'bb': 'bb0'}
        for line in f.blocks['bb0']:
            if line == 'return': break
            self.stmt(st, fr, line)
        return self.read(st, fr, ('local', '_0'))

    def operand(self, st, fr, s):
        s = s.strip()
        if s.startswith('copy '): return self.read(st, fr, parse_place(s[5:]))
        if s.startswith('move '): return self.read(st, fr, parse_place(s[5:]))
        if s.startswith('no_retag '): return self.operand(st, fr, s[9:])
        if s.startswith('const '): return self.const(st, fr, s[6:])
        raise Unsupported('operand: ' + s)

    def rvalue(self, st, fr, s, dest_ty=None):
        s = s.strip()
        if s.startswith(('copy ', 'move ', 'const ', 'no_retag ')):
            m = re.match(r'(.*) as (.*) \((\w+)(?:\(.*\))?\)$', s)
            if m:
                v = self.operand(st, fr, m.group(1)); kind = m.group(3)
                if kind in ('IntToInt', 'PointerCoercion', 'Transmute', 'PtrToPtr'): return v   # ints are mathematical here; unsizing keeps the value
                raise Unsupported('cast kind ' + kind)
            return self.operand(st, fr, s)
        if s.startswith('&'):
            t = re.sub(r'^&(raw )?(mut |const )?', '', s)
            c, path = self.lval(st, fr, parse_place(t)); return ('ref', c, path)
        m = re.match(r'discriminant\((.*)\)$', s)
        if m:
            v = self.read(st, fr, parse_place(m.group(1)))
            if v[0] != 'adt': raise Unsupported('discriminant of ' + str(v)[:60])
            return ('variant', v[1], v[2])
        m = re.match(r'PtrMetadata\((.*)\)$', s)
        if m:
            v = self.operand(st, fr, m.group(1)); return self.length(st, v)
        m = re.match(r'(Eq|Ne|Lt|Le|Gt|Ge|Add|Sub|BitAnd|Shr)\((.*)\)$', s)
        if m:
            a, b = [self.operand(st, fr, x) for x in split_top(m.group(2))]
            return {'Eq': lambda: a == b, 'Ne': lambda: a != b, 'Lt': lambda: a < b, 'Le': lambda: a <= b, 'Gt': lambda: a > b,
                    'Ge': lambda: a >= b, 'Add': lambda: a + b, 'Sub': lambda: a - b}.get(m.group(1), lambda: (_ for _ in ()).throw(Unsupported('binop ' + m.group(1))))()
        m = re.match(r'(AddWithOverflow|SubWithOverflow)\((.*)\)$', s)
        if m:
            a, b = [self.operand(st, fr, x) for x in split_top(m.group(2))]
            r = a + b if m.group(1)[0] == 'A' else a - b
            return tup(r, Or(r < 0, r >= 2**64))
        m = re.match(r'Not\((.*)\)$', s)
        if m: return Not(self.operand(st, fr, m.group(1)))
        # aggregates
        if s.startswith('(') and s.endswith(')'):
            return tup(*[self.operand(st, fr, x) for x in split_top(s[1:-1])])
        m = re.match(r'\[(.*); (\w+)\]$', s)
        if m:
            x = self.operand(st, fr, m.group(1)); n = m.group(2)
            if not n.isdigit(): raise Unsupported('repeat with symbolic length ' + n)
            if is_int_value(x): return zeros(int(n)) if x.as_long() == 0 else Concat(*[Unit(BitVecVal(x.as_long(), 8))] * int(n))
            raise Unsupported('repeat of ' + str(x))
        if s.startswith('[') and s.endswith(']'):
            return ('array', tuple(self.operand(st, fr, x) for x in split_top(s[1:-1])))
        m = re.match(r'\{closure@(.*?)\}(?: \{(.*)\})?$', s)
        if m:
            caps = tuple(self.operand(st, fr, x.split(':', 1)[1]) for x in split_top(m.group(2))) if m.group(2) else ()
            return ('closure', m.group(1), caps)
        if s.endswith(')') and not s.startswith(('copy', 'move')):        # tuple struct / enum variant constructor
            d = 0
            for i in range(len(s) - 1, -1, -1):
                if s[i] == ')': d += 1
                elif s[i] == '(':
                    d -= 1
                    if d == 0: break
            head, inner = s[:i], s[i + 1:-1]
            name = head
            while True:
                n2 = re.sub(r'::<[^<>]*>', '', name)
                n2 = re.sub(r'<[^<>]*>', '', n2)
                if n2 == name: break
                name = n2
            parts = name.split('::')
            fields = [self.operand(st, fr, x) for x in split_top(inner)]
            if len(parts) >= 2 and parts[-2][:1].isupper():
                return adt(parts[-2], parts[-1], *fields)
            return adt(parts[-1], None, *fields)
        m = re.match(r'([\w:<>\', &]+?) \{(.*)\}$', s)               # struct literal
        if m:
            name = m.group(1)
            while True:
                n2 = re.sub(r'::<[^<>]*>', '', name); n2 = re.sub(r'<[^<>]*>', '', n2)
                if n2 == name: break
                name = n2
            name = name.split('::')[-1]
            return adt(name, None, *[self.operand(st, fr, x.split(':', 1)[1]) for x in split_top(m.group(2))])
        m = re.match(r'([\w:]+)$', s)                                 # unit struct / fieldless variant
        if m:
            parts = s.split('::'); return adt(parts[-2], parts[-1]) if len(parts) >= 2 and parts[-2][0].isupper() else adt(parts[-1], None)
        raise Unsupported('rvalue: ' + s)

    def length(self, st, v):
        if isinstance(v, tuple) and v[0] == 'ref': v = get_path(st.store[v[1]], v[2])
        if isinstance(v, tuple) and v[0] == 'array': return IntVal(len(v[1]))
        if isinstance(v, tuple) and v[0] == 'bytes_lit': return IntVal(len(v[1]))
        if is_expr(v) and (is_seq(v) or is_string(v)): return Length(v)
        raise Unsupported('length of ' + str(v)[:60])

    def stmt(self, st, fr, line):
        if line.startswith(('StorageLive', 'StorageDead', 'nop', 'FakeRead', 'AscribeUserType', 'Retag', 'PlaceMention', 'Coverage', 'ConstEvalCounter')): return
        m = re.match(r'(.+?) = (.*)$', line)
        if not m: raise Unsupported('statement: ' + line)
        self.write(st, fr, parse_place(m.group(1)), self.rvalue(st, fr, m.group(2)))

    def feasible(self, st, extra=None):
        self.stats['feas_checks'] += 1
        s = Solver(); s.add(*st.pc)
        if extra is not None: s.add(extra)
        r = portfolio(s, self.timeout)
        if r == 'unknown': raise Unsupported('all solvers unknown in feasibility check')
        return r == 'sat'

    # --- run a function to completion on all paths; yields (state, retval or Panic)
    def run(self, fn, args, st=None):
        st = st or State()
        fr = {'fn': fn, 'locals': {}, 'bb': 'bb0', 'ret_to': None}
        for p, a in zip(fn.params, args): fr['locals'][p] = st.new_cell(a)
        st.stack.append(fr)
        work, results = [st], []
        while work:
            st = work.pop()
            try:
                for nxt in self.step_block(st):
                    if nxt[0] == 'cont': work.append(nxt[1])
                    else: results.append((nxt[1], nxt[2])); self.stats['paths'] += 1
            except Unsupported as e:
                raise Unsupported('%s  [in %s %s]' % (e, st.stack[-1]['fn'].name[-70:], st.stack[-1]['bb']))
        return results

    def run_sub(self, fn, args, st):
        """run fn to completion from a copy of st's heap; returns [(state, value)] with the caller's stack restored"""
        sub = st.fork(); saved = sub.stack; sub.stack = []
        out = []
        for s2, v in self.run(fn, args, sub):
            s2.stack = [dict(fr, locals=dict(fr['locals'])) for fr in saved]; out.append((s2, v))
        return out

    def ret(self, st, val):
        fr = st.stack.pop()
        if not st.stack: return [('done', st, val)]
        caller = st.stack[-1]
        if isinstance(val, Panic): return [('done', st, val)]
        self.write(st, caller, fr['ret_to'][0], val); caller['bb'] = fr['ret_to'][1]
        return [('cont', st)]

    def step_block(self, st):
        fr = st.stack[-1]; fn = fr['fn']
        lines = fn.blocks[fr['bb']]
        for line in lines[:-1]: self.stmt(st, fr, line)
        t = lines[-1]
        if t == 'return': return self.ret(st, self.read(st, fr, ('local', '_0')))
        if t == 'unreachable': return []
        m = re.match(r'goto -> (bb\d+)', t)
        if m: fr['bb'] = m.group(1); return [('cont', st)]
        m = re.match(r'drop\(.*\) -> \[return: (bb\d+)', t)
        if m: fr['bb'] = m.group(1); return [('cont', st)]
        m = re.match(r'assert\((!?)(.*?), "(.*?)".*\) -> \[success: (bb\d+)', t)
        if m:
            c = self.operand(st, fr, m.group(2)); c = Not(c) if m.group(1) else c
            out = []
            if self.feasible(st, Not(c)):
                s2 = st.fork(); s2.pc.append(Not(c)); out.append(('done', s2, Panic(m.group(3))))
            if self.feasible(st, c):
                st.pc.append(c); fr['bb'] = m.group(4); out.append(('cont', st))
            return out
        m = re.match(r'switchInt\((.*?)\) -> \[(.*)\]$', t)
        if m:
            v = self.operand(st, fr, m.group(1)); arms = [a.split(':') for a in split_top(m.group(2))]
            arms = [(a[0].strip(), a[1].strip()) for a in arms]
            if isinstance(v, tuple) and v[0] == 'variant':
                idx = self.variant_index(v[1], v[2])
                tgt = dict(arms).get(str(idx), dict(arms).get('otherwise')); fr['bb'] = tgt; return [('cont', st)]
            out = []; others = []
            for k, tgt in arms:
                if k == 'otherwise': cond = And(*[Not(o) for o in others]) if others else BoolVal(True)
                else:
                    cond = (v == (int(k) != 0)) if is_bool(v) else (v == int(k)); cond = simplify(Not(v)) if is_bool(v) and k == '0' else cond
                    others.append(cond)
                if self.feasible(st, cond):
                    s2 = st.fork(); s2.pc.append(cond); s2.stack[-1]['bb'] = tgt; out.append(('cont', s2))
            return out
        # call
        m = re.match(r'(.+?) = (.*) -> \[return: (bb\d+)', t) or re.match(r'(.+?) = (.*) -> unwind', t)
        if m and m.group(2).endswith(')'):
            body = m.group(2); j = len(body) - 1; d = 0
            for i in range(len(body) - 1, -1, -1):
                if body[i] == ')': d += 1
                elif body[i] == '(':
                    d -= 1
                    if d == 0: break
            callee, argstr = body[:i], body[i + 1:-1]
            args = [self.operand(st, fr, a) for a in split_top(argstr)]
            dest = parse_place(m.group(1)); nxt = m.group(3) if m.lastindex >= 3 else None
            return self.call(st, fr, callee, args, dest, nxt)
        raise Unsupported('terminator: ' + t)

    def variant_index(self, name, variant):
        table = {'Option': ['None', 'Some'], 'Result': ['Ok', 'Err'], 'ControlFlow': ['Continue', 'Break']}
        if name in table: return table[name].index(variant)
        raise Unsupported('variant order of %s::%s' % (name, variant))

    def bind_generics(self, f, callee):
        """map the impl's generic parameter names to the type arguments of this call (positional)"""
        sub = {}
        mg = None; base = callee
        if callee.endswith('>'):
            d = 0
            for i in range(len(callee) - 1, -1, -1):
                if callee[i] == '>' and callee[i - 1:i] != '-': d += 1
                elif callee[i] == '<':
                    d -= 1
                    if d == 0: break
            if re.search(r'::\w+::$', callee[:i]): mg = re.match(r'(.*)$', callee[i + 1:-1], re.S); base = callee[:i - 2]
        if mg:
            impls = re.findall(r'_\d+: &?(?:mut )?(impl [^,()]*(?:<[^()]*?>)?(?: \+ \w+)*)', f.sig)
            for name, ty in zip(impls, split_top(mg.group(1))): sub[name] = ty
        if not f.impl:
            m = re.match(r'<(.*) as ([\w:]+)(?:<(.*)>)?>::\w+', callee)
            if m:
                sub['Self'] = m.group(1)
                if m.group(3): sub['T'] = split_top(m.group(3))[0]
                if mg: sub['B'] = split_top(mg.group(1))[0]
            return sub
        ity = f.impl[1]
        m = re.match(r'<(.*) as .*>::\w+', callee)
        cty = m.group(1) if m else re.sub(r'::\w+$', '', base)
        cty = re.sub(r'^<impl (.*)>$', r'\1', cty.split('::<impl ')[-1]) if '<impl ' in cty else cty
        ia = re.search(r'<(.*)>', ity); ca = re.search(r'<(.*)>', cty.replace('::<', '<'))
        if not ia or not ca: return sub
        strip = lambda xs: [x for x in xs if not x.startswith("'")]
        ias, cas = strip(split_top(ia.group(1))), strip(split_top(ca.group(1)))
        sub.update({i: c for i, c in zip(ias, cas) if re.match(r'^[A-Z]\w*$', i) and i not in ('V1', 'V2', 'V3', 'V4', 'Local', 'Public')})
        return sub

    def call(self, st, fr, callee, args, dest, nxt):
        for gname, gty in fr.get('subst', {}).items():
            callee = callee.replace(gname, gty) if gname.startswith('impl ') else re.sub(r'\b%s\b' % gname, gty, callee)
        for pat, fnc in self.contracts:
            if re.search(pat, callee):
                self.stats['contracts'].add(pat)
                outs = fnc(self, st, callee, args)
                res = []
                for o in outs:
                    cond, val = o[0], o[1]
                    base = o[2] if len(o) > 2 else st
                    if cond is not None and not self.feasible(base, cond): continue
                    s2 = base.fork() if (len(outs) > 1 and len(o) == 2) else base
                    if cond is not None: s2.pc.append(cond)
                    if isinstance(val, Panic): res.append(('done', s2, val)); continue
                    self.write(s2, s2.stack[-1], dest, val); s2.stack[-1]['bb'] = nxt; res.append(('cont', s2))
                return res
        f = self.find(callee)
        if f is None: raise Unsupported('no contract and no MIR for callee: ' + callee)
        self.stats['inlined'].add(f.name)
        new = {'fn': f, 'locals': {}, 'bb': 'bb0', 'ret_to': (dest, nxt), 'subst': self.bind_generics(f, callee)}
        for p, a in zip(f.params, args): new['locals'][p] = st.new_cell(a)
        st.stack.append(new)
        return [('cont', st)]
