#!/usr/bin/env python3-vt
import time
from z3 import *
B = SeqSort(BitVecSort(8))
le64 = Function('le64', IntSort(), B); unle64 = Function('unle64', B, IntSort())
mac = Function('mac', B, B, B)        # keyed MAC, 32-byte output
kdf = Function('kdf', B, B, B)        # key split PRF(key, info)
ks  = Function('ks', B, B, IntSort(), B)  # keystream(key, nonce, len)
xor = Function('xor', B, B, B)
def pae(ps):
    out = le64(len(ps))
    for p in ps: out = Concat(out, le64(Length(p)), p)
    return out
def axioms(s, ints, macs, kdfs):
    for n in ints:
        s.add(Length(le64(n)) == 8)
    for i in range(len(ints)):
        for j in range(i + 1, len(ints)):
            s.add(Implies(le64(ints[i]) == le64(ints[j]), ints[i] == ints[j]))
    for (k, m) in macs: s.add(Length(mac(k, m)) == 32)
    for i in range(len(macs)):
        for j in range(i + 1, len(macs)):
            (k1, m1), (k2, m2) = macs[i], macs[j]
            s.add(Implies(mac(k1, m1) == mac(k2, m2), And(k1 == k2, m1 == m2)))
    for (k, m) in kdfs: s.add(Length(kdf(k, m)) == 32)
    for i in range(len(kdfs)):
        for j in range(i + 1, len(kdfs)):
            (k1, m1), (k2, m2) = kdfs[i], kdfs[j]
            s.add(Implies(kdf(k1, m1) == kdf(k2, m2), And(k1 == k2, m1 == m2)))

K, n, c, f, a = Consts('K n c f a', B)
h = Const('h', B); AKS = Const('AKS', B)
Pp = Const('Pp', B)      # adversary payload
fp, ap = Consts('fp ap', B)  # footer / assertion presented at decrypt (here: same or different)
s = Solver(); s.set('timeout', 60000)
s.add(Length(K) == 32, Length(n) == 32, Length(h) == 9, Length(AKS) == 24)
ak = kdf(K, Concat(AKS, n)); pae1 = pae([h, n, c, f, a]); t = mac(ak, pae1)
P = Concat(n, c, t)
# decrypt side on adversary payload Pp
s.add(Length(Pp) >= 64)
n2 = Extract(Pp, 0, 32); c2 = Extract(Pp, 32, Length(Pp) - 64); t2 = Extract(Pp, Length(Pp) - 32, 32)
ak2 = kdf(K, Concat(AKS, n2)); pae2 = pae([h, n2, c2, fp, ap]); tag2 = mac(ak2, pae2)
accept = (t2 == tag2)
ints = [IntVal(5), Length(h), Length(n), Length(c), Length(f), Length(a), Length(n2), Length(c2), Length(fp), Length(ap)]
axioms(s, ints, [(ak, pae1), (ak2, pae2)], [(K, Concat(AKS, n)), (K, Concat(AKS, n2))])
# F_MAC idealisation: a tag taken from adversary data verifies only if it is an honest MAC output for the same (key,msg)
s.add(Implies(accept, And(ak2 == ak, pae2 == pae1)))
def q(name, extra):
    s.push(); s.add(*extra); t0 = time.time(); r = s.check(); print(name, r, '%.2fs' % (time.time() - t0)); 
    if r == sat: print('  model c=', s.model().eval(c), ' Pp=', s.model().eval(Pp))
    s.pop()
q('C03 tamper (same f,a; Pp != P accepted)', [fp == f, ap == a, Pp != P, accept])
q('C05 footer (Pp == P, different footer accepted)', [Pp == P, ap == a, fp != f, accept])
q('C06 assertion (different assertion accepted)', [Pp == P, fp == f, ap != a, accept])
q('C06 split (f++a equal, split differs)', [Pp == P, Concat(fp, ap) == Concat(f, a), fp != f, accept])
q('sanity: authentic accepted is possible', [Pp == P, fp == f, ap == a, accept])
# mutated PAE without length prefixes -> split attack must be found
def badpae(ps):
    out = le64(len(ps))
    for p in ps: out = Concat(out, p)
    return out
s2 = Solver(); s2.set('timeout', 120000)
s2.add(Length(K) == 32, Length(n) == 32, Length(h) == 9, Length(AKS) == 24)
b1 = badpae([h, n, c, f, a]); b2 = badpae([h, n, c, fp, ap])
s2.add(Length(le64(IntVal(5))) == 8)
s2.add(b1 == b2, fp != f)
t0 = time.time(); r = s2.check(); print('mutant PAE (no length prefixes) split attack:', r, '%.2fs' % (time.time() - t0))
if r == sat: m = s2.model(); print('  f=', m.eval(f), 'a=', m.eval(a), 'fp=', m.eval(fp), 'ap=', m.eval(ap))
