#!/usr/bin/env python3-vt
import sys, time; sys.path.insert(0, '/tmp/probe/e2')
from mirx import *
from mirx import portfolio
t0 = time.time()
fns, consts, allocs = load('/tmp/probe/mir/all.mir', '/repo')
S = StringSort()
Value = DeclareSort('JsonValue')
json_of = Function('json_of', IntSort(), Value)            # serde_json::to_value of the boxed claim #i
obj = Function('obj', ArraySort(S, BoolSort()), ArraySort(S, Value), Value)   # Value::Object from a key set and a key->value map
to_string = Function('to_string', Value, S)
def deref(st, v):
    while isinstance(v, tuple) and v[0] == 'ref': v = get_path(st.store[v[1]], v[2])
    return v
def upd(st, r, v): st.store[r[1]] = set_path(st.store[r[1]], r[2], v)
def closure_fn(ex, callee):
    span = re.search(r'\{closure@(.*?)\}', callee).group(1)
    return next(f for f in ex.fns if '{closure#' in f.name and span in f.sig)
def c_take(ex, st, callee, a):
    old = deref(st, a[0]); upd(st, a[0], ('hmap', ())); return [(None, old)]
def c_into_iter(ex, st, callee, a): return [(None, ('miter', deref(st, a[0])[1]))]
def c_map(ex, st, callee, a): return [(None, ('mapiter', a[0][1], closure_fn(ex, callee)))]
def c_collect(ex, st, callee, a):
    _, ents, f = a[0]; cur = [(st, [])]
    for k, v in ents:
        nxt = []
        for s1, acc in cur:
            for s2, r in ex.run_sub(f, [('zst', 'closure'), tup(k, v)], s1): nxt.append((s2, acc + [(r[1][0], r[1][1])]))
        cur = nxt
    return [(None, ('hmap', tuple(acc)), s2) for s2, acc in cur]
def c_to_value(ex, st, callee, a): return [(None, ok(json_of(deref(st, a[0]))))]
def c_unwrap_or(ex, st, callee, a): return [(None, a[0][3][0] if a[0][2] == 'Ok' else a[1])]
def c_wrap_value(ex, st, callee, a): return [(None, a[0])]      # identity: the C14 induction lemma, proved separately
def c_map_from_iter(ex, st, callee, a):
    keys = K(S, False); vals = K(S, json_of(IntVal(-1)))
    for k, v in deref(st, a[0])[1]: keys = Store(keys, k, True); vals = Store(vals, k, v)
    return [(None, ('jsonmap', keys, vals))]
def c_to_string(ex, st, callee, a):
    v = deref(st, a[0]); m = v[3][0]; st.log.append(('payload_keys', m[1])); return [(None, ok(to_string(obj(m[1], m[2]))))]
CONTRACTS = [
    (r'^std::mem::take::<HashMap<', c_take), (r'^<HashMap<.*> as IntoIterator>::into_iter$', c_into_iter),
    (r' as Iterator>::map::<', c_map), (r' as Iterator>::collect::<HashMap<', c_collect),
    (r'^to_value::<', c_to_value), (r'^Result::<Value, serde_json::Error>::unwrap_or$', c_unwrap_or),
    (r'^wrap_value$', c_wrap_value), (r'^<serde_json::Map<.*> as FromIterator<', c_map_from_iter), (r'^serde_json::to_string::<Value>$', c_to_string),
]
ex = Exec(fns, consts, allocs, CONTRACTS)
f = [x for x in fns if x.method == 'build_payload_from_claims'][0]
k1, k2 = String('k1'), String('k2')
st = State(); st.pc.append(k1 != k2)
claims0 = ('hmap', ((k1, IntVal(1)), (k2, IntVal(2))))
gb = adt('GenericBuilder', None, adt('PhantomData', None), adt('PhantomData', None), claims0, NONE, NONE)
c = st.new_cell(gb); me = ('ref', c, ())
res = ex.run(f, [me], st)
print('build_payload_from_claims, 2 symbolic claims: %d path(s), %.2fs' % (len(res), time.time() - t0))
(s1, r1), = res
keys1 = [x[1] for x in s1.log if x[0] == 'payload_keys'][-1]
s = Solver(); s.add(*s1.pc); s.add(Not(And(Select(keys1, k1), Select(keys1, k2)))); print('  1st build: payload lacks a claim that was set:', s.check(), '(want unsat)')
print('  builder.claims after the 1st build:', get_path(s1.store[c], ())[3][2])
res2 = ex.run(f, [me], s1)
(s2, r2), = res2
keys2 = [x[1] for x in s2.log if x[0] == 'payload_keys'][-1]
s = Solver(); s.add(*s2.pc); s.add(Not(Select(keys2, k1))); print('  2nd build from the same builder: payload lacks claim k1:', s.check(), '(want unsat; sat = defect D6)')
print('total %.2fs' % (time.time() - t0))
