#!/usr/bin/env python3-vt
import sys, time; sys.path.insert(0, '/tmp/probe/e2')
from mirx import *
from mirx import SOLVER_TIMES, portfolio
t0 = time.time()
fns, consts, allocs = load('/tmp/probe/mir/all.mir', '/repo')
S = StringSort()
Value = Datatype('Value')
Value.declare('Null'); Value.declare('Bool', ('b', BoolSort())); Value.declare('Num', ('n', IntSort()))
Value.declare('Str', ('s', S)); Value.declare('Arr', ('a', IntSort())); Value.declare('Obj', ('o', IntSort()))
Value = Value.create()
member = Function('member', Value, S, Value)          # serde_json Index<&str>: Null if absent / not an object
vres = Function('validator_ok', S, Value, BoolSort())  # verdict of the user validator registered under a key
VAL = Const('validators', ArraySort(S, BoolSort()))    # key set of claim_validators
fresh = itertools.count()

def deref(st, v):
    while isinstance(v, tuple) and v[0] == 'ref': v = get_path(st.store[v[1]], v[2])
    return v
def upd(st, r, v): st.store[r[1]] = set_path(st.store[r[1]], r[2], v)
def c_identity(ex, st, callee, a): return [(None, a[0])]
def c_try_branch(ex, st, callee, a):
    v = a[0]
    return [(None, adt('ControlFlow', 'Continue', v[3][0]))] if v[2] == 'Ok' else [(None, adt('ControlFlow', 'Break', err(v[3][0])))]
def c_from_str(ex, st, callee, a):
    J = Const('J', Value); st.log.append(('payload_json', J))
    return [(Bool('payload_is_json'), ok(J)), (Not(Bool('payload_is_json')), err(adt('SerdeError', None)))]
def c_into_iter(ex, st, callee, a): return [(None, ('hiter', deref(st, a[0])[1], 0))]
def c_iter_next(ex, st, callee, a):
    it = deref(st, a[0]); ents, pos = it[1], it[2]
    if pos >= len(ents): return [(None, NONE)]
    upd(st, a[0], ('hiter', ents, pos + 1)); k, raw = ents[pos]
    kc, rc = st.new_cell(k), st.new_cell(('boxed_claim', raw))
    return [(None, some(tup(('ref', kc, ()), ('ref', rc, ()))))]
def c_to_value(ex, st, callee, a): return [(None, ok(deref(st, a[0])[1]))]
def c_contains_key(ex, st, callee, a): return [(None, Select(VAL, deref(st, a[1])))]
def c_hm_index(ex, st, callee, a):
    k = deref(st, a[1]); return [(Not(Select(VAL, k)), Panic('HashMap index: key not found')), (Select(VAL, k), ('validator', k))]
def c_value_index(ex, st, callee, a): return [(None, member(deref(st, a[0]), deref(st, a[1])))]
def c_fn_call(ex, st, callee, a):
    v = deref(st, a[0]); args = a[1]; k = deref(st, args[1][0]); val = deref(st, args[1][1])
    st.log.append(('validator_call', v[1], k, val))
    return [(vres(v[1], val), ok(UNIT)), (Not(vres(v[1], val)), err(adt('PasetoClaimError', 'CustomValidation', v[1])))]
def c_from_residual(ex, st, callee, a):
    e = a[0][3][0]
    if 'PasetoClaimError' in callee and not (isinstance(e, tuple) and e[1] == 'GenericParserError'): e = adt('GenericParserError', 'ClaimError', e)
    return [(None, err(e))]
def toz3(v):
    if isinstance(v, tuple) and v[0] == 'adt' and v[1] == 'Value' and v[2] == 'Null': return Value.Null
    return v
def c_value_eq(ex, st, callee, a):
    r = toz3(deref(st, a[0])) == toz3(deref(st, a[1])); return [(None, Not(r) if callee.endswith('::ne') else r)]
def c_as_str(ex, st, callee, a):
    v = deref(st, a[0]); return [(Value.is_Str(v), some(Value.s(v))), (Not(Value.is_Str(v)), NONE)]
def c_ok_or_else(ex, st, callee, a):
    if a[0][2] == 'Some': return [(None, ok(a[0][3][0]))]
    span = re.search(r'\{closure@(.*?)\}', callee).group(1)
    f = next(f for f in ex.fns if '{closure#' in f.name and span in f.sig)
    return [(None, err(v), s2) for s2, v in ex.run_sub(f, [a[1]], st)]
def c_into_gpe(ex, st, callee, a): return [(None, adt('GenericParserError', 'ClaimError', a[0]))]
def c_to_string(ex, st, callee, a): return [(None, deref(st, a[0]))]
CONTRACTS = [
    (r'^serde_json::from_str::<', c_from_str), (r' as Try>::branch$', c_try_branch), (r' as FromResidual<.*>::from_residual$', c_from_residual),
    (r'^<&HashMap<.*> as IntoIterator>::into_iter$', c_into_iter), (r'^<std::collections::hash_map::Iter<.*> as Iterator>::next$', c_iter_next),
    (r'^to_value::<', c_to_value), (r'^HashMap::<.*>::contains_key::<', c_contains_key), (r'^<HashMap<.*> as std::ops::Index<', c_hm_index),
    (r'^<Box<dyn .*> as AsRef<dyn ', c_identity), (r'^<std::string::String as Deref>::deref$', c_to_string),
    (r'^<Value as std::ops::Index<', c_value_index), (r'^<dyn for<.* as Fn<\(&str, &Value\)>>::call$', c_fn_call),
    (r'^<Value as PartialEq>::(eq|ne)$', c_value_eq), (r'^Value::as_str$', c_as_str), (r'ok_or_else::<', c_ok_or_else),
    (r'as Into<generic::parsers::error::GenericParserError>>::into$', c_into_gpe), (r' as ToString>::to_string$', c_to_string),
    (r'^<&str as Into<std::string::String>>::into$', c_identity),
]
ex = Exec(fns, consts, allocs, CONTRACTS)
vc = [f for f in fns if f.method == 'verify_claims' and '{closure' not in f.name][0]
def run(nclaims):
    ks_ = [String('k%d' % i) for i in range(nclaims)]; raws = [Const('raw%d' % i, Value) for i in range(nclaims)]
    st = State(); st.pc += [Distinct(*ks_)] if nclaims > 1 else []
    parser = adt('GenericParser', None, adt('PhantomData', None), adt('PhantomData', None), ('hmap', tuple(zip(ks_, raws))), ('vmap', VAL), StringVal(''), StringVal(''))
    pc_ = st.new_cell(parser)
    res = ex.run(vc, [('ref', pc_, ()), String('token')], st)
    return ks_, raws, res
def kind(r): return r.msg if isinstance(r, Panic) else (r[2] + ('(' + '::'.join(str(x) for x in r[3][0][1:3]) + (':' + str(r[3][0][3][0][2]) if r[3][0][1] == 'GenericParserError' else '') + ')' if r[2] == 'Err' else ''))
def solve(name, cons, want):
    s = Solver(); s.add(*cons); t1 = time.time(); r = portfolio(s, 30000)
    print('  %-70s %-7s (want %s) %.1fs' % (name, r, want, time.time() - t1)); sys.stdout.flush(); return r, s

ks_, raws, res = run(1)
print('verify_claims with 1 expected claim: %d paths, %.1fs' % (len(res), time.time() - t0))
for s2, r in res: print('   ', kind(r), '| validator calls:', len([x for x in s2.log if x[0] == 'validator_call']))
k, raw = ks_[0], raws[0]; J = Const('J', Value); e = member(raw, k)
novalid = [Not(Select(VAL, k))]
okpaths = Or(*[And(*s2.pc) for s2, r in res if not isinstance(r, Panic) and r[2] == 'Ok'])
missing = Or(*[And(*s2.pc) for s2, r in res if not isinstance(r, Panic) and r[2] == 'Err' and 'Missing' in kind(r)] or [BoolVal(False)])
print('C15 (one expected claim, no validator on its key):')
solve('accepted although claim missing or different', novalid + [okpaths, Or(member(J, k) == Value.Null, member(J, k) != e)], 'unsat')
solve('rejected although present and equal', novalid + [Bool('payload_is_json'), Not(okpaths), member(J, k) != Value.Null, member(J, k) == e], 'unsat')
solve('absent claim not reported as Missing', novalid + [Bool('payload_is_json'), member(J, k) == Value.Null, Not(missing)], 'unsat')
print('C16 (validators):')
# (iii) a validator verdict Err on a checked key must fail the parse
solve('validator on expected key says Err but parse Ok', [Select(VAL, k), okpaths, Not(vres(k, member(J, k)))], 'unsat')
# (iv) parse Ok => every registered validator ran: a validator under a key kv that is NOT among the expected claims
kv = String('kv')
called_kv = Or(*[And(And(*s2.pc), Or(*[x[1] == kv for x in s2.log if x[0] == 'validator_call'] or [BoolVal(False)])) for s2, r in res if not isinstance(r, Panic) and r[2] == 'Ok'])
r_, s_ = solve('registered validator (key not among expected claims) never runs, parse Ok', [Select(VAL, kv), kv != k, okpaths, Not(called_kv), Not(vres(kv, member(J, kv)))], 'unsat')
if r_ == 'sat': print('     -> counterexample: validator registered under a key with no expected claim; it would reject, parse returns Ok  (defect D7)')
print('total %.1fs; solver' % (time.time() - t0), {k_: round(v, 1) for k_, v in SOLVER_TIMES.items()})
