import re, collections
MIR=open('/tmp/probe/mir/all.mir').read()
fns = re.findall(r'^fn (.*?)\((?:.*?)\) -> .*? \{\n(.*?)^\}', MIR, re.S|re.M)
print(len(fns), 'function bodies')
names=[n for n,_ in fns]
def split_call(line):
    m = re.match(r'\s*(_\d+) = (.*) -> \[return: (bb\d+)', line)
    if not m or not m.group(2).endswith(')'): return None
    body=m.group(2); depth=0
    for i in range(len(body)-1,-1,-1):
        if body[i]==')': depth+=1
        elif body[i]=='(':
            depth-=1
            if depth==0: return body[:i]
ext=collections.Counter(); stmts=collections.Counter(); terms=collections.Counter()
tests=0
for n,b in fns:
    if 'test' in n.lower() and ('unit_tests' in n or 'tests::' in n or 'builders::' in n and 'generic_v4' in n): 
        tests+=1; continue
    for line in b.split('\n'):
        l=line.strip()
        if not l or l.startswith(('let','debug','scope','}','bb')): continue
        c=split_call(line)
        if c is not None:
            # normalise generics away
            k=re.sub(r'<[^<>]*>','<>',c); k=re.sub(r'<[^<>]*>','<>',k); k=re.sub(r"'_|'a|'b",'',k)
            ext[k]+=1
        elif re.match(r'(switchInt|goto|return|unreachable|resume|drop|assert|falseEdge|falseUnwind)',l):
            terms[l.split('(')[0].split(' ')[0]]+=1
        else:
            m=re.match(r'.*? = (.*);',l)
            if m:
                r=m.group(1)
                kind = 'ref' if r.startswith('&') else 'const' if r.startswith('const') else 'copy/move' if r.startswith(('copy','move')) else 'discriminant' if r.startswith('discriminant') else 'cast' if ' as ' in r and '(' in r else 'binop' if re.match(r'(Add|Sub|Mul|Div|Rem|BitAnd|BitOr|Shr|Shl|Eq|Lt|Le|Ne|Ge|Gt|AddWithOverflow|SubWithOverflow|MulWithOverflow|Offset)',r) else 'unop' if re.match(r'(Not|Neg|PtrMetadata|Len)',r) else 'aggregate'
                stmts[kind]+=1
print('skipped test fns', tests)
print('terminators', dict(terms)); print('statements', dict(stmts))
print('distinct call targets (generics collapsed):', len(ext))
repo=[k for k in ext if re.search(r'(paseto|claims|generic_|footer|header|payload|implicit_assertion|keys::|Key<>|common|Paseto|Claim|Footer|Header|Payload|Separator|RawPayload|CipherText|Tag<|AuthenticationKey|EncryptionKey|PreAuthenticationEncoding|wrap_|V[1-4]|Local|Public)',k)]
print('of which mention repo types:', len(repo))
for k,v in ext.most_common(400):
    if k not in repo: print(v, k[:150])
