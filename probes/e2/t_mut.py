#!/usr/bin/env python3-vt
import sys, time; sys.path.insert(0, '/tmp/probe/e2')
from mirx import *
from mirx import SOLVER_TIMES
t0 = time.time()
fns, consts, allocs = load('/tmp/probe/mir/mut.mir', '/tmp/probe/mut')
S = StringSort()
utf8 = Function('utf8', S, Bytes)              # injective partial map str -> bytes
b64 = Function('b64', Bytes, S)
le64 = Function('le64', IntSort(), Bytes)
blake2b = Function('blake2b', IntSort(), Bytes, Bytes, Bytes)   # (outlen, key, data)
ks = Function('xchacha_ks', Bytes, Bytes, IntSort(), Bytes)
xor = Function('xor', Bytes, Bytes, Bytes)
fresh = itertools.count()
LEMMAS = []                                     # ground instances (lengths, injectivity) collected while executing
MACS = []

def deref(st, v):
    while isinstance(v, tuple) and v[0] == 'ref': v = get_path(st.store[v[1]], v[2])
    return v
def upd(st, r, v): st.store[r[1]] = set_path(st.store[r[1]], r[2], v)
def as_bytes(st, v):
    v = deref(st, v)
    if isinstance(v, tuple) and v[0] == 'adt' and len(v[3]) >= 1 and not is_expr(v): 
        # newtype / struct around bytes: Key(seq), Footer(str), Vec ...
        for f in v[3]:
            if is_expr(f) or (isinstance(f, tuple) and f[0] in ('ref', 'adt')): return as_bytes(st, f)
    if is_expr(v) and is_string_value(v):
        bs = v.as_string().encode()
        return Empty(Bytes) if not bs else (Unit(BitVecVal(bs[0], 8)) if len(bs) == 1 else Concat(*[Unit(BitVecVal(b, 8)) for b in bs]))
    if is_expr(v) and is_string(v): return utf8(v)
    if is_expr(v): return v
    if isinstance(v, tuple) and v[0] == 'bytes_lit': return Concat(*[Unit(BitVecVal(b, 8)) for b in v[1]]) if len(v[1]) > 1 else Unit(BitVecVal(v[1][0], 8))
    raise Unsupported('as_bytes of ' + str(v)[:80])

def c_identity(ex, st, callee, a): return [(None, a[0])]
def c_deref_val(ex, st, callee, a): return [(None, deref(st, a[0]))]
def c_try_branch(ex, st, callee, a):
    v = a[0]
    if v[2] == 'Ok': return [(None, adt('ControlFlow', 'Continue', v[3][0]))]
    return [(None, adt('ControlFlow', 'Break', err(v[3][0])))]
def c_from_residual(ex, st, callee, a): return [(None, a[0])]
def c_parse_raw_token(ex, st, callee, a):
    P = Const('P%d' % next(fresh), Bytes); st.log.append(('payload', P))
    return [(None, ok(P))]       # Err outcome is trivially panic-free; decided separately
def c_index_range(ex, st, callee, a):
    v = as_bytes(st, a[0]); r = a[1]; n = Length(v)
    kind = r[1]
    if kind == 'RangeTo': lo, hi = IntVal(0), r[3][0]
    elif kind == 'Range': lo, hi = r[3][0], r[3][1]
    elif kind == 'RangeFrom': lo, hi = r[3][0], n
    else: raise Unsupported('range kind ' + kind)
    okc = And(lo <= hi, hi <= n)
    if 'IndexMut' in callee:
        src = a[0]
        return [(Not(okc), Panic('slice index out of range (%s)' % kind)), (okc, ('ref', src[1], src[2] + (('slice', lo, hi - lo),)))]
    return [(Not(okc), Panic('slice index out of range (%s)' % kind)), (okc, simplify(Extract(v, lo, hi - lo)))]
def c_key_from_slice(ex, st, callee, a):
    n = int(re.search(r'Key<(\d+)>', callee).group(1)); v = as_bytes(st, a[0])
    return [(Length(v) != n, Panic('copy_from_slice length mismatch in Key::from')), (Length(v) == n, adt('Key', None, v))]
def c_len(ex, st, callee, a): return [(None, Length(as_bytes(st, a[0])))]
def c_copy_from_slice(ex, st, callee, a):
    dst = deref(st, a[0]); src = as_bytes(st, a[1])
    upd(st, a[0], src)
    return [(Length(dst) != Length(src), Panic('copy_from_slice length mismatch')), (Length(dst) == Length(src), UNIT)]
def c_blake_new(ex, st, callee, a):
    n = {'B0>, B0>, B0>, B0>, B0>>': 32, 'B1>, B1>, B0>, B0>, B0>>': 56}[re.search(r'(B[01]>, B[01]>, B[01]>, B[01]>, B[01]>>)', callee).group(1)]
    k = as_bytes(st, a[0])
    return [(Length(k) > 64, err(adt('InvalidLength', None))), (Length(k) <= 64, ok(adt('Blake2bMac', None, IntVal(n), k, Empty(Bytes))))]
def c_unwrap(ex, st, callee, a):
    v = a[0]
    return [(None, v[3][0])] if v[2] in ('Ok', 'Some') else [(None, Panic('unwrap on ' + v[2]))]
def c_blake_update(ex, st, callee, a):
    m = deref(st, a[0]); upd(st, a[0], adt('Blake2bMac', None, m[3][0], m[3][1], simplify(Concat(m[3][2], as_bytes(st, a[1]))))); return [(None, UNIT)]
def c_blake_final(ex, st, callee, a):
    m = a[0]; out = blake2b(m[3][0], m[3][1], m[3][2]); LEMMAS.append(Length(out) == m[3][0]); st.pc.append(Length(out) == m[3][0]); MACS.append((m[3][0], m[3][1], m[3][2])); st.log.append(('blake2b', m[3][1], m[3][2]))
    return [(None, out)]
def c_to_vec(ex, st, callee, a): return [(None, as_bytes(st, a[0]))]
def c_default_opt(ex, st, callee, a):
    v = a[0]
    if v[2] == 'Some': return [(None, v[3][0])]
    what = re.search(r'Option::<(\w+::)*(\w+)', callee).group(2)
    return [(None, adt(what, None, StringVal('')))]
def c_into_opt(ex, st, callee, a): return [(None, a[0])]          # harness passes Option<Footer> directly
def c_le64(ex, st, callee, a): LEMMAS.append(Length(le64(a[0])) == 8); st.pc.append(Length(le64(a[0])) == 8); return [(None, le64(a[0]))]
def c_slice_iter(ex, st, callee, a): return [(None, deref(st, a[0]))]
def c_fold(ex, st, callee, a):
    arr, acc = a[0], a[1]
    if not (isinstance(arr, tuple) and arr[0] == 'array'): raise Unsupported('fold over ' + str(arr)[:50])
    span = re.search(r'\{closure@(.*?)\}', callee).group(1)
    f = next(f for f in ex.fns if '{closure#' in f.name and span in f.sig)
    cur = [(st, acc)]
    for i, el in enumerate(arr[1]):
        nxt = []
        for s1, acc1 in cur:
            cell = s1.new_cell(el)
            for s2, v in ex.run_sub(f, [('zst', 'closure'), acc1, ('ref', cell, ())], s1): nxt.append((s2, v))
        cur = nxt
    return [(None, v, s2) for s2, v in cur]
def c_extend(ex, st, callee, a):
    v = deref(st, a[0]); upd(st, a[0], simplify(Concat(as_bytes(st, v), as_bytes(st, a[1])))); return [(None, UNIT)]
def c_cteq(ex, st, callee, a):
    x, y = as_bytes(st, a[0]), as_bytes(st, a[1]); st.log.append(('compare', x, y))
    return [(x == y, ok(UNIT)), (x != y, err(adt('Unspecified', None)))]
def c_from_elem(ex, st, callee, a):
    n = a[1]; z = Const('zeros%d' % next(fresh), Bytes); LEMMAS.append(Length(z) == n); st.pc.append(Length(z) == n); return [(None, z)]
def c_generic_array_from_slice(ex, st, callee, a):
    v = as_bytes(st, a[0]); n = 32 if 'B0>, B0>, B0>, B0>, B0>>' in callee else 24
    return [(Length(v) != n, Panic('GenericArray::from_slice length')), (Length(v) == n, v)]
def c_cipher_new(ex, st, callee, a): return [(None, adt('XChaCha20', None, as_bytes(st, a[0]), as_bytes(st, a[1])))]
def c_apply_keystream(ex, st, callee, a):
    c = deref(st, a[0]); buf = deref(st, a[1]); k = ks(c[3][0], c[3][1], Length(buf)); st.log.append(('keystream', c[3][0], c[3][1]))
    out = xor(buf, k); st.pc.append(Length(out) == Length(buf)); upd(st, a[1], out); return [(None, UNIT)]
def c_from_utf8(ex, st, callee, a):
    b = as_bytes(st, a[0]); s = Const('str%d' % next(fresh), S); st.log.append(('from_utf8', b))
    return [(utf8(s) == b, ok(s)), (BoolVal(True), err(adt('Utf8Error', None)))]
def c_assert_eq_fail(ex, st, callee, a): return [(None, Panic('assert_failed'))]

def c_as_bytes(ex, st, callee, a): return [(None, as_bytes(st, a[0]))]
def c_str_eq(ex, st, callee, a): return [(None, simplify(deref(st, a[0]) == deref(st, a[1])))]
CONTRACTS = [
    (r'^<str as PartialEq>::eq$', c_str_eq),
    (r'^core::str::<impl str>::as_bytes$', c_as_bytes),
    (r'::parse_raw_token::<', c_parse_raw_token),
    (r' as Try>::branch$', c_try_branch), (r' as FromResidual<.*>::from_residual$', c_from_residual),
    (r'^<Vec<u8> as std::ops::Index(Mut)?<', c_index_range), (r'^<\[u8\] as std::ops::Index<', c_index_range), (r'^<\[u8; \d+\] as IndexMut<', c_index_range),
    (r'^<keys::Key<\d+> as From<&\[u8\]>>::from$', c_key_from_slice),
    (r'^Vec::<u8>::len$', c_len), (r'copy_from_slice$', c_copy_from_slice),
    (r'^<Blake2bMac<.*> as KeyInit>::new_from_slice$', c_blake_new), (r'^Result::<.*>::unwrap$', c_unwrap),
    (r'^<Blake2bMac<.*> as Update>::update$', c_blake_update), (r'^<Blake2bMac<.*> as FixedOutput>::finalize_fixed$', c_blake_final),
    (r'^std::slice::<impl \[u8\]>::to_vec$', c_to_vec), (r'^<GenericArray<.*> as Deref>::deref$', c_identity),
    (r'^std::option::Option::<.*>::unwrap_or_default$', c_default_opt), (r'^<impl Into<Option<', c_into_opt),
    (r'PreAuthenticationEncoding::le64$', c_le64), (r'^core::slice::<impl \[.*\]>::iter$', c_slice_iter),
    (r' as Iterator>::fold::<', c_fold), (r'^<Vec<u8> as Extend<', c_extend),
    (r'verify_slices_are_equal$', c_cteq), (r'^std::vec::from_elem::<u8>$', c_from_elem),
    (r'^GenericArray::<u8, .*>::from_slice$', c_generic_array_from_slice),
    (r' as KeyIvInit>::new$', c_cipher_new), (r' as StreamCipher>::apply_keystream$', c_apply_keystream),
    (r'^from_utf8$', c_from_utf8), (r'^<str as ToOwned>::to_owned$', c_identity),
    (r'^<Vec<u8> as Deref(Mut)?>::deref(_mut)?$', c_identity), (r'^<\[u8\] as AsRef<\[u8\]>>::as_ref$', c_identity),
    (r'assert_failed', c_assert_eq_fail), (r'^<&\[u8; \d+\] as', c_identity),
]
ex = Exec(fns, consts, allocs, CONTRACTS)
f = [x for x in fns if x.method == 'try_decrypt' and 'v4_local' in x.name][0]
K = Const('K', Bytes); tok = String('tok'); F = String('F'); A = String('A')
st = State(); st.pc += [Length(K) == 32]
key = adt('PasetoSymmetricKey', None, adt('PhantomData', None), adt('PhantomData', None), adt('Key', None, K))
kc = st.new_cell(key)
try:
    res = ex.run(f, [tok, ('ref', kc, ()), some(adt('Footer', None, F)), some(adt('ImplicitAssertion', None, A))], st)
except Unsupported as e:
    print('UNSUPPORTED:', e); print('inlined so far:', len(ex.stats['inlined'])); sys.exit(2)
print('%d paths, inlined %d repo fns, %d contracts used, %.1fs' % (len(res), len(ex.stats['inlined']), len(ex.stats['contracts']), time.time() - t0))
sys.stdout.flush()
for s2, r in res:
    kind = r.msg if isinstance(r, Panic) else (r[2] + ('(' + str(r[3][0][1]) + ')' if r[2] == 'Err' else ''))
    print(' ', kind, '| pc size', len(s2.pc), '| log', [x[0] for x in s2.log]); sys.stdout.flush()
print('solver wall time in feasibility checks:', {k: round(v, 1) for k, v in SOLVER_TIMES.items()}, 'checks', ex.stats['feas_checks'])

# ---------------------------------------------------------------- wiring queries on the collected paths
print('--- wiring queries against the specification terms (v4.local)'); sys.stdout.flush()
def lit(b): return Concat(*[Unit(BitVecVal(x, 8)) for x in b])
n = Const('n', Bytes); m = String('m'); Fh = String('Fh'); Ah = String('Ah')
ekn = blake2b(IntVal(56), K, Concat(lit(b'paseto-encryption-key'), n))
ak = blake2b(IntVal(32), K, Concat(lit(b'paseto-auth-key-for-aead'), n))
ek, n2 = Extract(ekn, 0, 32), Extract(ekn, 32, 24)
c = xor(utf8(m), ks(ek, n2, Length(utf8(m))))
def pae(ps):
    out = le64(IntVal(len(ps)))
    for p in ps: out = Concat(out, le64(Length(p)), p)
    return out
pae_h = pae([lit(b'v4.local.'), n, c, utf8(Fh), utf8(Ah)])
t = blake2b(IntVal(32), ak, pae_h)
P_h = Concat(n, c, t)
base = [Length(n) == 32, Length(ekn) == 56, Length(ak) == 32, Length(t) == 32, Length(c) == Length(utf8(m)), Length(K) == 32]
def solve(name, cons, want):
    s = Solver(); s.add(*cons); t0 = time.time(); r = portfolio(s, 60000)
    print('  %-62s %-7s (want %s) %.1fs' % (name, r, want, time.time() - t0)); sys.stdout.flush(); return r
okp = [(s2, r) for s2, r in res if not isinstance(r, Panic) and r[2] == 'Ok'][0]
bad = [(s2, r) for s2, r in res if isinstance(r, Panic) or r[2] == 'Err']
P = [x[1] for x in okp[0].log if x[0] == 'payload'][0]
# every path's payload symbol is the same constant P0 (first fresh name) because contracts ran once per path prefix
cmp_ok = [x for x in okp[0].log if x[0] == 'compare'][0]
mac_ok = [x for x in okp[0].log if x[0] == 'blake2b'][-1]          # (tag key, pae') of the recomputed tag
# idealisations, instantiated on the terms of this query
xor_inv = [xor(xor(utf8(m), ks(ek, n2, Length(utf8(m)))), ks(ek, n2, Length(utf8(m)))) == utf8(m)]
inj_le = []   # le64 injectivity instances are only needed when footers/assertions differ (separate query)
def extracts(exprs):
    seen, out, todo = set(), [], list(exprs)
    while todo:
        e = todo.pop()
        if e.get_id() in seen: continue
        seen.add(e.get_id())
        if is_app(e):
            if e.decl().kind() == Z3_OP_SEQ_EXTRACT: out.append(e)
            todo.extend(e.children())
    return out
tag2 = blake2b(IntVal(32), mac_ok[1], mac_ok[2])
wins = extracts(list(okp[0].pc) + [cmp_ok[1], cmp_ok[2]])
fmac = And(*[Implies(And(Length(w) == 32, w == tag2), And(mac_ok[1] == ak, mac_ok[2] == pae_h)) for w in wins])
print('F_MAC instantiated on %d windows' % len(wins))
same = [F == Fh, A == Ah]
# A. the specification's token is accepted and yields m   (C01 / C08 direction spec -> lib)
for s2, r in []:
    kind = r.msg if isinstance(r, Panic) else 'Err(%s)' % r[3][0][1]
    solve('spec token takes path %s' % kind[:40], base + same + xor_inv + [P == P_h] + s2.pc, 'unsat')
solve('spec token: Ok path returns a string != m', base + same + xor_inv + [P == P_h, okp[1][3][0] != m] + okp[0].pc + [ForAll([x_ := String('x_')], True)] if False else base + same + xor_inv + [P == P_h, utf8(okp[1][3][0]) != utf8(m)] + okp[0].pc, 'unsat')
None and solve('sanity: spec token reaches Ok', base + same + xor_inv + [P == P_h] + okp[0].pc, 'sat')
# B. tampering with systematic lemma instantiation over the terms that occur
def apps(exprs, decl):
    seen, out, todo = set(), [], list(exprs)
    while todo:
        e = todo.pop()
        if e.get_id() in seen: continue
        seen.add(e.get_id())
        if is_app(e):
            if e.decl().eq(decl): out.append(e)
            todo.extend(e.children())
    return out
def lemmas(cons):
    L = []
    la = apps(cons, le64)
    for a in la: L.append(Length(a) == 8)
    for a, b in itertools.combinations(la, 2): L.append(Implies(a == b, a.arg(0) == b.arg(0)))
    ba = apps(cons, blake2b)
    for a in ba: L.append(Length(a) == a.arg(0))
    for a, b in itertools.combinations(ba, 2): L.append(Implies(a == b, And(a.arg(0) == b.arg(0), a.arg(1) == b.arg(1), a.arg(2) == b.arg(2))))
    ua = apps(cons, utf8)
    for a, b in itertools.combinations(ua, 2): L.append(Implies(a == b, a.arg(0) == b.arg(0)))
    return L
def solve2(name, cons, want):
    cons = list(cons); cons = cons + lemmas(cons); return solve(name + ' [%d lemma instances]' % (len(cons)), cons, want)
rng = [Length(P) < 2**40]
solve2('C03 P != P_h accepted', base + same + rng + [fmac, P != P_h] + okp[0].pc, 'unsat')
solve2('C05 different footer accepted', base + rng + [fmac, P == P_h, A == Ah, F != Fh] + okp[0].pc, 'unsat')
solve2('C06 different assertion accepted', base + rng + [fmac, P == P_h, F == Fh, A != Ah] + okp[0].pc, 'unsat')
solve2('C04 different key accepted', [Length(n) == 32, Length(c) == Length(utf8(m))] + same + rng + [fmac, P == P_h, K != Const('K', Bytes)] , 'n/a') if False else None
print('total %.1fs' % (time.time() - t0))
