#!/usr/bin/env python3-vt
"""Throwaway prototype: symbolic execution of one MIR body (exp validator closure) into z3."""
import re, sys
from z3 import *

MIR = open('/tmp/probe/mir/all.mir').read()

def get_fn(pattern):
    m = re.search(r'^fn ' + pattern + r'\(.*?\n}\n', MIR, re.S | re.M)
    assert m, pattern
    return m.group(0)

def parse_body(txt):
    blocks = {}
    for m in re.finditer(r'^    (bb\d+)(?: \(cleanup\))?: \{\n(.*?)^    \}', txt, re.S | re.M):
        lines = [l.strip() for l in m.group(2).strip().split('\n')]
        blocks[m.group(1)] = lines
    return blocks

# ---- sorts
Value = Datatype('Value')
Value.declare('Null'); Value.declare('Bool', ('b', BoolSort())); Value.declare('Num', ('n', IntSort()))
Value.declare('Str', ('s', StringSort())); Value.declare('Arr', ('a', IntSort())); Value.declare('Obj', ('o', IntSort()))
Value = Value.create()
OptInt = Datatype('OptInt'); OptInt.declare('NoneI'); OptInt.declare('SomeI', ('v', IntSort())); OptInt = OptInt.create()
rfc3339 = Function('rfc3339', StringSort(), OptInt)

def split_call(line):
    m = re.match(r'(_\d+) = (.*) -> \[return: (bb\d+)', line)
    if not m or not m.group(2).endswith(')'): return None
    body = m.group(2); depth = 0
    for i in range(len(body) - 1, -1, -1):
        if body[i] == ')': depth += 1
        elif body[i] == '(':
            depth -= 1
            if depth == 0: return m.group(1), body[:i], body[i+1:-1], m.group(3)
    return None

class Path:
    def __init__(self): self.pc = []; self.env = {}; self.ret = None
    def clone(self):
        p = Path(); p.pc = list(self.pc); p.env = dict(self.env); return p

def run(fn_txt, args, now):
    blocks = parse_body(fn_txt)
    results = []
    work = [(Path(), 'bb0')]
    for p, _ in work: p.env.update(args)
    while work:
        p, bb = work.pop()
        term = None
        for line in blocks[bb]:
            line = line.rstrip(';')
            # call
            m = split_call(line)
            if m:
                dst, f, a, nxt = m; a = [x.strip().replace('copy ','').replace('move ','') for x in a.split(',')] if a else []
                if f == 'Value::as_str':
                    v = p.env[a[0]]; p.env[dst] = ('optstr', Value.is_Str(v), Value.s(v))
                elif f.endswith('unwrap_or_default'):
                    _, some, s = p.env[a[0]]; p.env[dst] = If(some, s, StringVal(''))
                elif f.endswith('is_empty'):
                    p.env[dst] = Length(p.env[a[0]]) == 0
                elif f.startswith('OffsetDateTime::parse'):
                    p.env[dst] = ('res_time', rfc3339(p.env[a[0]]), p.env[a[0]])
                elif 'map_err' in f:
                    p.env[dst] = p.env[a[0]]          # error payload = RFC3339Date(val) (closure body read separately)
                elif f.endswith('as Try>::branch'):
                    p.env[dst] = p.env[a[0]]
                elif f == 'OffsetDateTime::now_utc':
                    p.env[dst] = now
                elif f.endswith('PartialOrd>::le'):
                    p.env[dst] = p.env[p.env[a[0]]] <= p.env[p.env[a[1]]]
                elif 'from_residual' in f:
                    p.env[dst] = ('Err', 'RFC3339Date')
                else:
                    raise SystemExit('unmodelled call: ' + f)
                term = ('goto', nxt); break
            m = re.match(r'switchInt\((?:move |copy )?(_\d+)\) -> \[(.*)\]', line)
            if m:
                v = p.env[m.group(1)]; arms = [x.strip() for x in m.group(2).split(',')]
                term = ('switch', v, arms); break
            m = re.match(r'goto -> (bb\d+)', line)
            if m: term = ('goto', m.group(1)); break
            if line == 'return': term = ('ret',); break
            if line == 'unreachable': term = ('dead',); break
            m = re.match(r'(_\d+) = discriminant\((_\d+)\)', line)
            if m:
                _, opt, s = p.env[m.group(2)]; p.env[m.group(1)] = ('disc', OptInt.is_SomeI(opt)); continue
            m = re.match(r'(_\d+) = (?:copy|move) \(\((_\d+) as (\w+)\)\.0: .*\)', line)
            if m:
                _, opt, s = p.env[m.group(2)]
                p.env[m.group(1)] = OptInt.v(opt) if m.group(3) == 'Continue' else ('resid', s); continue
            m = re.match(r'(_\d+) = &(_\d+)$', line)
            if m: p.env[m.group(1)] = m.group(2); continue
            m = re.match(r'(_\d+) = (?:copy|move) (_\d+)$', line)
            if m: p.env[m.group(1)] = p.env[m.group(2)]; continue
            m = re.match(r'_0 = Result::<.*>::Ok\(const \(\)\)', line)
            if m: p.env['_0'] = ('Ok',); continue
            m = re.match(r'_0 = Result::<.*>::Err\(move (_\d+)\)', line)
            if m: p.env['_0'] = ('Err', p.env[m.group(1)]); continue
            m = re.match(r'(_\d+) = claims::error::PasetoClaimError::(\w+)$', line)
            if m: p.env[m.group(1)] = m.group(2); continue
            m = re.match(r'(_\d+) = \{closure@.*\} \{ val: copy (_\d+) \}', line)
            if m: p.env[m.group(1)] = ('closure', p.env[m.group(2)]); continue
            m = re.match(r'(_\d+) = const .*promoted\[0\]', line)
            if m: p.env[m.group(1)] = 'Rfc3339'; continue
            raise SystemExit('unparsed statement: ' + line)
        if term[0] == 'goto': work.append((p, term[1]))
        elif term[0] == 'ret': p.ret = p.env['_0']; results.append(p)
        elif term[0] == 'dead': pass
        elif term[0] == 'switch':
            v, arms = term[1], term[2]
            if isinstance(v, tuple) and v[0] == 'disc':   # ControlFlow discriminant: 0=Continue(Some), 1=Break
                for arm in arms:
                    k, tgt = [x.strip() for x in arm.split(':')]
                    q = p.clone()
                    if k == '0': q.pc.append(v[1])
                    elif k == '1': q.pc.append(Not(v[1]))
                    else: continue
                    work.append((q, tgt))
            else:
                for arm in arms:
                    k, tgt = [x.strip() for x in arm.split(':')]
                    q = p.clone(); q.pc.append(Not(v) if k == '0' else v); work.append((q, tgt))
    return results

fn = get_fn(r'paseto_parser::<impl at [^>]*>::default::\{closure#0\}')
value = Const('value', Value); now = Int('now')
paths = run(fn, {'_3': value}, now)
print(len(paths), 'paths')
is_ok = Or([And(*p.pc) for p in paths if p.ret[0] == 'Ok'])
t = Int('t')
s = Solver()
# property C11: non-null values that are not RFC3339 strings must be rejected; past instants rejected; future accepted; Null accepted
bad_accept = And(value != Value.Null, Or(Not(Value.is_Str(value)), rfc3339(Value.s(value)) == OptInt.NoneI,
                 And(rfc3339(Value.s(value)) == OptInt.SomeI(t), t <= now - 2)), is_ok)
s.add(bad_accept)
r = s.check(); print('C11 negation:', r)
if r == sat:
    m = s.model(); print('counterexample exp value =', m.eval(value), ' now =', m.eval(now))
s2 = Solver(); s2.add(Value.is_Str(value), rfc3339(Value.s(value)) == OptInt.SomeI(t), t >= now + 60, Not(is_ok)); print('future-accepted negation:', s2.check())
s3 = Solver(); s3.add(value == Value.Null, Not(is_ok)); print('null-accepted negation:', s3.check())
# same query restricted to strings that parse: the comparison direction itself
s4 = Solver(); s4.add(Value.is_Str(value), Length(Value.s(value)) > 0, rfc3339(Value.s(value)) == OptInt.SomeI(t), t <= now - 2, is_ok); print('past-string-accepted:', s4.check())
