#!/usr/bin/env python3-vt
"""Probe for E3/C19: impl headers + method signatures from rustdoc JSON -> z3 over finite sorts."""
import json, sys, time, itertools
from z3 import *
t0 = time.time()
d = json.load(open('/tmp/probe/tgt_doc/doc/rusty_paseto.json')); idx = d['index']
Version, (V1, V2, V3, V4) = EnumSort('Version', ['V1', 'V2', 'V3', 'V4'])
Purpose, (Local, Public) = EnumSort('Purpose', ['Local', 'Public'])
VC = {'V1': V1, 'V2': V2, 'V3': V3, 'V4': V4}; PC = {'Local': Local, 'Public': Public}
MARKERS = {}
def tname(t):
    if 'resolved_path' in t: return (t['resolved_path'].get('path') or t['resolved_path'].get('name')).split('::')[-1]
    if 'generic' in t: return '$' + t['generic']
    if 'borrowed_ref' in t: return tname(t['borrowed_ref']['type'])
    return None
def targs(t):
    if 'borrowed_ref' in t: return targs(t['borrowed_ref']['type'])
    if 'resolved_path' not in t: return []
    a = t['resolved_path'].get('args') or {}
    return [x['type'] for x in a.get('angle_bracketed', {}).get('args', []) if 'type' in x]
impls = [v['inner']['impl'] for v in idx.values() if 'impl' in v['inner']]
impls = [i for i in impls if not i.get('blanket_impl') and not i.get('is_synthetic')]
# marker traits
for i in impls:
    tr = i['trait']
    if tr and (tr.get('path') or tr.get('name')).split('::')[-1] in ('V1orV3', 'V2orV4', 'ImplicitAssertionCapable', 'VersionTrait', 'PurposeTrait'):
        MARKERS.setdefault((tr.get('path') or tr.get('name')).split('::')[-1], set()).add(tname(i['for']))
print('marker traits:', {k: sorted(v) for k, v in MARKERS.items()})
def bounds_of(i):
    b = {}
    for g in i['generics']['params']:
        if 'type' in g['kind']:
            b[g['name']] = [(x['trait_bound']['trait'].get('path') or x['trait_bound']['trait'].get('name')).split('::')[-1] for x in g['kind']['type'].get('bounds', []) if 'trait_bound' in x]
    for w in i['generics']['where_predicates']:
        bp = w.get('bound_predicate')
        if bp and 'generic' in bp['type']:
            b.setdefault(bp['type']['generic'], []).extend((x['trait_bound']['trait'].get('path') or x['trait_bound']['trait'].get('name')).split('::')[-1] for x in bp['bounds'] if 'trait_bound' in x)
    return b
def constrain(arg, var, env, bnds, enum):
    """formula: type argument `arg` (from an impl header / signature) matches the solver variable `var`"""
    n = tname(arg)
    if n in enum: return var == enum[n]
    if n and n.startswith('$'):
        g = n[1:]; cons = []
        if g in env: cons.append(var == env[g])
        else: env[g] = var
        for tr in bnds.get(g, []):
            if tr in MARKERS and enum is VC: cons.append(Or(*[var == VC[m] for m in MARKERS[tr] if m in VC] or [BoolVal(False)]))
        return And(*cons) if cons else BoolVal(True)
    return BoolVal(False)
OWNERS = ('Paseto', 'GenericBuilder', 'GenericParser', 'PasetoBuilder', 'PasetoParser')
KEYS = ('PasetoSymmetricKey', 'PasetoAsymmetricPrivateKey', 'PasetoAsymmetricPublicKey')
METHODS = ('try_encrypt', 'try_decrypt', 'try_sign', 'try_verify', 'parse', 'build')
v, p, v2, p2 = Const('v', Version), Const('p', Purpose), Const('v2', Version), Const('p2', Purpose)
facts = []      # (owner, method, key type, formula over v,p,v2,p2)
for i in impls:
    if i['trait'] is not None or tname(i['for']) not in OWNERS: continue
    fa = targs(i['for']); bnds = bounds_of(i)
    for it in i['items']:
        item = idx.get(str(it))
        if not item or item['name'] not in METHODS or 'function' not in item['inner']: continue
        for pname, pty in item['inner']['function']['sig']['inputs']:
            if tname(pty) in KEYS:
                env = {}
                f = And(constrain(fa[0], v, env, bnds, VC), constrain(fa[1], p, env, bnds, PC))
                ka = targs(pty)
                f = And(f, constrain(ka[0], v2, env, bnds, VC), constrain(ka[1], p2, env, bnds, PC))
                facts.append((tname(i['for']), item['name'], tname(pty), f))
print('%d (owner, method, key) signatures extracted' % len(facts))
s = Solver()
mix = Or(*[f for _, _, _, f in facts])
s.add(mix, Or(v != v2, p != p2))
r = s.check(); print('exists a method accepting a key of another version/purpose:', r, '(unsat = no mixing call type-checks)')
# sanity: matching calls exist for the protocols compiled into this doc build
s2 = Solver(); s2.add(mix, v == v2, p == p2); print('matching call exists:', s2.check())
# encrypt/decrypt on Public or sign/verify on Local ?
for meths, pur in ((('try_encrypt', 'try_decrypt'), Public), (('try_sign', 'try_verify'), Local)):
    s3 = Solver(); s3.add(Or(*[f for o, m, k, f in facts if m in meths] or [BoolVal(False)]), p == pur); print('%s on %s:' % ('/'.join(meths), pur), s3.check())
# symmetric key constructible with purpose Public?  From impls on PasetoSymmetricKey
cons = []
for i in impls:
    tr = i['trait']
    if tr and (tr.get('path') or tr.get('name')).split('::')[-1] in ('From', 'TryFrom') and tname(i['for']) == 'PasetoSymmetricKey':
        env = {}; fa = targs(i['for']); bnds = bounds_of(i)
        cons.append(And(constrain(fa[0], v, env, bnds, VC), constrain(fa[1], p, env, bnds, PC)))
s4 = Solver(); s4.add(Or(*cons), p == Public); print('PasetoSymmetricKey<_, Public> constructible:', s4.check())
# set_implicit_assertion for V1/V2?
cons = []
for i in impls:
    if i['trait'] is None and tname(i['for']) in OWNERS and any((idx.get(str(it)) or {}).get('name') == 'set_implicit_assertion' for it in i['items']):
        env = {}; fa = targs(i['for']); bnds = bounds_of(i)
        cons.append(constrain(fa[-2] if tname(i['for']) != 'Paseto' else fa[0], v, env, bnds, VC))
s5 = Solver(); s5.add(Or(*cons), Or(v == V1, v == V2)); print('set_implicit_assertion available for V1/V2:', s5.check(), '(%d impl blocks)' % len(cons))
print('total %.2fs' % (time.time() - t0))
