#!/usr/bin/env python3-vt
import sys, time; sys.path.insert(0, '/tmp/probe/e2')
from mirx import *
from mirx import SOLVER_TIMES
t0 = time.time()
fns, consts, allocs = load('/tmp/probe/mir/all.mir', '/repo')
S = StringSort()
utf8 = Function('utf8', S, Bytes)              # injective partial map str -> bytes
b64 = Function('b64', Bytes, S)
le64 = Function('le64', IntSort(), Bytes)
blake2b = Function('blake2b', IntSort(), Bytes, Bytes, Bytes)   # (outlen, key, data)
ks = Function('xchacha_ks', Bytes, Bytes, IntSort(), Bytes)
xor = Function('xor', Bytes, Bytes, Bytes)
fresh = itertools.count()
LEMMAS = []                                     # ground instances (lengths, injectivity) collected while executing
MACS = []

def deref(st, v):
    while isinstance(v, tuple) and v[0] == 'ref': v = get_path(st.store[v[1]], v[2])
    return v
def upd(st, r, v): st.store[r[1]] = set_path(st.store[r[1]], r[2], v)
def as_bytes(st, v):
    v = deref(st, v)
    if isinstance(v, tuple) and v[0] == 'adt' and len(v[3]) >= 1 and not is_expr(v): 
        # newtype / struct around bytes: Key(seq), Footer(str), Vec ...
        for f in v[3]:
            if is_expr(f) or (isinstance(f, tuple) and f[0] in ('ref', 'adt')): return as_bytes(st, f)
    if is_expr(v) and is_string_value(v):
        bs = v.as_string().encode()
        return Empty(Bytes) if not bs else (Unit(BitVecVal(bs[0], 8)) if len(bs) == 1 else Concat(*[Unit(BitVecVal(b, 8)) for b in bs]))
    if is_expr(v) and is_string(v): return utf8(v)
    if is_expr(v): return v
    if isinstance(v, tuple) and v[0] == 'bytes_lit': return Concat(*[Unit(BitVecVal(b, 8)) for b in v[1]]) if len(v[1]) > 1 else Unit(BitVecVal(v[1][0], 8))
    raise Unsupported('as_bytes of ' + str(v)[:80])

def c_identity(ex, st, callee, a): return [(None, a[0])]
def c_deref_val(ex, st, callee, a): return [(None, deref(st, a[0]))]
def c_try_branch(ex, st, callee, a):
    v = a[0]
    if v[2] == 'Ok': return [(None, adt('ControlFlow', 'Continue', v[3][0]))]
    return [(None, adt('ControlFlow', 'Break', err(v[3][0])))]
def c_from_residual(ex, st, callee, a): return [(None, a[0])]
def c_parse_raw_token(ex, st, callee, a):
    P = Const('P%d' % next(fresh), Bytes); st.log.append(('payload', P))
    return [(None, ok(P))]       # Err outcome is trivially panic-free; decided separately
def c_index_range(ex, st, callee, a):
    v = as_bytes(st, a[0]); r = a[1]; n = Length(v)
    kind = r[1]
    if kind == 'RangeTo': lo, hi = IntVal(0), r[3][0]
    elif kind == 'Range': lo, hi = r[3][0], r[3][1]
    elif kind == 'RangeFrom': lo, hi = r[3][0], n
    else: raise Unsupported('range kind ' + kind)
    okc = And(lo <= hi, hi <= n)
    if 'IndexMut' in callee:
        src = a[0]
        return [(Not(okc), Panic('slice index out of range (%s)' % kind)), (okc, ('ref', src[1], src[2] + (('slice', lo, hi - lo),)))]
    return [(Not(okc), Panic('slice index out of range (%s)' % kind)), (okc, simplify(Extract(v, lo, hi - lo)))]
def c_key_from_slice(ex, st, callee, a):
    n = int(re.search(r'Key<(\d+)>', callee).group(1)); v = as_bytes(st, a[0])
    return [(Length(v) != n, Panic('copy_from_slice length mismatch in Key::from')), (Length(v) == n, adt('Key', None, v))]
def c_len(ex, st, callee, a): return [(None, Length(as_bytes(st, a[0])))]
def c_copy_from_slice(ex, st, callee, a):
    dst = deref(st, a[0]); src = as_bytes(st, a[1])
    upd(st, a[0], src)
    return [(Length(dst) != Length(src), Panic('copy_from_slice length mismatch')), (Length(dst) == Length(src), UNIT)]
def c_blake_new(ex, st, callee, a):
    n = {'B0>, B0>, B0>, B0>, B0>>': 32, 'B1>, B1>, B0>, B0>, B0>>': 56}[re.search(r'(B[01]>, B[01]>, B[01]>, B[01]>, B[01]>>)', callee).group(1)]
    k = as_bytes(st, a[0])
    return [(Length(k) > 64, err(adt('InvalidLength', None))), (Length(k) <= 64, ok(adt('Blake2bMac', None, IntVal(n), k, Empty(Bytes))))]
def c_unwrap(ex, st, callee, a):
    v = a[0]
    return [(None, v[3][0])] if v[2] in ('Ok', 'Some') else [(None, Panic('unwrap on ' + v[2]))]
def c_blake_update(ex, st, callee, a):
    m = deref(st, a[0]); upd(st, a[0], adt('Blake2bMac', None, m[3][0], m[3][1], simplify(Concat(m[3][2], as_bytes(st, a[1]))))); return [(None, UNIT)]
def c_blake_final(ex, st, callee, a):
    m = a[0]; out = blake2b(m[3][0], m[3][1], m[3][2]); LEMMAS.append(Length(out) == m[3][0]); st.pc.append(Length(out) == m[3][0]); MACS.append((m[3][0], m[3][1], m[3][2])); st.log.append(('blake2b', m[3][1], m[3][2]))
    return [(None, out)]
def c_to_vec(ex, st, callee, a): return [(None, as_bytes(st, a[0]))]
def c_default_opt(ex, st, callee, a):
    v = a[0]
    if v[2] == 'Some': return [(None, v[3][0])]
    what = re.search(r'Option::<(\w+::)*(\w+)', callee).group(2)
    return [(None, adt(what, None, StringVal('')))]
def c_into_opt(ex, st, callee, a): return [(None, a[0])]          # harness passes Option<Footer> directly
def c_le64(ex, st, callee, a): LEMMAS.append(Length(le64(a[0])) == 8); st.pc.append(Length(le64(a[0])) == 8); return [(None, le64(a[0]))]
def c_slice_iter(ex, st, callee, a): return [(None, deref(st, a[0]))]
def c_fold(ex, st, callee, a):
    arr, acc = a[0], a[1]
    if not (isinstance(arr, tuple) and arr[0] == 'array'): raise Unsupported('fold over ' + str(arr)[:50])
    span = re.search(r'\{closure@(.*?)\}', callee).group(1)
    f = next(f for f in ex.fns if '{closure#' in f.name and span in f.sig)
    cur = [(st, acc)]
    for i, el in enumerate(arr[1]):
        nxt = []
        for s1, acc1 in cur:
            cell = s1.new_cell(el)
            for s2, v in ex.run_sub(f, [('zst', 'closure'), acc1, ('ref', cell, ())], s1): nxt.append((s2, v))
        cur = nxt
    return [(None, v, s2) for s2, v in cur]
def c_extend(ex, st, callee, a):
    v = deref(st, a[0]); upd(st, a[0], simplify(Concat(as_bytes(st, v), as_bytes(st, a[1])))); return [(None, UNIT)]
def c_cteq(ex, st, callee, a):
    x, y = as_bytes(st, a[0]), as_bytes(st, a[1]); st.log.append(('compare', x, y))
    return [(x == y, ok(UNIT)), (x != y, err(adt('Unspecified', None)))]
def c_from_elem(ex, st, callee, a):
    n = a[1]; z = Const('zeros%d' % next(fresh), Bytes); LEMMAS.append(Length(z) == n); st.pc.append(Length(z) == n); return [(None, z)]
def c_generic_array_from_slice(ex, st, callee, a):
    v = as_bytes(st, a[0]); n = 32 if 'B0>, B0>, B0>, B0>, B0>>' in callee else 24
    return [(Length(v) != n, Panic('GenericArray::from_slice length')), (Length(v) == n, v)]
def c_cipher_new(ex, st, callee, a): return [(None, adt('XChaCha20', None, as_bytes(st, a[0]), as_bytes(st, a[1])))]
def c_apply_keystream(ex, st, callee, a):
    c = deref(st, a[0]); buf = deref(st, a[1]); k = ks(c[3][0], c[3][1], Length(buf)); st.log.append(('keystream', c[3][0], c[3][1]))
    out = xor(buf, k); st.pc.append(Length(out) == Length(buf)); upd(st, a[1], out); return [(None, UNIT)]
def c_from_utf8(ex, st, callee, a):
    b = as_bytes(st, a[0]); s = Const('str%d' % next(fresh), S); st.log.append(('from_utf8', b))
    return [(utf8(s) == b, ok(s)), (BoolVal(True), err(adt('Utf8Error', None)))]
def c_assert_eq_fail(ex, st, callee, a): return [(None, Panic('assert_failed'))]

def c_as_bytes(ex, st, callee, a): return [(None, as_bytes(st, a[0]))]
def c_str_eq(ex, st, callee, a): return [(None, simplify(deref(st, a[0]) == deref(st, a[1])))]
CONTRACTS = [
    (r'^<str as PartialEq>::eq$', c_str_eq),
    (r'^core::str::<impl str>::as_bytes$', c_as_bytes),
    (r' as Try>::branch$', c_try_branch), (r' as FromResidual<.*>::from_residual$', c_from_residual),
    (r'^<Vec<u8> as (std::ops::)?Index(Mut)?<', c_index_range), (r'^<\[u8; \d+\] as IndexMut<', c_index_range),
    (r'^<keys::Key<\d+> as From<&\[u8\]>>::from$', c_key_from_slice),
    (r'^Vec::<u8>::len$', c_len), (r'copy_from_slice$', c_copy_from_slice),
    (r'^<Blake2bMac<.*> as KeyInit>::new_from_slice$', c_blake_new), (r'^Result::<.*>::unwrap$', c_unwrap),
    (r'^<Blake2bMac<.*> as Update>::update$', c_blake_update), (r'^<Blake2bMac<.*> as FixedOutput>::finalize_fixed$', c_blake_final),
    (r'^std::slice::<impl \[u8\]>::to_vec$', c_to_vec), (r'^<GenericArray<.*> as Deref>::deref$', c_identity),
    (r'^std::option::Option::<.*>::unwrap_or_default$', c_default_opt), (r'^<impl Into<Option<', c_into_opt),
    (r'PreAuthenticationEncoding::le64$', c_le64), (r'^core::slice::<impl \[.*\]>::iter$', c_slice_iter),
    (r' as Iterator>::fold::<', c_fold), (r'^<Vec<u8> as Extend<', c_extend),
    (r'verify_slices_are_equal$', c_cteq), (r'^std::vec::from_elem::<u8>$', c_from_elem),
    (r'^GenericArray::<u8, .*>::from_slice$', c_generic_array_from_slice),
    (r' as KeyIvInit>::new$', c_cipher_new), (r' as StreamCipher>::apply_keystream$', c_apply_keystream),
    (r'^from_utf8$', c_from_utf8), (r'^<str as ToOwned>::to_owned$', c_identity),
    (r'^<Vec<u8> as Deref(Mut)?>::deref(_mut)?$', c_identity), (r'^<\[u8\] as AsRef<\[u8\]>>::as_ref$', c_identity),
    (r'assert_failed', c_assert_eq_fail), (r'^<&\[u8; \d+\] as', c_identity),
]

b64dec_ok = Function('b64dec_ok', S, BoolSort())       # strict canonical decode succeeds
b64dec = Function('b64dec', S, Bytes)
def c_split(ex, st, callee, a): return [(None, ('split', deref(st, a[0]), a[1]))]
def c_collect(ex, st, callee, a):
    _, tok_, sep = a[0]; outs = []
    for k in (1, 2, 3, 4, 5):
        ps = [String('part%d_%d_%d' % (k, i, next(fresh))) for i in range(min(k, 4))]
        cons = [Not(Contains(p, sep)) for p in ps]
        if k < 5: cons.append(tok_ == Concat(*sum([[p, sep] for p in ps], [])[:-1]) if k > 1 else tok_ == ps[0]); ln = IntVal(k)
        else:
            rest = String('rest_%d' % next(fresh)); ln = Int('nparts_%d' % next(fresh))
            cons += [tok_ == Concat(*sum([[p, sep] for p in ps], []), rest), ln >= 5]
        outs.append((And(*cons), ('vecstr', tuple(ps), ln)))
    return outs
def c_vecstr_len(ex, st, callee, a): return [(None, deref(st, a[0])[2])]
def c_vecstr_index(ex, st, callee, a):
    v = deref(st, a[0]); i = a[1].as_long()
    return [(v[2] <= i, Panic('index out of bounds: Vec<&str>[%d]' % i)), (v[2] > i, v[1][i] if i < len(v[1]) else String('late_part'))]
def c_range_incl_new(ex, st, callee, a): return [(None, adt('RangeInclusive', None, a[0], a[1]))]
def c_range_incl_contains(ex, st, callee, a):
    r = deref(st, a[0]); x = deref(st, a[1]); return [(None, And(r[3][0] <= x, x <= r[3][1]))]
def c_b64_encode(ex, st, callee, a):
    st.log.append(('b64_engine', str(a[0])[:60])); return [(None, b64(as_bytes(st, a[1])))]
def c_b64_decode(ex, st, callee, a):
    s_ = deref(st, a[1]); st.log.append(('b64_engine', str(a[0])[:60]))
    return [(b64dec_ok(s_), ok(b64dec(s_))), (Not(b64dec_ok(s_)), err(adt('DecodeError', None)))]
def c_string_as_ref_bytes(ex, st, callee, a): return [(None, as_bytes(st, a[0]))]
def c_is_ok(ex, st, callee, a): return [(None, BoolVal(deref(st, a[0])[2] == 'Ok'))]
def c_new_display(ex, st, callee, a):
    ty = re.search(r'new_display::<(.*)>$', callee).group(1); return [(None, ('fmtarg', a[0], ty))]
def c_arguments_new(ex, st, callee, a): return [(None, ('fmtargs', a[0][1], deref(st, a[1])[1]))]
def render(ex, st, fa):
    """interpret the format template; Display of crate types runs their own fmt MIR against a buffer cell"""
    _, tmpl, args = fa; out = []; i = 0; ai = 0; states = [(st, StringVal(''))]
    while tmpl[i] != 0:
        op = tmpl[i]
        if op < 0x80:
            lit_ = tmpl[i + 1:i + 1 + op].decode(); i += 1 + op
            states = [(s1, Concat(acc, StringVal(lit_))) for s1, acc in states]
        elif op == 0xC0:
            _, ref, ty = args[ai]; ai += 1; i += 1; nxt = []
            for s1, acc in states:
                v = deref(s1, ref)
                if is_expr(v) and is_string(v): nxt.append((s1, Concat(acc, v))); continue
                tyn = re.sub(r'^&+', '', ty)
                cal = '<%s as std::fmt::Display>::fmt' % tyn
                for g, gt in s1.stack[-1].get('subst', {}).items(): cal = re.sub(r'\b%s\b' % g, gt, cal)
                f = ex.find(cal)
                if f is None: raise Unsupported('no Display impl for ' + cal)
                buf = s1.new_cell(('fmtbuf', acc)); target = ref
                while True:
                    t_ = get_path(s1.store[target[1]], target[2])
                    if isinstance(t_, tuple) and t_[0] == 'ref': target = t_
                    else: break
                for s2, r in ex.run_sub(f, [target, ('ref', buf, ())], s1): nxt.append((s2, s2.store[buf][1]))
            states = nxt
        else: raise Unsupported('format template op %x' % op)
    return states
def c_format(ex, st, callee, a): return [(None, simplify(acc), s1) for s1, acc in render(ex, st, a[0])]
def c_write_fmt(ex, st, callee, a):
    outs = []
    for s1, acc in render(ex, st, a[1]):
        cur = deref(s1, a[0]); upd(s1, a[0], ('fmtbuf', Concat(cur[1], acc))); outs.append((None, ok(UNIT), s1))
    return outs
def c_string_ne(ex, st, callee, a): return [(None, simplify(deref(st, a[0]) != deref(st, a[1])))]
CONTRACTS = [
    (r'^core::str::<impl str>::split::<char>$', c_split), (r'^<std::str::Split<.*> as Iterator>::collect::<Vec<&str>>$', c_collect),
    (r'^Vec::<&str>::len$', c_vecstr_len), (r'^<Vec<&str> as std::ops::Index<usize>>::index$', c_vecstr_index),
    (r'RangeInclusive::<usize>::new$', c_range_incl_new), (r'RangeInclusive::<usize>::contains::<usize>$', c_range_incl_contains),
    (r'^<GeneralPurpose as base64::Engine>::encode::<', c_b64_encode), (r'^<GeneralPurpose as base64::Engine>::decode::<', c_b64_decode),
    (r'^<std::string::String as AsRef<\[u8\]>>::as_ref$', c_string_as_ref_bytes), (r'^Result::<\(\), Unspecified>::is_ok$', c_is_ok),
    (r'Argument::<.*>::new_display::<', c_new_display), (r'^Arguments::<.*>::new::<', c_arguments_new),
    (r'^format$', c_format), (r'^must_use::<', c_identity), (r'^std::fmt::Formatter::<.*>::write_fmt$', c_write_fmt),
    (r'^<std::string::String as PartialEq>::ne$', c_string_ne), (r'^<&str as Into<&str>>::into$', c_identity),
] + CONTRACTS


def c_checked_add(ex, st, callee, a):
    r = a[0] + a[1]; return [(r < 2**64, some(r)), (r >= 2**64, NONE)]
def c_option_map(ex, st, callee, a):
    if a[0][2] == 'None': return [(None, NONE)]
    span = re.search(r'\{closure@(.*?)\}', callee).group(1)
    f = next(f for f in ex.fns if '{closure#' in f.name and span in f.sig)
    return [(None, some(v), s2) for s2, v in ex.run_sub(f, [a[1], a[0][3][0]], st)]
CONTRACTS = [(r'checked_add$', c_checked_add), (r'^std::option::Option::<.*>::map::<', c_option_map),
             (r'^<std::string::String as Deref>::deref$', c_deref_val)] + CONTRACTS

ex = Exec(fns, consts, allocs, CONTRACTS)
f = [x for x in fns if x.method == 'try_encrypt' and 'v4_local' in x.name][0]
K = Const('K', Bytes); N = Const('N', Bytes); M = String('M'); F = String('F'); A = String('A')
def run(footer, assertion):
    st = State(); st.pc += [Length(K) == 32, Length(N) == 32, Length(utf8(M)) < 2**40, Length(utf8(F)) < 2**40, Length(utf8(A)) < 2**40]
    hdr = adt('Header', None, adt('PhantomData', None), adt('PhantomData', None), StringVal('v4.local.'))
    me = adt('Paseto', None, hdr, adt('Payload', None, M), footer, assertion)
    key = adt('PasetoSymmetricKey', None, adt('PhantomData', None), adt('PhantomData', None), adt('Key', None, K))
    nonce = adt('PasetoNonce', None, adt('PhantomData', None), adt('PhantomData', None), N)
    c1, c2, c3 = st.new_cell(me), st.new_cell(key), st.new_cell(nonce)
    return ex.run(f, [('ref', c1, ()), ('ref', c2, ()), ('ref', c3, ())], st)
def lit(b): return Concat(*[Unit(BitVecVal(x, 8)) for x in b])
def spec(fbytes, abytes, with_footer_segment):
    ekn = blake2b(IntVal(56), K, Concat(lit(b'paseto-encryption-key'), N)); ak = blake2b(IntVal(32), K, Concat(lit(b'paseto-auth-key-for-aead'), N))
    c = xor(utf8(M), ks(Extract(ekn, 0, 32), Extract(ekn, 32, 24), Length(utf8(M))))
    pae = le64(IntVal(5))
    for p in [lit(b'v4.local.'), N, c, fbytes, abytes]: pae = Concat(pae, le64(Length(p)), p)
    t = blake2b(IntVal(32), ak, pae)
    tokn = Concat(StringVal('v4.local.'), b64(Concat(N, c, t)))
    return Concat(tokn, StringVal('.'), b64(fbytes)) if with_footer_segment else tokn, [Length(ekn) == 56, Length(ak) == 32, Length(t) == 32, Length(c) == Length(utf8(M))]
def check(name, footer, assertion, fbytes, abytes, seg):
    try: res = run(footer, assertion)
    except Unsupported as e: print('UNSUPPORTED:', e); sys.exit(2)
    print('%s: %d paths (%s), %.1fs' % (name, len(res), ', '.join(r.msg if isinstance(r, Panic) else r[2] for _, r in res), time.time() - t0)); sys.stdout.flush()
    want, lem = spec(fbytes, abytes, seg)
    for s2, r in res:
        if isinstance(r, Panic) or r[2] != 'Ok': continue
        s = Solver(); s.add(*s2.pc); s.add(*lem); s.add(r[3][0] != want)
        t1 = time.time(); v = portfolio(s, 60000); print('    token differs from the specification token: %s (want unsat) %.1fs' % (v, time.time() - t1)); sys.stdout.flush()
E = Empty(Bytes)
check('footer None, assertion None', NONE, NONE, E, E, False)
check('footer Some(F), assertion Some(A)', some(adt('Footer', None, F)), some(adt('ImplicitAssertion', None, A)), utf8(F), utf8(A), True)
check('footer Some("") [spec: no footer segment]', some(adt('Footer', None, StringVal(''))), NONE, E, E, False)
print('total %.1fs' % (time.time() - t0), {k_: round(v, 1) for k_, v in SOLVER_TIMES.items()})
