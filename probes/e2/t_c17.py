#!/usr/bin/env python3-vt
import sys, time; sys.path.insert(0, '/tmp/probe/e2')
from mirx import *
t0 = time.time()
fns, consts, allocs = load('/tmp/probe/mir/all.mir', '/repo')
S = StringSort(); SetS = ArraySort(S, BoolSort())

def deref(st, v):
    while isinstance(v, tuple) and v[0] == 'ref': v = get_path(st.store[v[1]], v[2])
    return v
def upd(st, r, v): st.store[r[1]] = set_path(st.store[r[1]], r[2], v)

def c_get_key(ex, st, callee, a): return [(None, deref(st, a[0])[1])]                      # claim = ('claim', key, val)
def c_str_eq(ex, st, callee, a): return [(None, deref(st, a[0]) == deref(st, a[1]))]
def c_to_string(ex, st, callee, a): return [(None, deref(st, a[0]))]
def c_hs_insert(ex, st, callee, a):
    s = deref(st, a[0]); k = deref(st, a[1]); upd(st, a[0], Store(s, k, True)); return [(None, Not(Select(s, k)))]
def c_gb_remove(ex, st, callee, a):
    gb = deref(st, a[0]); k = deref(st, a[1]); upd(st, a[0], adt('GenericBuilder', None, Store(gb[3][0], k, False))); return [(None, a[0])]
def c_gb_set(ex, st, callee, a):
    gb = deref(st, a[0]); k = a[1][1]; st.log.append(('gb_set', k))
    upd(st, a[0], adt('GenericBuilder', None, If(Length(k) == 0, gb[3][0], Store(gb[3][0], k, True)))); return [(None, a[0])]
CONTRACTS = [
    (r'as claims::traits::PasetoClaim>::get_key$', c_get_key),
    (r'^<&str as PartialEq>::eq$', c_str_eq),
    (r'as ToString>::to_string$', c_to_string),
    (r'^HashSet::<std::string::String>::insert$', c_hs_insert),
    (r'GenericBuilder::<.*>::remove_claim$', c_gb_remove),
    (r'GenericBuilder::<.*>::set_claim::<T>$', c_gb_set),
]
ex = Exec(fns, consts, allocs, CONTRACTS)
def fn(method, file='paseto_builder.rs'):
    c = [f for f in fns if f.method == method and f.file and f.file.endswith(file)]
    assert len(c) == 1, (method, [f.name for f in c]); return c[0]

# arbitrary builder state: (version, purpose, builder, top_level_claims, dup_top_level_found, non_expiring_token)
tlc = Const('tlc', SetS); claims = Const('claims', SetS); dupf = Bool('dupf'); dupk = String('dupk'); nonexp = Bool('nonexp')
supplied_twice = Const('twice', SetS)            # ghost: keys the caller supplied more than once
def mk_state(st):
    b = adt('PasetoBuilder', None, adt('PhantomData', None), adt('PhantomData', None), adt('GenericBuilder', None, claims), tlc, tup(dupf, dupk), nonexp)
    c = st.new_cell(b); return ('ref', c, ())
k = String('k'); v = Int('v')
st = State(); selfref = mk_state(st)
res = ex.run(fn('set_claim'), [selfref, ('claim', k, v)], st)
print('set_claim: %d paths' % len(res))
# invariant I: dupf => dupk in twice ; after set_claim(k): twice' = twice ∪ ({k} if k ∈ tlc)
viol = []
for s2, r in res:
    b = get_path(s2.store[selfref[1]], ())
    tlc2, (dupf2, dupk2) = b[3][3], b[3][4][1]
    twice2 = If(Select(tlc, k), Store(supplied_twice, k, True), supplied_twice)
    pre = Implies(dupf, Select(supplied_twice, dupk))
    post = And(Implies(dupf2, Select(twice2, dupk2)),            # I preserved
               Implies(Select(tlc, k), dupf2),                    # a repeated key sets the flag
               Implies(dupf, dupf2),                              # sticky
               tlc2 == Store(tlc, k, True))
    s = Solver(); s.add(*s2.pc); s.add(pre, Not(post)); viol.append(s.check())
print('C17 inductive step for set_claim (unsat = holds):', viol)
# verify_ready_to_build: Err(Duplicate(dupk)) iff dupf
st = State(); selfref = mk_state(st)
res = ex.run(fn('verify_ready_to_build'), [selfref], st)
for s2, r in res:
    s = Solver(); s.add(*s2.pc)
    want = dupf if r[2] == 'Err' else Not(dupf)
    s.add(Not(want)); print('verify_ready_to_build path ->', r[2], (r[3][0][2], r[3][0][3]) if r[2] == 'Err' else '', 'flag consistent:', s.check() == unsat)
print('stats', {k: (len(v) if isinstance(v, set) else v) for k, v in ex.stats.items()}, '%.2fs' % (time.time() - t0))
