#!/usr/bin/env python3-vt
"""Probe for E3/C20: Cargo feature graph + cfg-gated #[from] variants -> SAT; type identity from rustdoc JSON."""
import json, re, itertools, time
from z3 import *
t0 = time.time()
# 1. feature implication graph from Cargo.toml
toml = open('/repo/Cargo.toml').read()
feat = {}
sec = re.search(r'\[features\](.*?)\n\[', toml, re.S).group(1)
for m in re.finditer(r'^([\w-]+)\s*=\s*\[(.*?)\]', sec, re.M): feat[m.group(1)] = re.findall(r'"([^"]+)"', m.group(2))
optional = re.findall(r'^([\w-]+)\s*=\s*\{[^}]*optional\s*=\s*true', toml, re.M)
for o in optional: feat.setdefault(o, [])
B = {f: Bool('feat_' + f.replace('-', '_')) for f in feat}
graph = [Implies(B[f], B[d.split('/')[0]]) for f, ds in feat.items() for d in ds if d.split('/')[0] in B]
# features are the least fixpoint of what the user selects: model by "user-selected" variables
U = {f: Bool('sel_' + f.replace('-', '_')) for f in feat}
closure = []
for f in feat:
    enablers = [B[g] for g, ds in feat.items() if f in [d.split('/')[0] for d in ds]]
    closure.append(B[f] == Or(U[f], *enablers))
protocols = [f for f in feat if re.match(r'v[1-4]_(local|public)$', f)]
user_only = [Not(U[f]) for f in feat if f not in protocols + ['core', 'generic', 'batteries_included']]   # documented features only
# 2. #[from] variants of PasetoError with their cfg
src = open('/repo/src/core/error.rs').read()
variants = []
body = src[src.index('pub enum PasetoError'):]
for chunk in re.split(r'\},\s*\n', body):
    m = re.search(r'(\w+)\s*\{\s*(?:///[^\n]*\s*)*#\[from\]\s*source:\s*([\w:]+)', chunk)
    if m:
        cfg = re.search(r'#\[cfg\(feature = "([\w-]+)"\)\]', chunk)
        variants.append((m.group(1), m.group(2), cfg.group(1) if cfg else None))
print('#[from] variants:', variants)
# 3. canonical identity of the source types from rustdoc JSON (two single-family builds)
canon = {}
for path in ('/tmp/probe/tgt_doc/doc/rusty_paseto.json', '/tmp/probe/tgt_doc3/doc/rusty_paseto.json'):
    d = json.load(open(path)); idx = d['index']
    enum = next(v for v in idx.values() if v['name'] == 'PasetoError' and 'enum' in v['inner'])
    for vid in enum['inner']['enum']['variants']:
        var = idx[str(vid)]; kind = var['inner']['variant']['kind']
        if 'struct' in kind:
            for fid in kind['struct']['fields']:
                fld = idx[str(fid)]; t = fld['inner']['struct_field']
                if 'resolved_path' in t:
                    p = d['paths'].get(str(t['resolved_path']['id']))
                    if p: canon[var['name']] = (d['external_crates'].get(str(p['crate_id']), {}).get('name', 'self'), tuple(p['path']))
print('canonical source types:', {k: v for k, v in canon.items() if k in [x[0] for x in variants]})
# 4. SAT: two #[from] variants with the same canonical type enabled together
s = Solver(); s.add(*closure, *user_only)
conf = []
for (a, ta, ca), (b, tb, cb) in itertools.combinations(variants, 2):
    if a in canon and b in canon and canon[a] == canon[b]:
        conf.append(And(B[ca] if ca else BoolVal(True), B[cb] if cb else BoolVal(True)))
        print('same type:', a, b, canon[a])
s.add(Or(*conf) if conf else BoolVal(False))
r = s.check(); print('exists a documented feature selection with a From-coherence conflict:', r)
if r == sat:
    m = s.model(); sel = [f for f in protocols + ['core', 'generic', 'batteries_included'] if is_true(m.eval(U[f]))]
    print('  counterexample configuration: --features', ','.join(sel), ' (to be replayed with cargo check)')
    # all minimal counterexamples among protocol pairs
    bad = []
    for x, y in itertools.combinations(protocols, 2):
        s2 = Solver(); s2.add(*closure, *user_only, Or(*conf)); s2.add(*[U[f] == (f in (x, y)) for f in protocols]); s2.add(Not(U['core']), Not(U['generic']), U['batteries_included'])
        if s2.check() == sat: bad.append((x, y))
    print('  conflicting protocol pairs per the model:', bad)
print('total %.2fs' % (time.time() - t0))
