//! Verification model of base64 0.22: same alphabet/padding/canonicity semantics for the
//! general-purpose engines used by rusty_paseto, written with simple byte loops.
#[derive(Clone, Debug, PartialEq, Eq)]
pub enum DecodeError {
    InvalidByte(usize, u8),
    InvalidLength(usize),
    InvalidLastSymbol(usize, u8),
    InvalidPadding,
}
impl core::fmt::Display for DecodeError {
    fn fmt(&self, f: &mut core::fmt::Formatter<'_>) -> core::fmt::Result { f.write_str("base64 decode error") }
}
impl std::error::Error for DecodeError {}

pub static mut CONTRACT_LEN: Option<usize> = None;
/// substitution mode: decoding the placeholder text yields the registered bytes
pub static mut SUBST: Option<Vec<u8>> = None;
pub const PLACEHOLDER: &str = "AAAA";
pub fn set_substitution(v: Vec<u8>) { unsafe { SUBST = Some(v); } }
/// bytes handed to the most recent `encode` calls (index 0 = first call)
pub static mut ENCODED: [Option<Vec<u8>>; 4] = [None, None, None, None];
pub static mut N_ENC: usize = 0;
pub fn encoded_input(i: usize) -> Vec<u8> { unsafe { ENCODED[i].clone().unwrap() } }
pub fn set_contract_len(n: Option<usize>) { unsafe { CONTRACT_LEN = n; } }

#[derive(Clone, Copy, Debug)]
pub struct GeneralPurpose { pub url_safe: bool, pub pad: bool }

fn enc6(url: bool, v: u8) -> u8 {
    if v < 26 { b'A' + v } else if v < 52 { b'a' + (v - 26) } else if v < 62 { b'0' + (v - 52) }
    else if v == 62 { if url { b'-' } else { b'+' } } else { if url { b'_' } else { b'/' } }
}
fn dec6(url: bool, c: u8) -> Option<u8> {
    if c >= b'A' && c <= b'Z' { Some(c - b'A') }
    else if c >= b'a' && c <= b'z' { Some(c - b'a' + 26) }
    else if c >= b'0' && c <= b'9' { Some(c - b'0' + 52) }
    else if c == (if url { b'-' } else { b'+' }) { Some(62) }
    else if c == (if url { b'_' } else { b'/' }) { Some(63) }
    else { None }
}

pub trait Engine {
    fn config(&self) -> GeneralPurpose;
    fn encode<T: AsRef<[u8]>>(&self, input: T) -> String {
        let cfg = self.config();
        let b = input.as_ref();
        let n = b.len();
        unsafe { if N_ENC < 4 { ENCODED[N_ENC] = Some(b.to_vec()); N_ENC += 1; } }
        let olen = if cfg.pad { (n + 2) / 3 * 4 } else { n / 3 * 4 + match n % 3 { 0 => 0, 1 => 2, _ => 3 } };
        let mut out: Vec<u8> = vec![0u8; olen];
        let mut j = 0;
        let mut i = 0;
        while i + 3 <= n {
            let (x, y, z) = (b[i], b[i + 1], b[i + 2]);
            { out[j] = enc6(cfg.url_safe, x >> 2); j += 1; }
            { out[j] = enc6(cfg.url_safe, ((x & 3) << 4) | (y >> 4)); j += 1; }
            { out[j] = enc6(cfg.url_safe, ((y & 15) << 2) | (z >> 6)); j += 1; }
            { out[j] = enc6(cfg.url_safe, z & 63); j += 1; }
            i += 3;
        }
        let rem = n - i;
        if rem == 1 {
            let x = b[i];
            { out[j] = enc6(cfg.url_safe, x >> 2); j += 1; }
            { out[j] = enc6(cfg.url_safe, (x & 3) << 4); j += 1; }
            if cfg.pad { { out[j] = b'='; j += 1; } { out[j] = b'='; j += 1; } }
        } else if rem == 2 {
            let (x, y) = (b[i], b[i + 1]);
            { out[j] = enc6(cfg.url_safe, x >> 2); j += 1; }
            { out[j] = enc6(cfg.url_safe, ((x & 3) << 4) | (y >> 4)); j += 1; }
            { out[j] = enc6(cfg.url_safe, (y & 15) << 2); j += 1; }
            if cfg.pad { { out[j] = b'='; j += 1; } }
        }
        // all bytes are ASCII
        unsafe { String::from_utf8_unchecked(out) }
    }
    fn decode<T: AsRef<[u8]>>(&self, input: T) -> Result<Vec<u8>, DecodeError> {
        #[cfg(kani)]
        unsafe {
            if let Some(n) = crate::CONTRACT_LEN {
                // contract mode: any byte vector of length n (or an error)
                let mut v = vec![0u8; n];
                let mut i = 0;
                while i < n { v[i] = kani::any(); i += 1; }
                return Ok(v);
            }
        }
        unsafe {
            if let Some(v) = &SUBST {
                let t = input.as_ref();
                if t.len() == 4 && t[0] == b'A' && t[1] == b'A' && t[2] == b'A' && t[3] == b'A' { return Ok(v.clone()); }
            }
        }
        let cfg = self.config();
        let s = input.as_ref();
        let mut n = s.len();
        if cfg.pad {
            if n % 4 != 0 { return Err(DecodeError::InvalidPadding); }
            if n > 0 && s[n - 1] == b'=' { n -= 1; if s[n - 1] == b'=' { n -= 1; } }
        }
        if n % 4 == 1 { return Err(DecodeError::InvalidLength(n)); }
        let olen = n / 4 * 3 + match n % 4 { 2 => 1, 3 => 2, _ => 0 };
        let mut out: Vec<u8> = vec![0u8; olen];
        let mut j = 0;
        let mut i = 0;
        while i + 4 <= n {
            let a = match dec6(cfg.url_safe, s[i]) { Some(v) => v, None => return Err(DecodeError::InvalidByte(i, s[i])) };
            let b = match dec6(cfg.url_safe, s[i + 1]) { Some(v) => v, None => return Err(DecodeError::InvalidByte(i + 1, s[i + 1])) };
            let c = match dec6(cfg.url_safe, s[i + 2]) { Some(v) => v, None => return Err(DecodeError::InvalidByte(i + 2, s[i + 2])) };
            let d = match dec6(cfg.url_safe, s[i + 3]) { Some(v) => v, None => return Err(DecodeError::InvalidByte(i + 3, s[i + 3])) };
            { out[j] = (a << 2) | (b >> 4); j += 1; }
            { out[j] = (b << 4) | (c >> 2); j += 1; }
            { out[j] = (c << 6) | d; j += 1; }
            i += 4;
        }
        let rem = n - i;
        if rem == 2 {
            let a = match dec6(cfg.url_safe, s[i]) { Some(v) => v, None => return Err(DecodeError::InvalidByte(i, s[i])) };
            let b = match dec6(cfg.url_safe, s[i + 1]) { Some(v) => v, None => return Err(DecodeError::InvalidByte(i + 1, s[i + 1])) };
            if b & 15 != 0 { return Err(DecodeError::InvalidLastSymbol(i + 1, s[i + 1])); }
            { out[j] = (a << 2) | (b >> 4); j += 1; }
        } else if rem == 3 {
            let a = match dec6(cfg.url_safe, s[i]) { Some(v) => v, None => return Err(DecodeError::InvalidByte(i, s[i])) };
            let b = match dec6(cfg.url_safe, s[i + 1]) { Some(v) => v, None => return Err(DecodeError::InvalidByte(i + 1, s[i + 1])) };
            let c = match dec6(cfg.url_safe, s[i + 2]) { Some(v) => v, None => return Err(DecodeError::InvalidByte(i + 2, s[i + 2])) };
            if c & 3 != 0 { return Err(DecodeError::InvalidLastSymbol(i + 2, s[i + 2])); }
            { out[j] = (a << 2) | (b >> 4); j += 1; }
            { out[j] = (b << 4) | (c >> 2); j += 1; }
        }
        Ok(out)
    }
}
impl Engine for GeneralPurpose { fn config(&self) -> GeneralPurpose { *self } }

pub mod engine {
    pub use super::{Engine, GeneralPurpose};
    pub mod general_purpose {
        pub use super::super::GeneralPurpose;
        pub const STANDARD: GeneralPurpose = GeneralPurpose { url_safe: false, pad: true };
        pub const STANDARD_NO_PAD: GeneralPurpose = GeneralPurpose { url_safe: false, pad: false };
        pub const URL_SAFE: GeneralPurpose = GeneralPurpose { url_safe: true, pad: true };
        pub const URL_SAFE_NO_PAD: GeneralPurpose = GeneralPurpose { url_safe: true, pad: false };
    }
}
pub mod prelude {
    pub use super::engine::general_purpose::{STANDARD as BASE64_STANDARD, STANDARD_NO_PAD as BASE64_STANDARD_NO_PAD, URL_SAFE as BASE64_URL_SAFE, URL_SAFE_NO_PAD as BASE64_URL_SAFE_NO_PAD};
    pub use super::Engine as _;
    pub use super::Engine;
}
