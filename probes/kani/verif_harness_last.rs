use super::*;
use verif_support::{precise_format, from_utf8_model, str_unchecked, barrier_noop};

fn any_ascii<const N: usize>() -> [u8; N] {
    let mut buf = [0u8; N];
    let mut i = 0;
    while i < N { let c: u8 = kani::any(); kani::assume(c < 0x80); buf[i] = c; i += 1; }
    buf
}

fn rt_v4_local<const ML: usize>() {
    let k: [u8; 32] = kani::any();
    let key = PasetoSymmetricKey::<V4, Local>::from(Key::<32>::from(k));
    let n: [u8; 32] = kani::any();
    let nk = Key::<32>::from(n);
    let nonce = PasetoNonce::<V4, Local>::from(&nk);
    let mb = any_ascii::<ML>();
    let msg = str_unchecked(&mb);
    let token = Paseto::<V4, Local>::builder().set_payload(Payload::from(msg)).try_encrypt(&key, &nonce).unwrap();
    let out = Paseto::<V4, Local>::try_decrypt(&token, &key, None, None);
    assert!(out.is_ok());
    assert!(out.unwrap() == msg);
}

#[kani::proof]
#[kani::unwind(70)]
#[kani::stub(alloc::fmt::format, precise_format)]
#[kani::stub(core::str::from_utf8, from_utf8_model)]
#[kani::stub(zeroize::optimization_barrier, barrier_noop)]
fn rt_v4_local_3() { rt_v4_local::<3>() }

#[kani::proof]
#[kani::unwind(70)]
#[kani::stub(alloc::fmt::format, precise_format)]
#[kani::stub(core::str::from_utf8, from_utf8_model)]
#[kani::stub(zeroize::optimization_barrier, barrier_noop)]
fn enc_v4_local_3() {
    let k: [u8; 32] = kani::any();
    let key = PasetoSymmetricKey::<V4, Local>::from(Key::<32>::from(k));
    let n: [u8; 32] = kani::any();
    let nk = Key::<32>::from(n);
    let nonce = PasetoNonce::<V4, Local>::from(&nk);
    let mb = any_ascii::<3>();
    let msg = str_unchecked(&mb);
    let token = Paseto::<V4, Local>::builder().set_payload(Payload::from(msg)).try_encrypt(&key, &nonce).unwrap();
    assert!(token.len() == 9 + 90);
}

fn c09_v4_local<const PL: usize>() {
    let k: [u8; 32] = kani::any();
    let key = PasetoSymmetricKey::<V4, Local>::from(Key::<32>::from(k));
    base64::set_contract_len(Some(PL));
    let r = Paseto::<V4, Local>::try_decrypt("v4.local.AAAA", &key, None, None);
    std::mem::forget(r);
    std::mem::forget(key);
}
macro_rules! c09 { ($name:ident, $n:expr) => {
#[kani::proof]
#[kani::unwind(70)]
#[kani::stub(alloc::fmt::format, precise_format)]
#[kani::stub(core::str::from_utf8, from_utf8_model)]
#[kani::stub(zeroize::optimization_barrier, barrier_noop)]
fn $name() { c09_v4_local::<$n>() }
}}
c09!(c09_v4_local_0, 0);
c09!(c09_v4_local_31, 31);
c09!(c09_v4_local_40, 40);
c09!(c09_v4_local_64, 64);
c09!(c09_v4_local_66, 66);

fn rt2_v4_local<const ML: usize>() {
    let k: [u8; 32] = kani::any();
    let key = PasetoSymmetricKey::<V4, Local>::from(Key::<32>::from(k));
    let n: [u8; 32] = kani::any();
    let nk = Key::<32>::from(n);
    let nonce = PasetoNonce::<V4, Local>::from(&nk);
    let mb = any_ascii::<ML>();
    let msg = str_unchecked(&mb);
    let token = Paseto::<V4, Local>::builder().set_payload(Payload::from(msg)).try_encrypt(&key, &nonce).unwrap();
    // token text = header || b64(P); P = bytes the library handed to the encoder
    let p = base64::encoded_input(0);
    assert!(p.len() == 32 + ML + 32);
    assert!(token.len() == 9 + (p.len() * 4 + 2) / 3);
    assert!(token.as_bytes()[..9] == *b"v4.local.");
    // decrypt side: placeholder segment decodes to P
    base64::set_substitution(p);
    let out = Paseto::<V4, Local>::try_decrypt("v4.local.AAAA", &key, None, None);
    assert!(out.is_ok());
    assert!(out.unwrap() == msg);
}
#[kani::proof]
#[kani::unwind(70)]
#[kani::stub(alloc::fmt::format, precise_format)]
#[kani::stub(core::str::from_utf8, from_utf8_model)]
#[kani::stub(zeroize::optimization_barrier, barrier_noop)]
fn rt2_v4_local_3() { rt2_v4_local::<3>() }

#[kani::proof]
#[kani::unwind(20)]
fn dbg_len() {
    use base64::prelude::*;
    base64::set_contract_len(Some(3));
    let v = BASE64_URL_SAFE_NO_PAD.decode("AAAA").unwrap();
    let mut i = 0;
    while i < v.len() { i += 1; }
    assert!(i == 3);
}
#[kani::proof]
#[kani::unwind(20)]
fn dbg_len2() {
    let v = Payload::from("AAAA").decode().unwrap();
    let mut i = 0;
    while i < v.len() { i += 1; }
    assert!(i == 3);
}
#[kani::proof]
#[kani::unwind(20)]
#[kani::stub(alloc::fmt::format, precise_format)]
fn dbg_len3() {
    base64::set_contract_len(Some(3));
    let v = Paseto::<V4, Local>::parse_raw_token("v4.local.AAAA", None, &V4::default(), &Local::default()).unwrap();
    let mut i = 0;
    while i < v.len() { i += 1; }
    assert!(i == 3);
}
