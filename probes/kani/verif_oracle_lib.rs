//! Ideal-primitive oracle: injective uninterpreted functions with memoisation.
//! Fixed-size tables and a concrete query counter keep CBMC's loops concrete.
#![allow(static_mut_refs)]
pub const MAXQ: usize = 16;
pub const MAXIN: usize = 160;
pub const MAXOUT: usize = 64;

#[derive(Clone, Copy)]
pub struct Entry {
    pub dom: u32,
    pub inp: [u8; MAXIN],
    pub inp_len: usize,
    pub out: [u8; MAXOUT],
    pub out_len: usize,
}
const EMPTY: Entry = Entry { dom: 0, inp: [0; MAXIN], inp_len: 0, out: [0; MAXOUT], out_len: 0 };
static mut TABLE: [Entry; MAXQ] = [EMPTY; MAXQ];
static mut NQ: usize = 0;

#[cfg(kani)]
fn fresh_out() -> [u8; MAXOUT] {
    kani::any()
}
#[cfg(not(kani))]
fn fresh_out() -> [u8; MAXOUT] {
    [0; MAXOUT]
}

fn word(a: &[u8], i: usize) -> u128 {
    let mut w = [0u8; 16];
    w.copy_from_slice(&a[i..i + 16]);
    u128::from_le_bytes(w)
}
/// equality of two zero-padded buffers of equal (multiple-of-16) size, 16 bytes at a time
fn same_buf(a: &[u8], b: &[u8]) -> bool {
    let mut i = 0;
    let mut eq = true;
    while i < a.len() {
        eq &= word(a, i) == word(b, i);
        i += 16;
    }
    eq
}

/// Uninterpreted function `dom : bytes -> bytes[out_len]`, injective within a domain.
pub fn uf(dom: u32, inp: &[u8], out_len: usize) -> Vec<u8> {
    assert!(inp.len() <= MAXIN, "oracle input bound exceeded");
    assert!(out_len <= MAXOUT, "oracle output bound exceeded");
    unsafe {
        assert!(NQ < MAXQ, "oracle query bound exceeded");
        let mut ibuf = [0u8; MAXIN];
        ibuf[..inp.len()].copy_from_slice(inp);
        let mut i = 0;
        while i < NQ {
            let e = &TABLE[i];
            if e.dom == dom && e.out_len == out_len && e.inp_len == inp.len() && same_buf(&e.inp, &ibuf) {
                return e.out[..out_len].to_vec();
            }
            i += 1;
        }
        let mut out = fresh_out();
        let mut z = out_len;
        while z < MAXOUT { out[z] = 0; z += 1; }
        #[cfg(kani)]
        {
            let mut i = 0;
            while i < NQ {
                let e = &TABLE[i];
                if e.dom == dom && e.out_len == out_len {
                    kani::assume(!same_buf(&e.out, &out));
                }
                i += 1;
            }
        }
        TABLE[NQ] = Entry { dom, inp: ibuf, inp_len: inp.len(), out, out_len };
        NQ += 1;
        out[..out_len].to_vec()
    }
}
pub fn queries() -> usize {
    unsafe { NQ }
}
