use verif_support::{is_utf8, str_unchecked};
use crate::generic::CustomClaim;

fn k5<const L: usize>() {
    let b: [u8; L] = kani::any();
    kani::assume(is_utf8(&b));
    let s = str_unchecked(&b);
    let reserved = s == "iss" || s == "sub" || s == "aud" || s == "exp" || s == "nbf" || s == "iat" || s == "jti";
    let r1 = CustomClaim::<u8>::try_from((s, 7u8));
    assert!(r1.is_err() == reserved);
    let r2 = CustomClaim::<&str>::try_from(s);
    assert!(r2.is_err() == reserved);
    kani::cover!(reserved);
    kani::cover!(!reserved);
    std::mem::forget(r1); std::mem::forget(r2);
}
#[kani::proof] #[kani::unwind(12)] fn k5_len3() { k5::<3>() }
#[kani::proof] #[kani::unwind(12)] fn k5_len4() { k5::<4>() }
#[kani::proof] #[kani::unwind(12)] fn k5_len2() { k5::<2>() }
