#!/bin/bash
export CARGO_NET_OFFLINE=true CARGO_TARGET_DIR=/tmp/probe/tgt
cd /repo
F=(v1_local v2_local v3_local v4_local v1_public v2_public v3_public v4_public)
for layer in core generic batteries_included; do
for ((i=0;i<8;i++)); do
  fs="$layer,${F[i]}"
  if cargo check --lib --no-default-features --features $fs >/dev/null 2>&1; then echo "OK   $fs"; else echo "FAIL $fs"; fi
done
done
for ((i=0;i<8;i++)); do for ((j=i+1;j<8;j++)); do
  fs="batteries_included,${F[i]},${F[j]}"
  if cargo check --lib --no-default-features --features $fs >/dev/null 2>&1; then echo "OK   $fs"; else echo "FAIL $fs"; fi
done; done
for fs in "" core generic batteries_included "batteries_included,v1_local,v2_local,v3_local,v4_local,v1_public,v2_public,v4_public" "batteries_included,v1_local,v2_local,v3_local,v4_local,v3_public"; do
  if cargo check --lib --no-default-features --features "$fs" >/dev/null 2>&1; then echo "OK   [$fs]"; else echo "FAIL [$fs]"; fi
done
